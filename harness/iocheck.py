"""Shared machinery of the validated io properties C18 (PDDL round trip), C19 (ANML round trip), C21 (two PDDL readers):
case construction for UPV.Corr.Corr_C18, an independent Python oracle (product exploration through the real
UPSequentialSimulator), exception classification and failure reporting."""
import json
import traceback
from fractions import Fraction
from itertools import product

from harness.core import gn, glist, gpair, gbool, gnat
from harness.gen.pddlgen import Shared, ViewNames, IoSer, key_identity

IMPORTS = ["UPV.Core.Expr", "UPV.Core.Eval", "UPV.Core.Interp", "UPV.Planning.Problem", "UPV.Planning.Sem",
           "UPV.Planning.SeqValidate", "UPV.Compilers.BisimCheck", "UPV.Corr.Corr_C18"]

WHY = {1: "objects-differ", 2: "initial-state-differs", 3: "goal-verdict-differs", 4: "applicability-differs",
       5: "successor-differs", 6: "action-cost-differs", 7: "final-metric-differs", 8: "metric-kind-differs",
       9: "certificate-incomplete", 10: "action-signatures-differ"}


def restore_tracebacks():
    """the third-party `pddl` package sets sys.tracebacklimit = 0 when imported; undo it so that a crash of the check
    (or of the implementation) can be located"""
    import sys
    if hasattr(sys, "tracebacklimit"):
        del sys.tracebacklimit


def parse_pddl(reader, dom, prob):
    try:
        return reader.parse_problem_string(dom, prob)
    finally:
        restore_tracebacks()


class OutOfFragment(Exception):
    """the pair cannot be serialised into the modelled fragment (counted, not reported)"""


def build_case(P, Q, keyQ, depth, cap, plans=(), keyP=key_identity, temporal=True, split_intervals=False):
    """-> (Gallina case literal, info).  plans: list of (plan on P, plan on Q-or-P parsed back, view 'P'|'Q')."""
    shared = Shared()
    nP, nQ = ViewNames(shared, keyP), ViewNames(shared, keyQ)
    sP, sQ = IoSer(P, nP, split_intervals), IoSer(Q, nQ, split_intervals)
    try:
        # PDDL's universal supertype `object` may be materialised as a user type on one side only (the re-read
        # problem, or one of the two readers): there it denotes all objects, so it is given that meaning on the other
        tyP = {keyP("ty", t) for t in P.user_types}
        tyQ = {keyQ("ty", t) for t in Q.user_types}
        extraP, extraQ = [], []
        for root in ("object", "<unmapped:object>"):
            if root in tyQ and root not in tyP:
                extraP.append(gpair(gn(shared.id("ty", root)), glist([gn(nP.obj(o)) for o in P.all_objects])))
            if root in tyP and root not in tyQ:
                extraQ.append(gpair(gn(shared.id("ty", root)), glist([gn(nQ.obj(o)) for o in Q.all_objects])))
        rP = sP.render(extraP)
        rQ = sQ.render(extraQ)
        mP, kP = sP.metric()
        mQ, kQ = sQ.metric()
        tP = sP.tstruct() if temporal else "{| ts_actions := []; ts_teffs := []; ts_tgoals := [] |}"
        tQ = sQ.tstruct() if temporal else tP
        pcs = []
        for orig, back, view in plans:
            pcs.append("{| pc_orig := %s; pc_back := %s; pc_valid := true |}" % (
                sP.plan(orig), (sP if view == "P" else sQ).plan(back)))
        body = ("{| c_P := %s; c_Q := %s; c_MP := %s; c_MQ := %s; c_sigsP := %s; c_sigsQ := %s; c_initP := %s; c_initQ := %s; "
                "c_depth := %s; c_cap := %s; c_TP := %s; c_TQ := %s; c_plans := %s |}" % (
                    rP, rQ, mP, mQ, sP.sigs(), sQ.sigs(), sP.init(), sQ.init(), gnat(depth), gnat(cap), tP, tQ, glist(pcs)))
    except (ValueError, KeyError) as e:
        raise OutOfFragment("%s: %s" % (type(e).__name__, str(e)[:120]))
    ninsts = 0
    for a in sP.actions:
        k = 1
        for pp in a.parameters:
            k *= len(list(P.objects(pp.type))) if pp.type.is_user_type() else 0     # numeric parameters: not enumerated
        ninsts += k
    info = {"metricP": kP, "metricQ": kQ, "ids": shared.table(), "ninsts": ninsts,
            "durative": len(sP.dactions), "timed_effects": len(P.timed_effects), "plans": len(pcs),
            "tP": tP, "tQ": tQ}
    return body, info


# ---------------------------------------------------------------------- independent oracle
def _const(v):
    if v is None:
        return None
    if v.is_bool_constant():
        return ("b", v.bool_constant_value())
    if v.is_object_exp():
        return ("o", v.object().name)
    return ("n", Fraction(v.constant_value()))


class PyOracle:
    """Explores P and Q in lock step through the real UPSequentialSimulator (the property text read directly: same
    initial state, same applicable actions and successors on reachable states, same goal states).  `to_q` maps a P item
    (action / object / fluent) to the Q item or None."""

    def __init__(self, P, Q, to_q, type_name=None):
        self.P, self.Q, self.to_q = P, Q, to_q
        self.type_name = type_name          # P user type -> name of the type in Q
        self.emP, self.emQ = P.environment.expression_manager, Q.environment.expression_manager

    def ground_fluents(self):
        out = []
        for f in self.P.fluents:
            for args in product(*[list(self.P.objects(pp.type)) for pp in f.signature]):
                out.append((f, args))
        return out

    def read(self, sim_state, problem, f, args, em):
        try:
            return _const(sim_state.get_value(em.FluentExp(f, tuple(em.ObjectExp(o) for o in args))))
        except Exception:  # noqa
            return None

    def obs(self, sP, sQ):
        a, b = [], []
        for f, args in self.gfl:
            a.append(self.read(sP, self.P, f, args, self.emP))
            fq = self.to_q(f)
            aq = [self.to_q(o) for o in args]
            if fq is None or any(x is None for x in aq):
                b.append(("missing", f.name))
            else:
                v = self.read(sQ, self.Q, fq, aq, self.emQ)
                if v is not None and v[0] == "o":
                    v = ("o", self.back_obj.get(v[1], v[1]))
                b.append(v)
        return a, b

    def find_difference(self, depth, cap):
        from unified_planning.engines.sequential_simulator import UPSequentialSimulator
        P, Q = self.P, self.Q
        self.gfl = self.ground_fluents()
        self.back_obj = {}
        for o in P.all_objects:
            q = self.to_q(o)
            if q is not None:
                self.back_obj[q.name] = o.name
        try:
            simP = UPSequentialSimulator(P, error_on_failed_checks=False)
            sP0 = simP.get_initial_state()
        except Exception as e:  # noqa
            return {"oracle": "original problem cannot be simulated: %s" % str(e)[:80], "confirmed": False}
        try:
            simQ = UPSequentialSimulator(Q, error_on_failed_checks=False)
            sQ0 = simQ.get_initial_state()
        except Exception as e:  # noqa
            return {"oracle": "re-read problem cannot be simulated: %s" % str(e)[:120], "confirmed": True}
        if self.type_name is not None:
            for t in P.user_types:
                try:
                    tq = Q.user_type(self.type_name(t))
                    oq = sorted(self.back_obj.get(o.name, "?" + o.name) for o in Q.objects(tq))
                except Exception as e:  # noqa
                    oq = ["<no such type: %s>" % str(e)[:40]]
                op = sorted(o.name for o in P.objects(t))
                if op != oq:
                    return {"confirmed": True, "kind": "objects-differ", "type": t.name, "orig": op, "reread": oq}
        insts = []
        for a in P.actions:
            if not hasattr(a, "preconditions") or any(not pp.type.is_user_type() for pp in a.parameters):
                continue
            for args in product(*[list(P.objects(pp.type)) for pp in a.parameters]):
                insts.append((a, args))
        seen = set()
        frontier = [(sP0, sQ0, [])]
        n = 0
        for d in range(depth + 1):
            nxt = []
            for sP, sQ, path in frontier:
                oa, ob = self.obs(sP, sQ)
                if oa != ob:
                    diff = [(f.name, [o.name for o in args], str(x), str(y)) for (f, args), x, y in zip(self.gfl, oa, ob) if x != y]
                    return {"confirmed": True, "kind": "state-differs" if path else "initial-state-differs", "trace": path, "fluents": diff[:6]}
                key = tuple(map(str, oa))
                if key in seen:
                    continue
                seen.add(key)
                n += 1
                if n > cap:
                    return None
                try:
                    gP = bool(simP.is_goal(sP))
                except Exception:  # noqa
                    gP = False
                try:
                    gQ = bool(simQ.is_goal(sQ))
                except Exception:  # noqa
                    gQ = False
                if gP != gQ:
                    return {"confirmed": True, "kind": "goal-verdict-differs", "trace": path, "orig": gP, "reread": gQ}
                if d == depth:
                    continue
                for a, args in insts:
                    try:
                        nP = simP.apply(sP, a, [self.emP.ObjectExp(o) for o in args])
                    except Exception:  # noqa
                        nP = None
                    aq = self.to_q(a)
                    oq = [self.to_q(o) for o in args]
                    nQ = None
                    if aq is not None and all(x is not None for x in oq):
                        try:
                            nQ = simQ.apply(sQ, aq, [self.emQ.ObjectExp(o) for o in oq])
                        except Exception:  # noqa
                            nQ = None
                    step = path + [(a.name, [o.name for o in args])]
                    if (nP is None) != (nQ is None):
                        return {"confirmed": True, "kind": "applicability-differs", "trace": step,
                                "orig_applicable": nP is not None, "reread_applicable": nQ is not None}
                    if nP is not None:
                        nxt.append((nP, nQ, step))
            frontier = nxt
        return None


def by_name_mapper(Q, name_of):
    """to_q through a naming function (P item -> name in Q)"""
    def to_q(item):
        try:
            nm = name_of(item)
        except Exception:  # noqa
            return None
        import unified_planning as up
        try:
            if isinstance(item, up.model.Action):
                return Q.action(nm) if Q.has_action(nm) else None
            if isinstance(item, up.model.Object):
                return Q.object(nm) if Q.has_object(nm) else None
            if isinstance(item, up.model.Fluent):
                return Q.fluent(nm) if Q.has_fluent(nm) else None
        except Exception:  # noqa
            return None
        return None
    return to_q


# ---------------------------------------------------------------------- exceptions
DOCUMENTED = ("UPUnsupportedProblemTypeError", "UPProblemDefinitionError")


class _Fr:
    def __init__(self, filename, name, lineno):
        self.filename, self.name, self.lineno = filename, name, lineno


def _frames(e):
    """frames of the traceback, outermost first (walked by hand: the `pddl` package sets sys.tracebacklimit = 0, which
    makes traceback.extract_tb return nothing)"""
    out = []
    tb = e.__traceback__
    while tb is not None:
        out.append(_Fr(tb.tb_frame.f_code.co_filename, tb.tb_frame.f_code.co_name, tb.tb_lineno))
        tb = tb.tb_next
    return out


def exc_site(e):
    """(deepest frame inside unified_planning, deepest frame overall) as 'file:function'"""
    tb = _frames(e)
    inside = [fr for fr in tb if "unified_planning" in fr.filename]
    last = tb[-1] if tb else None

    def fmt(fr):
        return "%s:%s" % (fr.filename.split("/")[-1], fr.name) if fr else "?"
    return fmt(inside[-1] if inside else None), fmt(last), (last.filename if last else "")


def third_party_parser_reject(e):
    """True when the exception was raised by the third-party `pddl` package / lark while PARSING text (before
    unified_planning.interop.from_pddl converts anything): PDDLReader documents this path as optional (it falls back to
    the UP reader), so such inputs are outside the AI reader's fragment."""
    files = [fr.filename for fr in _frames(e)]
    in_conv = any(f.endswith("interop/from_pddl.py") for f in files)
    in_lib = any("/site-packages/pddl/" in f or "/site-packages/lark/" in f for f in files)
    return in_lib and not in_conv


def missing_domain_requirement(e):
    """the strict third-party parser rejects the DOMAIN the writer produced because a requirement is not declared"""
    if type(e).__name__ != "PDDLMissingRequirementError":
        return None
    files = [fr.filename for fr in _frames(e)]
    if any(f.endswith("pddl/parser/problem.py") for f in files):
        return None           # the problem file has no :requirements section at all: the parser's own convention
    import re
    m = re.search(r"(:[a-z-]+)", str(e))
    return m.group(1) if m else "?"


def sexprs(text):
    """a PDDL text as nested lists of lower-case tokens (comments removed)"""
    import re
    text = re.sub(r";[^\n]*", "", text.lower())
    toks = re.findall(r"\(|\)|[^\s()]+", text)
    stack, cur = [], []
    for t in toks:
        if t == "(":
            stack.append(cur)
            cur = []
        elif t == ")":
            if not stack:
                break
            parent = stack.pop()
            parent.append(cur)
            cur = parent
        else:
            cur.append(t)
    return cur


def has_repeated_arith_operand(*texts):
    """(+ x x), (* x x), (- x x) or (/ x x) occurs in the text: pddl 0.4 drops the repeated operand of an arithmetic
    operator (its operand flattening de-duplicates even for non-idempotent operators)"""
    def operands(n, head):
        out = []
        for x in n[1:]:
            if head in ("+", "*") and isinstance(x, list) and x and x[0] == head:
                out += operands(x, head)          # the parser flattens nested + / * before it de-duplicates
            else:
                out.append(json.dumps(x))
        return out

    def walk(n):
        if isinstance(n, list):
            if n and n[0] in ("+", "*", "-", "/", "=") and len(n) >= 3:
                args = operands(n, n[0])
                if len(set(args)) < len(args):
                    return True
            return any(walk(x) for x in n)
        return False
    return any(walk(sexprs(t)) for t in texts if t)


def pddl_lib_drops_duplicate_effect(dom):
    """True when the domain text has an `(and ...)` with the same increase/decrease effect twice AND the third-party
    `pddl` parser alone (no unified_planning code involved) returns fewer increase/decrease effects than the text has:
    its `And` is idempotent, which is wrong for additive effects"""
    def dup(n):
        if isinstance(n, list):
            if n and n[0] == "and":
                kids = [json.dumps(x) for x in n[1:] if isinstance(x, list) and x and x[0] in ("increase", "decrease")]
                if len(set(kids)) < len(kids):
                    return True
            return any(dup(x) for x in n)
        return False

    def count_text(n):
        if isinstance(n, list):
            return (1 if n and n[0] in ("increase", "decrease") else 0) + sum(count_text(x) for x in n)
        return 0
    tree = sexprs(dom)
    if not dup(tree):
        return False
    try:
        from pddl.parser.domain import DomainParser
        from pddl.logic.effects import AndEffect  # noqa: F401
    except Exception:  # noqa
        pass
    try:
        from pddl.parser.domain import DomainParser
        from pddl.logic.functions import Increase, Decrease
        d = DomainParser()(dom.lower())
    except Exception:  # noqa
        restore_tracebacks()
        return False
    finally:
        restore_tracebacks()

    def count_lib(x, seen):
        if isinstance(x, (Increase, Decrease)):
            return 1
        n = 0
        for attr in ("operands", "effect", "argument"):
            v = getattr(x, attr, None)
            if v is None:
                continue
            for y in (v if isinstance(v, (list, tuple)) else [v]):
                n += count_lib(y, seen)
        return n
    lib = sum(count_lib(a.effect, set()) for a in d.actions)
    return lib < count_text(tree)


def complete_undefined(problem):
    """a clone in which every ground fluent without an initial value gets one (false / 0 or the nearest bound / the
    first object): used to decide whether a disagreement is due ONLY to reads of undefined fluents"""
    q = problem.clone()
    em = q.environment.expression_manager
    have = set(q.initial_values)
    for f in q.fluents:
        if any(not pp.type.is_user_type() for pp in f.signature):
            continue
        for args in product(*[list(q.objects(pp.type)) for pp in f.signature]):
            fe = em.FluentExp(f, tuple(em.ObjectExp(o) for o in args))
            if fe in have:
                continue
            t = f.type
            if t.is_bool_type():
                v = False
            elif t.is_user_type():
                objs = list(q.objects(t))
                if not objs:
                    continue
                v = objs[0]
            else:
                v = 0
                if t.lower_bound is not None and t.lower_bound > 0:
                    v = t.lower_bound
                if t.upper_bound is not None and t.upper_bound < 0:
                    v = t.upper_bound
            q.set_initial_value(fe, v)
    return q


def only_undefined_reads(ctx, o):
    """True when the two problems of a failing comparison agree (bisim_check does not fail) once every undefined ground
    fluent of both has been given a value: the disagreement then comes only from the strict reading of undefined
    fluents (an undefined condition is not satisfied / makes the effect fail), which the implementation's simulator
    does not follow (known deviation C01-simplified-undefined-read)"""
    if "rebuild" not in o:
        return False
    try:
        P2, Q2 = complete_undefined(o["P"]), complete_undefined(o["Q"])
        if len(P2.initial_values) == len(o["P"].initial_values) and len(Q2.initial_values) == len(o["Q"].initial_values):
            return False
        case = o["rebuild"](P2, Q2)
        code = ctx.coq_codes([case], "Corr_C18.code", imports=IMPORTS, shard=1, label="undef")[0]
    except Exception:  # noqa
        return False
    return decode(code)[0] < 100


def diagnose(ctx, case, preamble=""):
    """the checker's own witness (failing kind, action sequence, instance), as printed by Coq"""
    return ctx.coq_show("run_check (%s)" % case, imports=IMPORTS, preamble=preamble)[:1500]


def decode(code):
    """code of Corr_C18.code -> (bisim part, temporal differs, plan failure, metrics structurally differ, states, bound)"""
    size = code // 10000
    code %= 10000
    b, t, p, m = _decode(code)
    return b, t, p, m, size // 100, size % 100


def _decode(code):
    m = code // 4000
    code %= 4000
    p = code // 2000
    code %= 2000
    t = code // 1000
    code %= 1000
    return code, bool(t), bool(p), bool(m)


def dump_failures(ctx):
    """IO_DEBUG=1: print a histogram of the failures before ctx.finish classifies them"""
    import os
    from collections import Counter
    if not os.environ.get("IO_DEBUG"):
        return
    c = Counter((f.kind, f.what[:150], f.property_fails) for f in ctx.failures)
    for k, v in c.most_common():
        print("  [%d] %s" % (v, k))
    os.makedirs("/tmp/bisim/fails", exist_ok=True)
    for i, f in enumerate(ctx.failures):
        with open("/tmp/bisim/fails/%s_%03d.json" % (ctx.pid, i), "w") as fh:
            json.dump({"kind": f.kind, "what": f.what, "tags": f.tags, "payload": f.payload}, fh, indent=1, default=str)


def tick(ctx, label):
    import os
    import time
    if os.environ.get("IO_DEBUG"):
        print("  [time] %s: %.1fs" % (label, time.time() - ctx.t0))
