"""Layer A of C06 / C07, UsertypeFluentsRemover: structural correspondence between the Gallina model
(coq/theories/Compilers/LayerA_Utfr.v; Proofs/LayerA_Utfr_proofs.v proves that the compiled problem accepts exactly the
plans of the original for ALL problems satisfying the hypotheses listed in Props/C06_utfr.v) and the REAL compiler.

For every compcheck.Case of the compiler "usertype-fluents-remover" inside the serialisable fragment (instantaneous
actions, no timed effects / goals) the original problem and the real compiler's output are serialised with ONE name
table (the Boolean fluent that replaces an object fluent keeps its name, hence its number); Coq
(Corr/Corr_LayerA_utfr.v) evaluates `utfr_compile (simplify . utr) simplify original` and compares it with the real
output after erasing variable identifiers (the walker's fresh names).  Cases outside the fragment of the MODEL (a
condition that reads an object fluent elsewhere than as a side of an equality with simple arguments, an effect with
forall variables or a nested object value, an action the compiler drops) are counted, not compared.  A mismatch inside
the fragment is model drift (property_fails=False); whether the PROPERTY fails is decided by the Coq-verified validators
of c06.py / c07.py on the same cases.  Evidence keys are prefixed layerA_utfr_.
"""
from harness import compcheck as cc
from harness import layera

COMPILER = "usertype-fluents-remover"
IMPORTS = ["UPV.Core.Expr", "UPV.Core.Eval", "UPV.Core.Interp", "UPV.Planning.Problem", "UPV.Planning.Sem",
           "UPV.Compilers.LayerA_Defs", "UPV.Compilers.LayerA_Quant", "UPV.Compilers.LayerA_Inv",
           "UPV.Compilers.LayerA_Variants", "UPV.Compilers.LayerA_Ground", "UPV.Compilers.LayerA_Utfr",
           "UPV.Corr.Corr_LayerA", "UPV.Corr.Corr_LayerA_utfr"]
FRESH_OFFSET = 1000000


class _Shim:
    """a compcheck.Case seen by layera.render_case as a case of a name-preserving compiler (kind 1: the la_case record
    then carries the two problems, the real map-back and the type tables of the simplifier model)"""

    def __init__(self, c):
        self.__dict__.update(c.__dict__)
        self.spec = dict(c.spec, id="state-invariants-remover")


def render_case(c, k):
    if c.problem.quality_metrics:
        raise layera.Outside("quality metrics")
    if any(tc for tc in c.problem.trajectory_constraints if not tc.is_always()):
        raise layera.Outside("trajectory constraint other than Always")
    defs, term = layera.render_case(_Shim(c), k)
    return defs, "{| ul_la := %s; ul_fv := %d |}" % (term, FRESH_OFFSET)


def run(ctx, cases, validator_failed=(), shard=16, label="layera_utfr"):
    picked = [c for c in cases if c.spec["id"] == COMPILER and c.live and c.result is not None
              and c.result.problem is not None]
    rendered, skipped = [], {}
    for c in picked:
        try:
            defs, term = render_case(c, len(rendered))
            rendered.append((c, defs, term))
        except layera.Outside as e:
            skipped[str(e)] = skipped.get(str(e), 0) + 1
        except ValueError as e:       # expression outside the IR
            skipped["ir:" + str(e)[:40]] = skipped.get("ir:" + str(e)[:40], 0) + 1
    shards = [rendered[i:i + shard] for i in range(0, len(rendered), shard)]

    def one(arg):
        si, sh = arg
        body = "".join(d for _, d, _ in sh)
        body += "Eval vm_compute in [ %s ].\n" % "\n ; ".join("ul_report %s" % t for _, _, t in sh)
        out = ctx.coq_run(body, IMPORTS, name="%s_%d" % (label, si), timeout=900)
        return sh, cc.parse_reports(out, len(sh))

    from concurrent.futures import ThreadPoolExecutor
    with ThreadPoolExecutor(max_workers=2) as ex:
        results = list(ex.map(one, list(enumerate(shards))))
    mism, outside = [], []
    inside = once = with_obj = inside_with_obj = 0
    for sh, reps in results:
        for (c, _, _), r in zip(sh, reps):
            code, hyps = r[0], r[1]
            has_obj = (hyps & 4) == 4
            with_obj += has_obj
            if (hyps & 1) == 0:
                outside.append({"label": getattr(c.gen, "label", "generated"),
                                "object_fluent_assigned_once": (hyps & 2) == 2,
                                "validator_found_counterexample": c.idx in validator_failed})
                continue
            inside += 1
            inside_with_obj += has_obj
            once += (hyps & 2) == 2
            if code != 0:
                what = [n for b, n in ((1, "actions"), (2, "goals"), (4, "state invariants"), (8, "fluents")) if code & b]
                mism.append({"compiler": COMPILER, "label": getattr(c.gen, "label", "generated"), "differs_in": what,
                             "code": code, "validator_found_counterexample": c.idx in validator_failed})
                ctx.fail("corr",
                         "Layer A: the Gallina model of %s and the real compiler disagree on %s (model drift: the "
                         "for-all-problems theorems no longer describe the code)" % (COMPILER, ", ".join(what)),
                         ["layerA", COMPILER, "model-differs"] + ["differs:" + w for w in what],
                         dict(cc.case_json(c), layerA_code=code, differs_in=what,
                              coq_oracle="UPV.Corr.Corr_LayerA_utfr.ul_code"),
                         False)
    return {
        "layerA_utfr_cases": len(rendered),
        "layerA_utfr_cases_compared_inside_model_fragment": inside,
        "layerA_utfr_compared_cases_with_an_object_fluent": inside_with_obj,
        "layerA_utfr_cases_with_an_object_fluent": with_obj,
        "layerA_utfr_mismatches": len(mism),
        "layerA_utfr_mismatch_samples": mism[:5],
        "layerA_utfr_compared_cases_where_one_value_condition_holds": once,
        "layerA_utfr_cases_outside_model_fragment": len(outside),
        "layerA_utfr_outside_samples": outside[:8],
        "layerA_utfr_skipped_outside_fragment": skipped,
    }
