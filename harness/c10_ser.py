"""C10: serialise a unified_planning problem as a UPV.Model.KindOf.problem_desc literal.

`Ser(problem)` reads the problem ONLY through its public API (plus the private dictionaries _timed_effects /
_timed_goals that Problem._kind_factory itself iterates) and never calls `problem.kind`.
Observed inputs supplied next to the syntax (see Model/KindOf.v): type classes from FNode.type, the LinearChecker
verdict, the fluent expressions of the simplified right-hand side of continuous effects.

Class `Problem` is serialised completely (full=True).  For ContingentProblem / HierarchicalProblem / SchedulingProblem /
MultiAgentProblem the description holds what the public API exposes (reduced, full=False) and `extra` lists the
class-specific features extracted here.
"""
from fractions import Fraction
from itertools import product

from harness.core import gz, gn, glist, gpair, gopt, gbool
from harness.ser import Names, gqc, ser_vars


def ser_expr(e, names, lenient=False):
    """FNode -> UPV.Core.Expr.expr; with lenient=True nodes outside the IR (timing, dot, ...) are kept as far as possible:
    Dot(agent, x) -> x, any other unknown leaf -> EInt 0 (used for the reduced descriptions only)."""
    memo = {}

    def go(n):
        if n in memo:
            return memo[n]
        a = [go(x) for x in n.args]
        if n.is_bool_constant():
            r = "(EBool %s)" % gbool(n.bool_constant_value())
        elif n.is_int_constant():
            r = "(EInt %s)" % gz(n.constant_value())
        elif n.is_real_constant():
            r = "(EReal %s)" % gqc(n.constant_value())
        elif n.is_object_exp():
            r = "(EObj %s)" % gn(names.obj(n.object()))
        elif n.is_parameter_exp():
            r = "(EParam %s)" % gn(names.par(n.parameter()))
        elif n.is_variable_exp():
            r = "(EVar %s %s)" % (gn(names.var(n.variable())), gn(names.ty(n.variable().type)))
        elif n.is_fluent_exp():
            r = "(EFluent %s %s)" % (gn(names.fl(n.fluent())), glist(a))
        elif n.is_interpreted_function_exp():
            r = "(EIFun %s %s)" % (gn(names.ifun(n.interpreted_function())), glist(a))
        elif n.is_and():
            r = "(EAnd %s)" % glist(a)
        elif n.is_or():
            r = "(EOr %s)" % glist(a)
        elif n.is_not():
            r = "(ENot %s)" % a[0]
        elif n.is_implies():
            r = "(EImplies %s %s)" % (a[0], a[1])
        elif n.is_iff():
            r = "(EIff %s %s)" % (a[0], a[1])
        elif n.is_exists():
            r = "(EExists %s %s)" % (ser_qvars(n.variables(), names), a[0])
        elif n.is_forall():
            r = "(EForall %s %s)" % (ser_qvars(n.variables(), names), a[0])
        elif n.is_plus():
            r = "(EPlus %s)" % glist(a)
        elif n.is_minus():
            r = "(EMinus %s %s)" % (a[0], a[1])
        elif n.is_times():
            r = "(ETimes %s)" % glist(a)
        elif n.is_div():
            r = "(EDiv %s %s)" % (a[0], a[1])
        elif n.is_le():
            r = "(ELe %s %s)" % (a[0], a[1])
        elif n.is_lt():
            r = "(ELt %s %s)" % (a[0], a[1])
        elif n.is_equals():
            r = "(EEquals %s %s)" % (a[0], a[1])
        elif n.is_always():
            r = "(EAlways %s)" % a[0]
        elif n.is_sometime():
            r = "(ESometime %s)" % a[0]
        elif n.is_sometime_before():
            r = "(ESometimeBefore %s %s)" % (a[0], a[1])
        elif n.is_sometime_after():
            r = "(ESometimeAfter %s %s)" % (a[0], a[1])
        elif n.is_at_most_once():
            r = "(EAtMostOnce %s)" % a[0]
        elif lenient and n.is_dot():
            r = a[0]
        elif lenient and not n.args:
            r = "(EInt (0)%Z)"
        else:
            raise ValueError("expression outside the modelled IR: %s (%s)" % (n, n.node_type))
        memo[n] = r
        return r

    return go(e)


def ser_qvars(vs, names):
    # quantified variables: (id, type id); variables of non-user type get the id of their type object all the same
    return glist([gpair(gn(names.var(v)), gn(names.ty(v.type))) for v in vs])


def cls(t):
    if t.is_bool_type():
        return "CBool"
    if t.is_int_type():
        return "CInt"
    if t.is_real_type():
        return "CReal"
    if t.is_user_type():
        return "CUser"
    return "CReal"          # time type (scheduling only, reduced descriptions)


class Ser:
    def __init__(self, problem, linear=True):
        import unified_planning as up
        from unified_planning.model import Problem
        from unified_planning.model.htn import HierarchicalProblem
        from unified_planning.model.contingent import ContingentProblem
        from unified_planning.model.scheduling import SchedulingProblem
        from unified_planning.model.multi_agent import MultiAgentProblem
        self.up = up
        self.p = problem
        self.names = Names()
        self.extra = []
        self.klass = type(problem).__name__
        self.full = type(problem) is Problem
        self.lenient = not self.full
        self.lin = None
        self.simp = None
        if isinstance(problem, Problem):
            try:
                if linear:
                    self.lin = up.model.walkers.linear_checker.LinearChecker(problem, problem.environment)
                self.simp = up.model.walkers.simplifier.Simplifier(problem.environment, problem)
            except Exception:
                if self.full:
                    raise
        self.stats = {"conditions": 0, "effects": 0}

    # ---------------------------------------------------------------- pieces
    def ty(self, t):
        if t.is_bool_type():
            return "TBool"
        if t.is_int_type():
            return "(TInt %s %s)" % (gbool(t.lower_bound is not None), gbool(t.upper_bound is not None))
        if t.is_real_type():
            return "(TReal %s %s)" % (gbool(t.lower_bound is not None), gbool(t.upper_bound is not None))
        if t.is_user_type():
            return "(TUser %s %s)" % (gn(self.names.ty(t)), gbool(t.father is not None))
        if self.lenient:
            return "TBool"
        raise ValueError("type outside the model: %s" % t)

    def e(self, x):
        return ser_expr(x, self.names, self.lenient)

    def cexpr(self, x):
        self.stats["conditions"] += 1
        lin = True
        if self.lin is not None:
            try:
                lin = bool(self.lin.get_fluents(x)[0])
            except Exception:
                if self.full:
                    raise
        return "{| ce := %s; ce_lin := %s |}" % (self.e(x), gbool(lin))

    def dexpr(self, x):
        return "{| de := %s; de_cls := %s |}" % (self.e(x), cls(x.type))

    def eff(self, e):
        from unified_planning.model.effect import EffectKind
        self.stats["effects"] += 1
        kind = {EffectKind.ASSIGN: "KAssign", EffectKind.INCREASE: "KInc", EffectKind.DECREASE: "KDec",
                EffectKind.CONTINUOUS_INCREASE: "KCInc", EffectKind.CONTINUOUS_DECREASE: "KCDec"}[e.kind]
        fl = e.fluent
        if fl.is_dot():
            fl = fl.arg(0)
        rhs = []
        if kind in ("KCInc", "KCDec") and self.simp is not None:
            rhs = [self.e(v) for v in sorted(self.p.environment.free_vars_extractor.get(self.simp.simplify(e.value)), key=str)]
        return ("{| ef_fl := %s; ef_args := %s; ef_val := %s; ef_vcls := %s; ef_tcls := %s; ef_cond := %s; ef_kind := %s; "
                "ef_forall := %s; ef_rhs := %s |}" % (
                    gn(self.names.fl(fl.fluent())), glist([self.e(a) for a in fl.args]), self.e(e.value), cls(e.value.type),
                    cls(fl.type), self.cexpr(e.condition), kind,
                    glist([gpair(gn(self.names.var(v)), self.ty(v.type)) for v in e.forall]), glist(rhs)))

    def tm(self, t):
        d = t.delay
        sgn = 0
        if not isinstance(d, (int, Fraction)):
            d = Fraction(str(d)) if not hasattr(d, "constant_value") else d.constant_value()
        if d > 0:
            sgn = 1
        elif d < 0:
            sgn = -1
        return "{| tm_end := %s; tm_sgn := %s |}" % (gbool(t.is_from_end()), gz(sgn))

    def interval(self, i):
        return gpair(self.tm(i.lower), self.tm(i.upper))

    def sim_fluents(self, se):
        return glist([gn(self.names.fl(f.fluent())) for f in se.fluents])

    def iaction(self, a, sensing=False):
        sim = getattr(a, "simulated_effect", None)
        motion = len(getattr(a, "motion_constraints", [])) > 0
        return ("{| ia_params := %s; ia_pre := %s; ia_effs := %s; ia_sim := %s; ia_sensing := %s; ia_motion := %s |}" % (
            glist([self.ty(pp.type) for pp in a.parameters]), glist([self.cexpr(c) for c in a.preconditions]),
            glist([self.eff(e) for e in a.effects]), gopt(None if sim is None else self.sim_fluents(sim)), gbool(sensing),
            gbool(motion)))

    def daction(self, a):
        conds = [gpair(self.interval(i), self.cexpr(c)) for i, cl in a.conditions.items() for c in cl]
        effs = [gpair(self.tm(t), self.eff(e)) for t, el in a.effects.items() for e in el]
        ceffs = [gpair(self.interval(i), self.eff(e)) for i, el in getattr(a, "continuous_effects", {}).items() for e in el]
        sims = [self.sim_fluents(se) for se in getattr(a, "simulated_effects", {}).values()]
        return ("{| da_params := %s; da_lo := %s; da_hi := %s; da_conds := %s; da_effs := %s; da_ceffs := %s; da_sims := %s; da_motion := %s |}" % (
            glist([self.ty(pp.type) for pp in a.parameters]), self.dexpr(a.duration.lower), self.dexpr(a.duration.upper),
            glist(conds), glist(effs), glist(ceffs), glist(sims), gbool(len(getattr(a, "motion_constraints", [])) > 0)))

    def action(self, a):
        up = self.up
        if isinstance(a, up.model.action.InstantaneousAction):
            return "(AInst %s)" % self.iaction(a, isinstance(a, up.model.contingent.SensingAction))
        if isinstance(a, up.model.action.DurativeAction):
            return "(ADur %s)" % self.daction(a)
        raise ValueError("action class outside the model: %s" % type(a))

    def process(self, pr):
        return "{| pr_params := %s; pr_pre := %s; pr_effs := %s |}" % (
            glist([self.ty(pp.type) for pp in pr.parameters]), glist([self.cexpr(c) for c in pr.preconditions]),
            glist([self.eff(e) for e in pr.effects]))

    def metric(self, m):
        def gains(vals):
            return glist([gbool(isinstance(v, int)) for v in vals])
        if m.is_minimize_expression_on_final_state():
            return "(MFinalMin %s)" % self.cexpr(m.expression)
        if m.is_maximize_expression_on_final_state():
            return "(MFinalMax %s)" % self.cexpr(m.expression)
        if m.is_minimize_action_costs():
            costs = list(m.costs.values())
            if m.default is not None:
                costs.append(m.default)
            return "(MCosts %s)" % glist([gpair(self.cexpr(c), cls(c.type)) for c in costs if c is not None])
        if m.is_minimize_makespan():
            return "MMakespan"
        if m.is_minimize_sequential_plan_length():
            return "MLength"
        if m.is_oversubscription():
            return "(MOversub %s %s)" % (glist([self.cexpr(g) for g in m.goals.keys()]), gains(m.goals.values()))
        if m.is_temporal_oversubscription():
            return "(MTOversub %s %s)" % (glist([self.cexpr(g) for _, g in m.goals.keys()]), gains(m.goals.values()))
        raise ValueError("metric outside the model: %s" % m)

    # ---------------------------------------------------------------- initial values (independent bookkeeping)
    def domain(self, objects, t):
        """number of values of a parameter type, counted from the object list (None = not groundable)"""
        if t.is_bool_type():
            return 2
        if t.is_user_type():
            n = 0
            for o in objects:
                x = o.type
                while x is not None:
                    if x == t:
                        n += 1
                        break
                    x = x.father
            return n
        if t.is_int_type() and t.lower_bound is not None and t.upper_bound is not None:
            return t.upper_bound - t.lower_bound + 1
        return None

    def fdecl(self, f, objects, explicit, defaults):
        size = 1
        for pp in f.signature:
            d = self.domain(objects, pp.type)
            size *= (d if d is not None else 0)
        keys = set(k for k in explicit if (k.arg(0) if k.is_dot() else k).fluent() == f)
        inits = len(keys)
        # state variables without explicit value: enumerate when small, else count the distinct explicit ones
        missing = max(size - len(keys), 0)
        if 0 < size <= 4096 and not self.lenient:
            from unified_planning.model.fluent import get_all_fluent_exp
            missing = sum(1 for fe in get_all_fluent_exp(self.p, f) if fe not in explicit)
        return ("{| fd_id := %s; fd_ty := %s; fd_sig := %s; fd_default := %s; fd_inits := %s; fd_size := %s; fd_missing := %s |}" % (
            gn(self.names.fl(f)), self.ty(f.type), glist([self.ty(pp.type) for pp in f.signature]),
            gbool(f in defaults), gn(inits), gn(size), gn(missing)))

    # ---------------------------------------------------------------- whole problems
    def render(self):
        k = self.klass
        if k in ("Problem", "ContingentProblem", "HierarchicalProblem"):
            return self.render_problem()
        if k == "SchedulingProblem":
            return self.render_scheduling()
        if k == "MultiAgentProblem":
            return self.render_ma()
        raise ValueError("problem class outside the check: %s" % k)

    def record(self, fluents, objtys, actions, events, processes, teffs, tgoals, goals, traj, metrics, discrete, selfov):
        return ("{| p_fluents := %s; p_objtys := %s; p_actions := %s; p_events := %s; p_processes := %s; p_teffs := %s; "
                "p_tgoals := %s; p_goals := %s; p_traj := %s; p_metrics := %s; p_discrete := %s; p_selfoverlap := %s |}" % (
                    glist(fluents), glist(objtys), glist(actions), glist(events), glist(processes), glist(teffs), glist(tgoals),
                    glist(goals), glist(traj), glist(metrics), gbool(discrete), gbool(selfov)))

    def render_problem(self):
        p = self.p
        objects = list(p.all_objects)
        explicit = p.explicit_initial_values
        defaults = p.fluents_defaults
        fluents = [self.fdecl(f, objects, explicit, defaults) for f in p.fluents]
        objtys = [self.ty(o.type) for o in objects]
        actions = [self.action(a) for a in p.actions]
        events = [self.iaction(ev) for ev in p.events]
        processes = [self.process(pr) for pr in p.processes]
        teffs = [gpair(self.tm(t), glist([self.eff(e) for e in el])) for t, el in p.timed_effects.items()]
        tgoals = [gpair(self.interval(i), glist([self.cexpr(g) for g in gl])) for i, gl in p.timed_goals.items()]
        goals = [self.cexpr(g) for g in p.goals]
        traj = [self.cexpr(c) for c in p.trajectory_constraints]
        metrics = [self.metric(m) for m in p.quality_metrics]
        if self.klass == "ContingentProblem":
            self.extra.append("CONTINGENT")
        if self.klass == "HierarchicalProblem":
            self.extra.append("HIERARCHICAL")
            tns = [p.task_network] + list(p.methods)
            if len(p.task_network.variables) > 0:
                self.extra.append("INITIAL_TASK_NETWORK_VARIABLES")
            for m in p.methods:
                if m.preconditions:
                    self.extra.append("METHOD_PRECONDITIONS")
                goals += [self.cexpr(c) for c in m.preconditions]
            for tn in tns:
                nt = tn.non_temporal_constraints()
                if nt:
                    self.extra.append("TASK_NETWORK_CONSTRAINTS")
                goals += [self.cexpr(c) for c in nt]
        return self.record(fluents, objtys, actions, events, processes, teffs, tgoals, goals, traj, metrics,
                           p.discrete_time, p.self_overlapping)

    def render_scheduling(self):
        p = self.p
        self.extra.append("SCHEDULING")
        objects = list(p.all_objects)
        fluents = [self.fdecl(f, objects, p.explicit_initial_values, p.fluents_defaults) for f in p.fluents]
        objtys = [self.ty(o.type) for o in objects]
        actions = []
        goals = []
        for act in p.activities:
            if act.optional:
                self.extra.append("OPTIONAL_ACTIVITIES")
            actions.append("(ADur %s)" % self.daction(act))
            for c, scope in act.scoped_constraints:
                goals.append(self.cexpr(c))
                if len(scope) > 0:
                    self.extra.append("SCOPED_CONSTRAINTS")
        for c, scope in p.base_scoped_constraints:
            goals.append(self.cexpr(c))
            if len(scope) > 0:
                self.extra.append("SCOPED_CONSTRAINTS")
        tgoals = [gpair(self.interval(i), glist([self.cexpr(c)])) for i, c in p.base_conditions]
        teffs = [gpair(self.tm(t), glist([self.eff(e)])) for t, e in p.base_effects]
        metrics = [self.metric(m) for m in p.quality_metrics]
        return self.record(fluents, objtys, actions, [], [], teffs, tgoals, goals, [], metrics, p.discrete_time,
                           p.self_overlapping)

    def render_ma(self):
        p = self.p
        self.extra.append("ACTION_BASED_MULTI_AGENT")
        objects = list(p.all_objects)
        explicit = p.explicit_initial_values
        fluents, actions, goals = [], [], []
        for ag in p.agents:
            for f in ag.fluents:
                fluents.append(self.fdecl(f, objects, explicit, ag.fluents_defaults))
            for a in ag.actions:
                actions.append(self.action(a))
            if ag.public_goals:
                self.extra.append("AGENT_SPECIFIC_PUBLIC_GOAL")
            if ag.private_goals:
                self.extra.append("AGENT_SPECIFIC_PRIVATE_GOAL")
            goals += [self.cexpr(g) for g in list(ag.public_goals) + list(ag.private_goals)]
        for f in p.ma_environment.fluents:
            fluents.append(self.fdecl(f, objects, explicit, p.ma_environment.fluents_defaults))
        goals += [self.cexpr(g) for g in p.goals]
        objtys = [self.ty(o.type) for o in objects]
        return self.record(fluents, objtys, actions, [], [], [], [], goals, [], [], False, False)
