"""C08 — Compilers succeed and produce well-formed results inside their supported kind.

Theorems: coq/theories/Props/C08.v (Model/FreshNames.v).  Ties:
 * correspondence of utils.get_fresh_name (incl. used_names) and of the grounder's naming of ground actions with the
   Gallina model, on adversarial identifier sets;
 * validation: every compiler named in C06 (+ pipelines) is run on generated problems inside its supported kind whose
   identifiers contain underscores, digits, mixed case, prefixes of one another and a_b / b_c style collisions; the
   outcome must be a result (or a documented rejection) whose problem passes the Coq checker `wf_np` (unique names;
   every referenced fluent / object / type / parameter / action declared), with a usable plan back-conversion and a
   map-back table into the original problem's ground instances.
"""
import json

from harness import compcheck as cc
from harness.core import gstr, glist, gpair, gopt, gnat

META = {
    "level": "proof",
    "technique": "Coq proofs about the naming model (fresh names are new and pairwise distinct, the counter loop terminates, ground-action names are injective after the repair, CompilerResult derives a back-conversion; the well-formedness checker is proved to decide its specification) + model/implementation correspondence of get_fresh_name and grounder naming + the checker applied by vm_compute to every problem the real compilers produce (translation validation for 'compile succeeds and is well formed')",
    "text": "fresh_names_nodup, get_fresh_name_total, ground_names_injective (repaired scheme; the plain '_'-join is shown non-injective with move(a_b,c)/move(a,b_c)), compiler_result_has_back_conversion, wf_np_spec; the compile-succeeds / well-formed part is validated on sampled problems per compiler.",
    "note": "The universally quantified part covers naming and the checker; 'every compiler succeeds on every problem of its supported kind' is sampled (validated), not proved. Documented rejections are whitelisted by exception type + message (compcheck.DOCUMENTED_REJECTIONS). Names are ASCII strings. No axioms.",
}

IMPORTS = ["UPV.Model.FreshNames", "UPV.Corr.Corr_C08"]


# ---------------------------------------------------------------------------------------------- nproblem extraction
def tname(t):
    return t.name if t.is_user_type() else ""


class Refs:
    def __init__(self, problem):
        self.problem = problem
        self.fl, self.ob, self.ty, self.pa = [], [], [], []

    def expr(self, e):
        stack, seen = [e], set()
        while stack:
            x = stack.pop()
            if x in seen:
                continue
            seen.add(x)
            stack.extend(x.args)
            if x.is_fluent_exp():
                f = x.fluent()
                name = f.name
                if not (self.problem.has_fluent(name) and self.problem.fluent(name) == f):
                    name += "!stale" if self.problem.has_fluent(name) else ""
                self.fl.append((name, len(x.args)))
            elif x.is_object_exp():
                o = x.object()
                name = o.name
                if self.problem.has_object(name) and self.problem.object(name) != o:
                    name += "!stale"
                self.ob.append(name)
            elif x.is_variable_exp():
                self.ty.append(tname(x.variable().type))
            elif x.is_exists() or x.is_forall():
                self.ty += [tname(v.type) for v in x.variables()]
            elif x.is_parameter_exp():
                self.pa.append(x.parameter().name)

    def effect(self, e):
        self.expr(e.fluent); self.expr(e.value); self.expr(e.condition)
        self.ty += [tname(v.type) for v in e.forall]

    def render(self):
        def uniq(l):
            return list(dict.fromkeys(l))
        return "{| rf_fluents := %s; rf_objects := %s; rf_types := %s; rf_params := %s |}" % (
            glist([gpair(gstr(n), gnat(k)) for n, k in uniq(self.fl)]), glist([gstr(x) for x in uniq(self.ob)]),
            glist([gstr(x) for x in uniq(self.ty)]), glist([gstr(x) for x in uniq(self.pa)]))

    def as_json(self):
        return {"fluents": sorted(set(self.fl)), "objects": sorted(set(self.ob)), "types": sorted(set(self.ty)), "params": sorted(set(self.pa))}


def nproblem(p):
    """(Gallina nproblem, python summary used by the independent oracle)"""
    types = [(t.name, t.father.name if t.father is not None else "") for t in p.user_types]
    objects = [(o.name, tname(o.type)) for o in p.all_objects]
    fluents = [(f.name, [(pp.name, tname(pp.type)) for pp in f.signature]) for f in p.fluents]
    acts, acts_json = [], []
    for a in p.actions:
        r = Refs(p)
        if hasattr(a, "preconditions"):
            for c in a.preconditions:
                r.expr(c)
            for e in a.effects:
                r.effect(e)
        else:                                   # DurativeAction
            r.expr(a.duration.lower); r.expr(a.duration.upper)
            for cl in a.conditions.values():
                for c in cl:
                    r.expr(c)
            for el in a.effects.values():
                for e in el:
                    r.effect(e)
        params = [(pp.name, tname(pp.type)) for pp in a.parameters]
        acts.append("{| na_name := %s; na_params := %s; na_refs := %s |}" % (
            gstr(a.name), glist([gpair(gstr(n), gstr(t)) for n, t in params]), r.render()))
        acts_json.append({"name": a.name, "params": params, "refs": r.as_json()})
    top = Refs(p)
    for g in p.goals:
        top.expr(g)
    for tc in p.trajectory_constraints:
        top.expr(tc)
    for k, v in p.explicit_initial_values.items():
        top.expr(k); top.expr(v)
    aref = []
    for m in p.quality_metrics:
        if m.is_minimize_action_costs():
            for a, c in m.costs.items():
                aref.append(a.name if (p.has_action(a.name) and p.action(a.name) == a) else a.name + "!stale")
                # cost expressions may mention the action's parameters: checked with the action
            if m.default is not None:
                top.expr(m.default)
        elif m.is_minimize_expression_on_final_state() or m.is_maximize_expression_on_final_state():
            top.expr(m.expression)
        elif m.is_oversubscription():
            for g in m.goals:
                top.expr(g)
    term = "{| np_types := %s; np_objects := %s; np_fluents := %s; np_actions := %s; np_refs := %s; np_action_refs := %s |}" % (
        glist([gpair(gstr(a), gstr(b)) for a, b in types]), glist([gpair(gstr(a), gstr(b)) for a, b in objects]),
        glist([gpair(gstr(n), glist([gpair(gstr(pn), gstr(t)) for pn, t in sig])) for n, sig in fluents]), glist(acts), top.render(),
        glist([gstr(x) for x in aref]))
    summ = {"types": types, "objects": objects, "fluents": fluents, "actions": acts_json, "top": top.as_json(), "action_refs": aref}
    return term, summ


def py_wf(summ):
    """the property's well-formedness clauses, written directly (independent oracle): list of violations"""
    bad = []
    tn = [t for t, _ in summ["types"]]
    names = tn + [o for o, _ in summ["objects"]] + [f for f, _ in summ["fluents"]] + [a["name"] for a in summ["actions"]]
    dup = sorted(set(n for n in names if names.count(n) > 1))
    if dup:
        bad.append("duplicate names %s" % dup)
    tset = set(tn) | {""}
    bad += ["undeclared father type %s" % f for _, f in summ["types"] if f not in tset]
    bad += ["object %s of undeclared type %s" % (o, t) for o, t in summ["objects"] if t == "" or t not in tset]
    bad += ["fluent %s uses undeclared type" % f for f, sig in summ["fluents"] if any(t not in tset for _, t in sig)]
    bad += ["fluent %s: duplicate parameter names %s" % (f, [n for n, _ in sig]) for f, sig in summ["fluents"]
            if len(set(n for n, _ in sig)) != len(sig)]
    fl = set((f, len(sig)) for f, sig in summ["fluents"])
    ob = set(o for o, _ in summ["objects"])

    def refs(r, params, where):
        out = []
        out += ["%s: fluent %s/%d not declared" % (where, f, k) for f, k in r["fluents"] if (f, k) not in fl]
        out += ["%s: object %s not declared" % (where, o) for o in r["objects"] if o not in ob]
        out += ["%s: type %s not declared" % (where, t) for t in r["types"] if t not in tset]
        out += ["%s: parameter %s not declared" % (where, x) for x in r["params"] if x not in params]
        return out

    for a in summ["actions"]:
        ps = [n for n, _ in a["params"]]
        if len(set(ps)) != len(ps):
            bad.append("action %s: duplicate parameters" % a["name"])
        bad += ["action %s: parameter of undeclared type" % a["name"] for _, t in a["params"] if t not in tset]
        bad += refs(a["refs"], ps, "action " + a["name"])
    bad += refs(summ["top"], [], "goals/constraints/initial values/metrics")
    an = set(a["name"] for a in summ["actions"])
    bad += ["metric refers to undeclared action %s" % x for x in summ["action_refs"] if x not in an]
    return bad


# ---------------------------------------------------------------------------------------------- naming correspondences
class DuckProblem:
    def __init__(self, names):
        self.names = set(names)

    def has_name(self, n):
        return n in self.names


def fresh_cases(rng, n):
    from unified_planning.engines.compilers.utils import get_fresh_name
    pool = cc.ADVERSARIAL_OBJ + cc.ADVERSARIAL_ACT + ["x", "x_0", "x_1", "x_2", "x_0_0", "move_a_b_c", "move_a_b_c_0", "move_a_b", "c"]
    out, raw = [], []
    for _ in range(n):
        orig = rng.choice(pool)
        params = [rng.choice(pool) for _ in range(rng.randint(0, 3))]
        trailing = rng.choice([None, None, "", "start", "0", "a_b"])
        base = "_".join([orig] + params + ([trailing] if trailing else []))
        names = set(rng.sample(pool, rng.randint(0, 8)))
        used = set(rng.sample(pool, rng.randint(0, 3))) if rng.random() < 0.5 else None
        r = rng.random()
        if r < 0.6:
            names.add(base)
            for i in range(rng.randint(0, 4)):
                (names if used is None or rng.random() < 0.5 else used).add("%s_%d" % (base, i))
        obs = get_fresh_name(DuckProblem(names), orig, params, trailing, used_names=used)
        allused = sorted(names | (used or set()))
        out.append("{| fc_used := %s; fc_orig := %s; fc_params := %s; fc_trailing := %s; fc_obs := %s |}" % (
            glist([gstr(x) for x in allused]), gstr(orig), glist([gstr(x) for x in params]),
            gopt(None if trailing is None else gstr(trailing)), gstr(obs)))
        raw.append({"names": sorted(names), "used_names": None if used is None else sorted(used), "orig": orig, "params": params,
                    "trailing": trailing, "observed": obs, "fresh": obs not in names and (used is None or obs not in used)})
    return out, raw


def all_names(p):
    return [t.name for t in p.user_types] + [f.name for f in p.fluents] + [o.name for o in p.all_objects] + [a.name for a in p.actions]


def ground_case(problem):
    from unified_planning.engines.compilers.grounder import GrounderHelper
    items, obs = [], []
    for old, params, new in GrounderHelper(problem).get_grounded_actions():
        items.append((old.name, [str(x) for x in params]))
        obs.append(None if new is None else new.name)
    term = "{| gc_pnames := %s; gc_items := %s; gc_obs := %s |}" % (
        glist([gstr(x) for x in all_names(problem)]),
        glist([gpair(gstr(a), glist([gstr(x) for x in ps])) for a, ps in items]),
        glist([gopt(None if o is None else gstr(o)) for o in obs]))
    return term, {"items": items, "observed": obs}


def run(ctx):
    import unified_planning as up
    ok_proofs = ctx.check_props(extra=["theories/Corr/Corr_C08.v"])
    rng = ctx.rng
    per = 24 if ctx.quick else 150
    stats = {"outcomes": {}, "documented_rejections": {}, "wf_checked": 0, "fresh_cases": 0, "ground_cases": 0,
             "ground_names_with_counter": 0, "back_conversion_checked": 0, "adversarial_problems": 0}
    # ---- 1. get_fresh_name
    fterms, fraw = fresh_cases(rng, 250 if ctx.quick else 4000)
    stats["fresh_cases"] = len(fterms)
    for i in ctx.coq_failing(fterms, "ok_fresh", imports=IMPORTS):
        ctx.fail("corr", "get_fresh_name differs from the model (corr:C08:get_fresh_name)", ["c08", "get-fresh-name"],
                 fraw[i], not fraw[i]["fresh"])
    for r in fraw:
        if not r["fresh"]:
            ctx.fail("oracle", "get_fresh_name returned a name that is already used", ["c08", "get-fresh-name", "not-fresh"], r, True)
    # ---- 2. compilers on adversarially named problems
    cases, gstats = cc.build_cases(ctx, per, 60, adversarial=0.85)
    nontrivial = set()
    wterms, wowners = [], []
    gterms, graw = [], []
    for c in cases:
        tags = sorted(set(["c08", c.spec["id"]] + c.spec["members"]))
        key = "ok"
        if c.raised is not None:
            if cc.documented_rejection(c.raised):
                key = "documented-rejection"
                k2 = "%s: %s" % (c.spec["id"], str(c.raised)[:50])
                stats["documented_rejections"][k2] = stats["documented_rejections"].get(k2, 0) + 1
            else:
                key = "raised:" + type(c.raised).__name__
                ctx.fail("oracle", "%s.compile raised %s: %s on a problem of its supported kind" % (
                    c.spec["id"], type(c.raised).__name__, str(c.raised)[:200]),
                    tags + ["compile-raises", type(c.raised).__name__] + cc.shape_tags(c.problem), cc.case_json(c), True)
        elif c.skip and c.skip.startswith("comp-error"):
            key = "compiled-problem-unusable"
            ctx.fail("oracle", "%s: the compiled problem cannot be inspected (%s)" % (c.spec["id"], c.skip), tags + ["ill-formed"],
                     cc.case_json(c), True)
        elif c.skip and c.skip != "too-many-instances":
            key = "skipped:" + c.skip.split(":")[0]
        stats["outcomes"][key] = stats["outcomes"].get(key, 0) + 1
        if c.result is None or c.result.problem is None:
            continue
        nontrivial.add(c.idx)
        term, summ = nproblem(c.result.problem)
        wterms.append(term)
        wowners.append((c, summ, tags))
        # back conversion available and usable
        res = c.result
        stats["back_conversion_checked"] += 1
        if res.plan_back_conversion is None:
            ctx.fail("oracle", "%s: plan_back_conversion is None" % c.spec["id"], tags + ["plan-back-conversion"], cc.case_json(c), True)
        elif c.comp is not None and c.comp.insts:
            j = rng.randrange(len(c.comp.insts))
            try:
                res.plan_back_conversion(c.comp.plan_obj([j]))
            except Exception as e:  # noqa
                ctx.fail("oracle", "%s: plan_back_conversion raised %s: %s" % (c.spec["id"], type(e).__name__, str(e)[:120]),
                         tags + ["plan-back-conversion"], dict(cc.case_json(c), compiled_instance=c.comp.plan_json([j])), True)
        for j, msg in c.back_errors[:1]:
            ctx.fail("oracle", "%s: map_back_action_instance: %s" % (c.spec["id"], msg), tags + ["map-back"],
                     dict(cc.case_json(c), compiled_instance=c.comp.plan_json([j])), True)
    # ---- 2b. temporal problems (durative actions) with colliding identifiers: compiled, checked for names / wf only
    from unified_planning.engines.compilers import Grounder, ConditionalEffectsRemover, NegativeConditionsRemover
    tcompilers = [("grounder", Grounder), ("conditional-effects-remover", ConditionalEffectsRemover),
                  ("negative-conditions-remover", NegativeConditionsRemover)]
    temporal = cc.temporal_family(rng, 8 if ctx.quick else 60)
    stats["temporal_cases"] = 0
    for g in temporal:
        for cid, mk in tcompilers:
            if not mk().supports(g.problem.kind):
                continue
            stats["temporal_cases"] += 1
            tags = ["c08", cid, "durative-actions"]
            payload = {"compiler": cid, "label": g.label, "problem_text": str(g.problem)}
            try:
                res = mk().compile(g.problem)
            except Exception as e:  # noqa
                if not cc.documented_rejection(e):
                    ctx.fail("oracle", "%s.compile raised %s: %s on a temporal problem of its supported kind" % (
                        cid, type(e).__name__, str(e)[:200]), tags + ["compile-raises", type(e).__name__], payload, True)
                continue
            term, summ = nproblem(res.problem)
            wterms.append(term)
            wowners.append((cc.Case(-1, {"id": cid, "members": [cid]}, g), summ, tags))
            wowners[-1][0].comp = type("X", (), {"problem": res.problem})()
            if res.plan_back_conversion is None:
                ctx.fail("oracle", "%s: plan_back_conversion is None" % cid, tags + ["plan-back-conversion"], payload, True)
        try:
            t, raw = ground_case(g.problem)
            gterms.append(t)
            graw.append(dict(raw, problem_text=str(g.problem)))
            names = [o for o in raw["observed"] if o is not None]
            if len(set(names)) != len(names):
                ctx.fail("oracle", "two ground (durative) actions share a name", ["c08", "grounder", "name-clash", "durative-actions"], graw[-1], True)
        except Exception as e:  # noqa
            ctx.fail("oracle", "GrounderHelper raised %s: %s on a temporal problem" % (type(e).__name__, str(e)[:150]),
                     ["c08", "grounder", "compile-raises", "durative-actions"], {"problem_text": str(g.problem)}, True)
    # ---- 3. grounder naming on the same original problems (those whose actions have user-typed / small parameters)
    for c in cases:
        if "grounder" in c.spec["members"] and c.spec["members"][0] == "grounder" and c.raised is None:
            try:
                t, raw = ground_case(c.problem)
            except Exception as e:  # noqa
                ctx.fail("oracle", "GrounderHelper raised %s: %s" % (type(e).__name__, str(e)[:150]), ["c08", "grounder", "compile-raises"],
                         cc.case_json(c), True)
                continue
            gterms.append(t)
            graw.append(dict(raw, problem_text=str(c.problem)))
            names = [o for o in raw["observed"] if o is not None]
            if len(set(names)) != len(names):
                ctx.fail("oracle", "two ground actions share a name", ["c08", "grounder", "name-clash"], graw[-1], True)
            stats["ground_names_with_counter"] += sum(1 for (a, ps), o in zip(raw["items"], raw["observed"])
                                                      if o is not None and o != "_".join([a] + ps))
    stats["ground_cases"] = len(gterms)
    for i in ctx.coq_failing(gterms, "ok_ground", imports=IMPORTS, shard=40):
        ctx.fail("corr", "grounder naming differs from the model (corr:C08:ground_all)", ["c08", "grounder", "naming-model"], graw[i], False)
    # ---- 4. well-formedness of every compiled problem
    codes = ctx.coq_codes(wterms, "wf_code", imports=IMPORTS, shard=60, label="wf")
    stats["wf_checked"] = len(wterms)
    for (c, summ, tags), code in zip(wowners, codes):
        bad = py_wf(summ)
        if code != 0 or bad:
            ctx.fail("oracle" if bad else "corr",
                     "%s: compiled problem is not well formed (wf_code %d): %s" % (c.spec["id"], code, "; ".join(bad[:4])),
                     tags + ["ill-formed"] + (["checker-oracle-disagree"] if bool(bad) != (code != 0) else []),
                     dict(cc.case_json(c), wf_code=code, violations=bad), bool(bad))
    if not ok_proofs:
        ctx.proof_broken()
    dist = cc.distribution(cases)
    dist.update(gstats)
    dist.update(stats)
    ctx.finish({
        "evaluations": len(fterms) + len(gterms) + len(wterms),
        "distinct_nontrivial": len(nontrivial) + len(set(json.dumps(r, sort_keys=True) for r in fraw if r["observed"] != "_".join([r["orig"]] + r["params"] + ([r["trailing"]] if r["trailing"] else [])))),
        "rule": "get_fresh_name cases (non-trivial: the plain join was taken, so the counter loop ran) + one case per (compiler, generated problem) whose compile returned a problem (checked by wf_np, back-conversion, map-back table) + grounder naming cases; identifiers from an adversarial pool (underscores, digits, mixed case, prefixes, a_b/b_c collisions)",
        "samples": fraw[:2] + [dict(compiler=c.spec["id"], outcome="ok", compiled_names=all_names(c.result.problem)[:12]) for c, _, _ in wowners[:2]],
        "distribution": dist,
        "exhaustive": False,
    }, "proof", assumptions=["compile-succeeds / well-formedness is validated on sampled problems per compiler (not proved for all problems)",
                             "documented rejections are recognised by exception type and message"])
