"""C12 — NNF and DNF conversions are equivalent and in normal form.

Theorems: coq/theories/Props/C12.v (about coq/theories/Walkers/NnfDnf.v, proofs in Proofs/NnfDnf_proofs.v).
Tie: correspondence — every Boolean expression up to size 5 over atom triples that include constant-only atoms
(1<=2, 3<2, o1==o2), Boolean fluents, numeric comparisons and equalities (exhaustive), plus random expressions with
Implies/Iff (size <= 9 quick, <= 12 thorough), all built with the real ExpressionManager; Nnf/Dnf of the
implementation are compared structurally with the Gallina model inside Coq, and the property oracle (truth table
over all assignments of the fluents, normal-form shapes) is evaluated inside Coq on the IMPLEMENTATION's output.
"""
import itertools

from harness.core import glist
from harness.ser import Names, ser_expr, ser_finterp

META = {
    "level": "proof",
    "technique": "Coq proof (structural induction over all expressions, all interpretations) + model/implementation "
                 "correspondence and truth-table oracle evaluated by vm_compute",
    "text": "nnf_equiv / nnf_is_nnf / dnf_equiv / dnf_is_dnf / dnf_constant_conjunct proved for every expression and every "
            "interpretation about a Gallina model of Nnf.get_nnf_expression and Dnf (walk_and/walk_or/walk_all incl. the "
            "simplifier's walk_and/walk_not and constant folding of comparisons); the model is tied to dnf.py by exhaustive "
            "small-scope and random differential evaluation inside Coq.",
    "note": "No axioms (Print Assumptions: closed under the global context). Trusted: Coq kernel/vm_compute, harness "
            "serialiser. The simplifier's behaviour inside atoms is a parameter of the model (instance: constant folding of "
            "LE/LT/Equals on constants, x==x); arithmetic folding inside operands, quantifier simplification and the "
            "user-type rule of walk_equals are outside the modelled fragment (C11). Fixed in /repo: 401c179.",
}

IMPORTS = ["UPV.Core.Expr", "UPV.Core.Eval", "UPV.Core.Interp", "UPV.Walkers.NnfDnf", "UPV.Corr.Corr_C12"]


class W:
    """The small world: Boolean fluents a b c, integer fluent x, object fluent g : T, objects o1 o2 : T."""

    def __init__(self):
        from unified_planning.environment import Environment
        from unified_planning.model import Fluent, Object
        self.env = Environment()
        tm = self.env.type_manager
        self.em = em = self.env.expression_manager
        self.T = tm.UserType("T")
        self.o1, self.o2 = Object("o1", self.T, self.env), Object("o2", self.T, self.env)
        B = tm.BoolType()
        self.fa, self.fb, self.fc = (Fluent(n, B, environment=self.env) for n in "abc")
        self.fx = Fluent("x", tm.IntType(), environment=self.env)
        self.fg = Fluent("g", self.T, environment=self.env)
        a, b, c, x, g = (em.FluentExp(f) for f in (self.fa, self.fb, self.fc, self.fx, self.fg))
        o1, o2 = em.ObjectExp(self.o1), em.ObjectExp(self.o2)
        self.atoms = {
            "a": a, "b": b, "c": c,
            "1<=2": em.LE(1, 2), "2<=3": em.LE(2, 3), "3<2": em.LT(3, 2), "2<2": em.LT(2, 2), "2<=2": em.LE(2, 2), "3<=2": em.LE(3, 2), "2<3": em.LT(2, 3),
            "x<=3": em.LE(x, 3), "x<3": em.LT(x, 3), "x==2": em.Equals(x, 2), "2==2": em.Equals(2, 2), "2==3": em.Equals(2, 3),
            "g==o1": em.Equals(g, o1), "o1==o2": em.Equals(o1, o2), "o1==o1": em.Equals(o1, o1), "g==g": em.Equals(g, g),
            "true": em.TRUE(), "false": em.FALSE(),
        }
        self.constant_atoms = {self.atoms[k] for k in ("1<=2", "2<=3", "3<2", "2<2", "2<=2", "3<=2", "2<3", "2==2", "2==3", "o1==o2", "o1==o1", "g==g", "true", "false")}
        self.names = Names()
        for f in (self.fa, self.fb, self.fc, self.fx, self.fg):
            self.names.fl(f)
        self.names.obj(self.o1), self.names.obj(self.o2), self.names.ty(self.T)

    DOMS = None

    def domains(self):
        return [(self.fa, (False, True)), (self.fb, (False, True)), (self.fc, (False, True)),
                (self.fx, (2, 3, 4)), (self.fg, (self.o1, self.o2))]

    def assignments(self, used=None):
        """every assignment of the fluents in `used` (all five when None); the others keep their first value"""
        doms = [(f, d if (used is None or f in used) else d[:1]) for f, d in self.domains()]
        return [dict(zip([f for f, _ in doms], vals)) for vals in itertools.product(*(d for _, d in doms))]

    def table_name(self, used):
        return "Is_" + "".join(f.name for f, _ in self.domains() if f in used) if used else "Is_none"

    def ser_table(self, used):
        res = []
        for asg in self.assignments(used):
            fl = {(f, ()): v for f, v in asg.items()}
            res.append(ser_finterp(fl, {}, {}, {}, {self.T: [self.o1, self.o2]}, self.names))
        return "Definition %s : list finterp := %s.\n" % (self.table_name(used), glist(res))


def fluents_of(e, acc):
    if e.is_fluent_exp():
        acc.add(e.fluent())
    for a in e.args:
        fluents_of(a, acc)


# ---------------------------------------------------------------------- generators
def enum_exprs(em, atoms, maxsize):
    """every expression of size <= maxsize (atoms count 1, every operator 1) over the given atoms, with
    Not, Implies, Iff, And/Or of 2..3 arguments; hash-consing dedupes (e.g. Not(Not(x)) = x)."""
    by = {1: list(dict.fromkeys(atoms))}

    def splits(total, k):
        if k == 1:
            if total >= 1:
                yield (total,)
            return
        for first in range(1, total - k + 2):
            for rest in splits(total - first, k - 1):
                yield (first,) + rest

    for n in range(2, maxsize + 1):
        cur = {}
        for e in by[n - 1]:
            cur[em.Not(e)] = 1
        for k in (2, 3):
            for sp in splits(n - 1, k):
                for combo in itertools.product(*(by[s] for s in sp)):
                    cur[em.And(*combo)] = 1
                    cur[em.Or(*combo)] = 1
                    if k == 2:
                        cur[em.Implies(*combo)] = 1
                        cur[em.Iff(*combo)] = 1
        by[n] = list(cur)
    seen, out = set(), []
    for n in sorted(by):
        for e in by[n]:
            if e not in seen:
                seen.add(e)
                out.append(e)
    return out


def rand_expr(em, rng, pool, budget):
    if budget <= 1:
        return rng.choice(pool)
    r = rng.random()
    if r < 0.18 or budget == 2:
        return em.Not(rand_expr(em, rng, pool, budget - 1))
    rest = budget - 1
    if r < 0.42:
        k = 2
    else:
        k = rng.randint(2, min(4, rest))
    cuts = sorted(rng.sample(range(1, rest), k - 1)) if rest > k - 1 and k > 1 else []
    parts = [b - a for a, b in zip([0] + cuts, cuts + [rest])] if cuts else [rest]
    if len(parts) < 2:
        parts = [1, max(1, rest - 1)]
    kids = [rand_expr(em, rng, pool, p) for p in parts]
    if r < 0.30:
        return em.Implies(kids[0], kids[1])
    if r < 0.42:
        return em.Iff(kids[0], kids[1])
    return em.And(kids) if rng.random() < 0.5 else em.Or(kids)


def bsize(e):
    if e.is_and() or e.is_or() or e.is_not() or e.is_implies() or e.is_iff():
        return 1 + sum(bsize(a) for a in e.args)
    return 1


def ops_of(e, acc):
    for k, t in (("and", e.is_and()), ("or", e.is_or()), ("not", e.is_not()), ("implies", e.is_implies()), ("iff", e.is_iff())):
        if t:
            acc[k] = acc.get(k, 0) + 1
            for a in e.args:
                ops_of(a, acc)
            return
    acc["atom"] = acc.get("atom", 0) + 1


def atoms_of(e, acc):
    if e.is_and() or e.is_or() or e.is_not() or e.is_implies() or e.is_iff():
        for a in e.args:
            atoms_of(a, acc)
    else:
        acc.add(e)


# ---------------------------------------------------------------------- independent oracle (Python, from the property text)
def py_eval(e, asg):
    if e.is_bool_constant():
        return e.bool_constant_value()
    if e.is_int_constant():
        return e.constant_value()
    if e.is_object_exp():
        return e.object()
    if e.is_fluent_exp():
        return asg[e.fluent()]
    if e.is_and():
        return all([py_eval(a, asg) for a in e.args])
    if e.is_or():
        return any([py_eval(a, asg) for a in e.args])
    if e.is_not():
        return not py_eval(e.arg(0), asg)
    if e.is_implies():
        return (not py_eval(e.arg(0), asg)) or py_eval(e.arg(1), asg)
    if e.is_iff():
        return py_eval(e.arg(0), asg) == py_eval(e.arg(1), asg)
    l, r = py_eval(e.arg(0), asg), py_eval(e.arg(1), asg)
    if e.is_le():
        return l <= r
    if e.is_lt():
        return l < r
    if e.is_equals():
        return l == r
    raise ValueError("unexpected node %s" % e)


def py_atomic(e):
    return not (e.is_and() or e.is_or() or e.is_not() or e.is_implies() or e.is_iff())


def py_literal(e):
    return py_atomic(e.arg(0)) if e.is_not() else py_atomic(e)


def py_nnf_shape(e):
    if e.is_and() or e.is_or():
        return all(py_nnf_shape(a) for a in e.args)
    return py_literal(e)


def py_conj_shape(e):
    return all(py_literal(a) for a in e.args) if e.is_and() else py_literal(e)


def py_dnf_shape(e):
    return all(py_conj_shape(a) for a in e.args) if e.is_or() else py_conj_shape(e)


def py_property(w, e, nnf, dnf):
    """list of the property clauses that fail on the implementation's outputs"""
    bad = []
    used = set()
    fluents_of(e, used)
    for asg in w.assignments(used):
        v = py_eval(e, asg)
        if nnf is not None and py_eval(nnf, asg) != v and "nnf-not-equivalent" not in bad:
            bad.append("nnf-not-equivalent")
        if dnf is not None and py_eval(dnf, asg) != v and "dnf-not-equivalent" not in bad:
            bad.append("dnf-not-equivalent")
    if nnf is not None and not py_nnf_shape(nnf):
        bad.append("nnf-not-in-nnf")
    if dnf is not None and not py_dnf_shape(dnf):
        bad.append("dnf-not-in-dnf")
    return bad


# ---------------------------------------------------------------------- the check
def run(ctx):
    # regenerate Gen/Gen_Walkers.v (walker dispatch tables) from $UP_REPO before the theorems are re-checked
    from harness.ext._dispatch_common import prepare as _prepare_dispatch
    _prepare_dispatch(ctx)
    from unified_planning.model.walkers import Dnf, Nnf

    ok_proofs = ctx.check_props(extra=["theories/Corr/Corr_C12.v"])
    w = W()
    em, rng = w.em, ctx.rng
    A = w.atoms

    exprs, origin = [], []
    seen = set()

    def add(e, tag):
        if e not in seen:
            seen.add(e)
            exprs.append(e)
            origin.append(tag)

    # exhaustive small scope: all expressions of size <= 5 over 3 atoms, for two atom triples
    triples = [("a", "1<=2", "3<2"), ("b", "x<=3", "g==o1")]
    for tr in triples:
        for e in enum_exprs(em, [A[k] for k in tr], 5):
            add(e, "exh:" + ",".join(tr))
    n_exh = len(exprs)
    # all expressions of size <= 3 over the whole atom pool (every pair of atoms meets under every connective)
    pool3 = [A[k] for k in ("a", "b", "1<=2", "2<=2", "3<2", "2<2", "x<=3", "x==2", "2==2", "g==o1", "o1==o2", "o1==o1",
                            "g==g", "false")]
    for e in enum_exprs(em, pool3, 3):
        add(e, "exh3:pool")
    n_exh3 = len(exprs) - n_exh
    # random expressions with Implies/Iff
    pool = list(A.values()) + [A["a"], A["b"], A["c"]] * 2
    n_rand = 400 if ctx.quick else 30000
    max_size = 9 if ctx.quick else 12
    tries = 0
    while len(exprs) < n_exh + n_exh3 + n_rand and tries < 20 * n_rand:
        tries += 1
        add(rand_expr(em, rng, pool, rng.randint(4, max_size)), "rand")

    nnf_w, dnf_w = Nnf(w.env), Dnf(w.env)
    cases, raw = [], []
    stats = {"exhaustive_size<=5_over_3_atoms": n_exh, "exhaustive_size<=3_over_pool": n_exh3, "random": 0,
             "size_hist": {}, "ops": {}, "with_constant_atom": 0, "with_implies_or_iff": 0,
             "dnf_is_true": 0, "dnf_is_false": 0, "dnf_changed": 0, "nnf_changed": 0, "max_dnf_disjuncts": 0,
             "impl_exceptions": 0, "truth_table_rows": 0}
    tables = {}
    nontrivial = 0
    for e, org in zip(exprs, origin):
        if org == "rand":
            stats["random"] += 1
        s = bsize(e)
        stats["size_hist"][s] = stats["size_hist"].get(s, 0) + 1
        opc = {}
        ops_of(e, opc)
        for k, v in opc.items():
            stats["ops"][k] = stats["ops"].get(k, 0) + v
        ats = set()
        atoms_of(e, ats)
        has_const = bool(ats & w.constant_atoms)
        stats["with_constant_atom"] += has_const
        stats["with_implies_or_iff"] += ("implies" in opc or "iff" in opc)
        try:
            n = nnf_w.get_nnf_expression(e)
            d = dnf_w.get_dnf_expression(e)
        except Exception as ex:  # the property promises a result for every Boolean expression
            stats["impl_exceptions"] += 1
            ctx.fail("impl-exception", "Nnf/Dnf raised %r on %s" % (ex, e), ["c12", "exception", type(ex).__name__],
                     {"input": str(e), "exception": repr(ex), "theorem_or_corr": "corr:C12:nnf/dnf"}, True)
            continue
        stats["dnf_is_true"] += d.is_true()
        stats["dnf_is_false"] += d.is_false()
        stats["dnf_changed"] += (d is not e)
        stats["nnf_changed"] += (n is not e)
        if d.is_or():
            stats["max_dnf_disjuncts"] = max(stats["max_dnf_disjuncts"], len(d.args))
        if (d is not e) or (n is not e):
            nontrivial += 1
        used = set()
        fluents_of(e, used)
        tables[w.table_name(used)] = frozenset(used)
        stats["truth_table_rows"] += len(w.assignments(used))
        raw.append({"input": str(e), "nnf": str(n), "dnf": str(d), "origin": org, "size": s, "constant_atom": has_const,
                    "_e": e, "_n": n, "_d": d})
        cases.append("{| c_is := %s; c_e := %s; c_nnf := %s; c_dnf := %s |}" % (
            w.table_name(used), ser_expr(e, w.names), ser_expr(n, w.names), ser_expr(d, w.names)))

    preamble = "".join(w.ser_table(u) for _, u in sorted(tables.items()))
    bad = ctx.coq_failing(cases, "ok", imports=IMPORTS, preamble=preamble, shard=1000)
    for i in bad[:40]:
        c = raw[i]
        clauses = py_property(w, c["_e"], c["_n"], c["_d"])
        model = ctx.coq_show("diag c", imports=IMPORTS, preamble=preamble + "Definition c := %s.\n" % cases[i])
        tags = ["c12"] + clauses + (["constant-atom"] if c["constant_atom"] else [])
        what = ("Nnf/Dnf: " + (", ".join(clauses) if clauses else "implementation and model disagree")
                + " on %s (nnf=%s, dnf=%s)" % (c["input"], c["nnf"], c["dnf"]))
        ctx.fail("oracle" if clauses else "corr", what, tags,
                 {"input": c["input"], "impl_nnf": c["nnf"], "impl_dnf": c["dnf"], "failed_clauses": clauses,
                  "coq_diag(corr_nnf,corr_dnf,(defined,nnf_equiv,nnf_shape,dnf_equiv,dnf_shape),model_nnf,model_dnf)": model,
                  "names": w.names.table(), "gallina_case": cases[i],
                  "theorem_or_corr": "corr:C12:nnf/dnf + oracle"}, bool(clauses))
    if not ok_proofs:
        ctx.proof_broken()
    samples = [{k: v for k, v in c.items() if not k.startswith("_")} for c in (raw[:2] + raw[n_exh - 2:n_exh] + raw[-2:])]
    ctx.finish({
        "evaluations": len(cases),
        "distinct_nontrivial": nontrivial,
        "rule": "distinct hash-consed input expressions; non-trivial = the NNF or the DNF differs from the input. "
                "Exhaustive part: every expression of size <= 5 (atoms and connectives count 1; Not/Implies/Iff/And,Or of 2..3 args) "
                "over each atom triple " + "; ".join("{" + ", ".join(t) + "}" for t in triples)
                + ", and every expression of size <= 3 over the pool of %d atoms; random part: size 4..%d." % (len(A), max_size),
        "exhaustive": False,
        "exhaustive_part": {"complete": True, "count": n_exh + n_exh3},
        "samples": samples,
        "distribution": stats,
        "truth_table": "every assignment of the fluents occurring in the input (a,b,c Boolean; x in {2,3,4}; g in {o1,o2})",
        "traces_validated_against_impl": len(cases),
        "trusted_extra": ["the simplifier inside atoms is modelled only for constant comparisons/equalities (see notes/C12.md)"],
    }, "proof", assumptions=[
        "atoms are Boolean constants/fluents and LE/LT/Equals over constants, fluents and objects (operands simplifier-normal)",
        "dnf_equiv is stated for interpretations in which the input expression has a value (strict semantics of Core/Eval.v)"])
