"""C09 — Declared resulting problem kind over-approximates the compiled problem's kind.

Part (i) is a theorem (coq/theories/Props/C09.v, C09_pipeline_accepts over Model/Factory.v and C33's order): a pipeline selected by
the factory accepts every intermediate problem whose actual kind is within the kind declared for its stage.
Part (ii) is VALIDATED: every importable built-in compiler is run by the implementation on every example problem (plus a few
generated ones) of its supported kind; kind(problem), kind(compiled) and resulting_problem_kind(kind(problem)) are serialised as
feature sets and Coq decides (a) that the translated program (Gen_Engines) declares the same kind and (b) kind(compiled) <= declared.
Factory pipelines: for sampled problems, every ordered subset of <= 2 (quick; thorough: <= 3) compilation kinds is requested from
the real Factory and compared with the model's pipeline; built pipelines are run stage by stage on the problem and Coq decides
actual_i <= declared_i and that every stage supports the problem it receives.
The "condition shape" family (harness/c09_shapes.py: one condition of a given shape at a given position, nothing else conditional) is
run on the compilers that build new conditions out of the input's conditions (quick) / on every compiler (thorough).
"""
import itertools
import signal
import time

from harness.core import gn, gnat, glist, gopt, gpair, gstr
from harness.props.c33 import run_translator
from harness.props import c32
from harness import c09_shapes

META = {
    "level": "proof",
    "technique": "Coq proof of part (i) (pipeline_accepts, order-theoretic over the regenerated supported/resulting kinds) + part (ii) "
                 "validated: inclusion kind(compiled) <= declared decided in Coq on the implementation's actual kinds",
    "text": "Level: proof for (i) with (ii) validated. (i) C09_pipeline_accepts / C09_pipeline_accepts_builtin; (ii) every built-in compiler x "
            "example problems within its supported kind, and factory pipelines over ordered subsets of compilation kinds run stage by stage.",
    "note": "Part (ii) is not a theorem (the compilers are not modelled): C09_declared_overapproximates_goal states it, the check validates it. "
            "resulting_problem_kind functions are not monotone in general, so for pipelines of length >= 2 the hypothesis of (i) "
            "(actual_i <= declared_i) is validated stage by stage rather than derived from (ii). Trusted: Coq kernel/vm_compute, "
            "tools/gen_engines.py, tools/gen_kind.py, harness serialiser, Problem.kind (C10) as the measure of a problem's kind. "
            "Fixes in /repo: 09c8885, 7daefcc, 7ebcece (resulting_problem_kind raised AttributeError), 9f79310 (TIMED_GOALS not declared). "
            "Open findings: per (compiler, undeclared feature) in KNOWN_FINDINGS.json.",
}

IMPORTS = ["UPV.Model.Kind", "UPV.Model.Factory", "UPV.Gen.Gen_Kind", "UPV.Gen.Gen_Engines", "UPV.Corr.Corr_C32", "UPV.Corr.Corr_C09"]


class Timeout(Exception):
    pass


def _alarm(*a):
    raise Timeout()


def with_timeout(f, seconds):
    signal.signal(signal.SIGALRM, _alarm)
    signal.setitimer(signal.ITIMER_REAL, seconds)
    try:
        return f()
    finally:
        signal.setitimer(signal.ITIMER_REAL, 0)


def generated_problems():
    """A few simple problems for compilers the examples do not reach (multi-agent removers, KS0)."""
    out = {}
    try:
        from unified_planning.shortcuts import Fluent, InstantaneousAction, Not, Or, And, BoolType, UserType, Object
        from unified_planning.model.multi_agent import MultiAgentProblem, Agent
        for variant in ("disj", "cond", "both"):
            p = MultiAgentProblem("gen_ma_" + variant)
            a1, a2 = Agent("a1", p), Agent("a2", p)
            f, g, h = Fluent("f"), Fluent("g"), Fluent("h")
            for ag in (a1, a2):
                ag.add_fluent(f, default_initial_value=False)
                ag.add_fluent(g, default_initial_value=False)
                ag.add_fluent(h, default_initial_value=True)
                act = InstantaneousAction("act")
                if variant in ("disj", "both"):
                    act.add_precondition(Or(f, h))
                else:
                    act.add_precondition(h)
                if variant in ("cond", "both"):
                    act.add_effect(g, True, condition=h)
                act.add_effect(f, True)
                ag.add_action(act)
                p.add_agent(ag)
            p.add_goal(a1.fluent("f")() if hasattr(a1.fluent("f"), "__call__") else f)
            out[p.name] = p
    except Exception:
        pass
    try:
        # an object fluent used only as an argument: the input kind has OBJECT_FLUENTS but neither EQUALITIES nor quantifiers
        from unified_planning.shortcuts import Fluent, InstantaneousAction, UserType, Object, BoolType, Problem
        Loc = UserType("Loc")
        p = Problem("gen_object_fluent")
        at = Fluent("at", Loc)
        visited = Fluent("visited", BoolType(), l=Loc)
        l1, l2 = Object("l1", Loc), Object("l2", Loc)
        p.add_objects([l1, l2])
        p.add_fluent(at, default_initial_value=l1)
        p.add_fluent(visited, default_initial_value=False)
        mv = InstantaneousAction("mv", to=Loc)
        mv.add_effect(at, mv.parameter("to"))
        mv.add_effect(visited(mv.parameter("to")), True)
        ok = Fluent("ok")
        p.add_fluent(ok, default_initial_value=False)
        mark = InstantaneousAction("mark")
        mark.add_precondition(visited(at))
        mark.add_effect(ok, True)
        p.add_action(mv)
        p.add_action(mark)
        p.add_goal(ok)
        out[p.name] = p
    except Exception:
        pass
    # ---- families that reach each branch of the declared-kind programs
    try:
        from unified_planning.shortcuts import (Fluent, InstantaneousAction, UserType, Object, BoolType, Problem, Equals, Exists, Forall,
                                                Variable, Not, IntType, GlobalStartTiming)
        # (a) an object fluent assigned from a parameter / an object constant / a static fluent / a changing fluent,
        #     with and without an equality elsewhere in the problem
        for src in ("param", "const", "static_fluent", "fluent"):
            for eq_elsewhere in (False, True):
                Loc = UserType("Loc")
                p = Problem("gen_of_%s%s" % (src, "_eq" if eq_elsewhere else ""))
                at, home, prev = Fluent("at", Loc), Fluent("home", Loc), Fluent("prev", Loc)
                visited, ok = Fluent("visited", BoolType(), l=Loc), Fluent("ok")
                l1, l2 = Object("l1", Loc), Object("l2", Loc)
                p.add_objects([l1, l2])
                p.add_fluent(at, default_initial_value=l1)
                p.add_fluent(visited, default_initial_value=False)
                p.add_fluent(ok, default_initial_value=False)
                mv = InstantaneousAction("mv", to=Loc)
                to = mv.parameter("to")
                if src == "param":
                    mv.add_effect(at, to)
                elif src == "const":
                    mv.add_effect(at, l2)
                elif src == "static_fluent":
                    p.add_fluent(home, default_initial_value=l2)
                    mv.add_effect(at, home)
                else:
                    p.add_fluent(prev, default_initial_value=l2)
                    mv.add_effect(at, prev)
                    sw = InstantaneousAction("sw", x=Loc)
                    sw.add_effect(prev, sw.parameter("x"))
                    p.add_action(sw)
                mv.add_effect(visited(to), True)
                if eq_elsewhere:
                    mv.add_precondition(Not(Equals(to, l1)))
                mark = InstantaneousAction("mark")
                mark.add_precondition(visited(at))
                mark.add_effect(ok, True)
                p.add_action(mv)
                p.add_action(mark)
                p.add_goal(ok)
                out[p.name] = p
        # (b) each quantifier kind alone, in a precondition / an effect condition / a goal, no other disjunction
        for quant in ("exists", "forall"):
            for where in ("pre", "effcond", "goal"):
                T = UserType("T")
                p = Problem("gen_q_%s_%s" % (quant, where))
                pr, q = Fluent("pr", BoolType(), x=T), Fluent("q")
                a, b = Object("a", T), Object("b", T)
                p.add_objects([a, b])
                p.add_fluent(pr, default_initial_value=False)
                p.add_fluent(q, default_initial_value=False)
                v = Variable("v", T)
                cond = (Exists if quant == "exists" else Forall)(pr(v), v)
                setp = InstantaneousAction("setp", x=T)
                setp.add_effect(pr(setp.parameter("x")), True)
                p.add_action(setp)
                fin = InstantaneousAction("fin")
                if where == "pre":
                    fin.add_precondition(cond)
                    fin.add_effect(q, True)
                elif where == "effcond":
                    fin.add_effect(q, True, condition=cond)
                else:
                    fin.add_effect(q, True)
                p.add_action(fin)
                p.add_goal(cond if where == "goal" else q)
                out[p.name] = p
        # negative conditions with and without equalities
        for eq in (False, True):
            T = UserType("T")
            p = Problem("gen_neg%s" % ("_eq" if eq else ""))
            pr, q = Fluent("pr", BoolType(), x=T), Fluent("q")
            a, b = Object("a", T), Object("b", T)
            p.add_objects([a, b])
            p.add_fluent(pr, default_initial_value=False)
            p.add_fluent(q, default_initial_value=False)
            act = InstantaneousAction("act", x=T)
            act.add_precondition(Not(pr(act.parameter("x"))))
            if eq:
                act.add_precondition(Equals(act.parameter("x"), a))
            act.add_effect(pr(act.parameter("x")), True)
            act.add_effect(q, True)
            p.add_action(act)
            p.add_goal(q)
            out[p.name] = p
        # a bounded fluent / a state invariant together with a timed effect
        for what in ("bounded", "invariant"):
            p = Problem("gen_til_%s" % what)
            n = Fluent("n", IntType(0, 5)) if what == "bounded" else Fluent("n", IntType())
            q = Fluent("q")
            p.add_fluent(n, default_initial_value=0)
            p.add_fluent(q, default_initial_value=False)
            inc = InstantaneousAction("inc")
            inc.add_effect(n, 3)
            inc.add_effect(q, True)
            p.add_action(inc)
            p.add_timed_effect(GlobalStartTiming(5), n, 1)
            if what == "invariant":
                from unified_planning.shortcuts import LE
                p.add_state_invariant(LE(n, 4))
            p.add_goal(q)
            out[p.name] = p
        # state invariants only / trajectory constraints only (always, sometime) / both, crossed with an unconditional vs a
        # conditional effect on the constrained fluent (TrajectoryConstraintsRemover, StateInvariantsRemover)
        from unified_planning.shortcuts import Always, Sometime
        for cons in ("invariant", "always", "sometime", "both"):
            for eff in ("uncond", "cond"):
                p = Problem("gen_tc_%s_%s" % (cons, eff))
                safe, c, q = Fluent("safe"), Fluent("c"), Fluent("q")
                p.add_fluent(safe, default_initial_value=True)
                p.add_fluent(c, default_initial_value=False)
                p.add_fluent(q, default_initial_value=False)
                risk = InstantaneousAction("risk")
                if eff == "cond":
                    risk.add_effect(safe, False, condition=c)
                    risk.add_effect(c, True, condition=q)
                else:
                    risk.add_effect(safe, False)
                setc = InstantaneousAction("setc")
                setc.add_effect(c, True)
                fin = InstantaneousAction("fin")
                fin.add_effect(q, True)
                for a in (risk, setc, fin):
                    p.add_action(a)
                if cons in ("invariant", "both"):
                    p.add_state_invariant(safe)
                if cons == "always":
                    p.add_trajectory_constraint(Always(safe))
                if cons in ("sometime", "both"):
                    p.add_trajectory_constraint(Sometime(c))
                p.add_goal(q)
                out[p.name] = p
        # the other trajectory-constraint operators (monitoring atoms maintained by conditional effects)
        from unified_planning.shortcuts import SometimeBefore, SometimeAfter, AtMostOnce, And
        for nm, mk in (("sometime_and", lambda c, q: Sometime(And(c, q))), ("sometime_after", lambda c, q: SometimeAfter(c, q)),
                       ("sometime_before", lambda c, q: SometimeBefore(c, q)), ("at_most_once", lambda c, q: AtMostOnce(c))):
            p = out["gen_tc_sometime_uncond"].clone()
            p.name = "gen_tc_" + nm
            p.clear_trajectory_constraints()
            p.add_trajectory_constraint(mk(p.fluent("c")(), p.fluent("q")()))
            out[p.name] = p
        # an interpreted function whose (object) value is assigned to an object fluent
        try:
            from collections import OrderedDict
            from unified_planning.shortcuts import InterpretedFunction
            Loc = UserType("Loc")
            p = Problem("gen_if_object_assignment")
            l1, l2 = Object("l1", Loc), Object("l2", Loc)
            p.add_objects([l1, l2])
            at, flag, ok = Fluent("at", Loc), Fluent("flag"), Fluent("ok")
            visited = Fluent("visited", BoolType(), l=Loc)
            p.add_fluent(at, default_initial_value=l1)
            p.add_fluent(flag, default_initial_value=True)
            p.add_fluent(ok, default_initial_value=False)
            p.add_fluent(visited, default_initial_value=False)
            sig = OrderedDict()
            sig["b"] = BoolType()
            pick = InterpretedFunction("pick", Loc, sig, lambda b: l2 if b else l1)
            go = InstantaneousAction("go")
            go.add_effect(at, pick(flag))
            go.add_effect(ok, True)
            p.add_action(go)
            p.add_goal(ok)
            out[p.name] = p
        except Exception as ex:
            out["__generator_error_if__"] = ex
    except Exception as ex:
        out["__generator_error__"] = ex
    try:
        from unified_planning.test.examples import multi_agent
        for k, e in multi_agent.get_example_problems().items():
            out["ma:" + k] = e.problem
    except Exception:
        pass
    try:
        from unified_planning.shortcuts import Fluent, InstantaneousAction, Not
        from unified_planning.model.contingent import ContingentProblem
        p = ContingentProblem("gen_contingent")
        a, b = Fluent("a"), Fluent("b")
        p.add_fluent(a, default_initial_value=False)
        p.add_fluent(b, default_initial_value=False)
        act = InstantaneousAction("mk")
        act.add_effect(b, True, condition=a)
        act.add_effect(b, True, condition=Not(a))
        p.add_action(act)
        p.add_unknown_initial_constraint(a)
        p.add_goal(b)
        out[p.name] = p
    except Exception:
        pass
    return out


def g_set(ids):
    return glist([gn(i) for i in ids])


def g_skind(s):
    """(bitmask of the feature numbers, version)"""
    return gpair(gn(sum(1 << i for i in s[0])), gopt(None if s[1] is None else gn(s[1])))


def run(ctx):
    tr1 = run_translator(ctx, "gen_kind.py")
    tr2 = run_translator(ctx, "gen_engines.py")
    phase, t0 = {}, time.time()
    ok_proofs = ctx.check_props(extra=["theories/Corr/Corr_C09.v"])
    phase["proofs"] = round(time.time() - t0, 1); t0 = time.time()
    I = c32.Impl()
    rng = ctx.rng
    up = I.up
    from unified_planning.test.examples import get_example_problems
    problems = {k: e.problem for k, e in get_example_problems().items()}
    gen = generated_problems()
    gen_errors = {k: repr(v) for k, v in gen.items() if k.startswith("__")}
    problems.update({k: v for k, v in gen.items() if not k.startswith("__")})
    # the condition-shape family: judged like every other problem; in the quick tier only by the compilers that rewrite conditions
    shapes = c09_shapes.shape_problems()
    gen_errors.update({k: repr(v) for k, v in shapes.items() if k.startswith("__")})
    shapes = {k: v for k, v in shapes.items() if not k.startswith("__")}
    problems.update(shapes)
    env = up.environment.get_environment()
    factory = up.environment.Environment().factory
    registered = [n for n in I.builtin if n in factory.engines]
    compilers = [n for n in registered if factory.engine(n).is_compiler()]
    classes = {n: factory.engine(n) for n in registered}
    rev = {c: n for n, c in classes.items()}
    extra = I.extra_compilers()                     # compiler classes the factory does not register (e.g. TrajectoryConstraintsRemover)
    classes.update(extra)
    compilers = compilers + sorted(extra)
    allnames = registered + sorted(extra)
    eidx = {n: i for i, n in enumerate(allnames)}
    pre_names = "Definition ENG := %s.\n" % glist([gstr(n) for n in allnames])
    budget = 2.0 if ctx.quick else 10.0

    def feats_minus(a, b):
        return sorted(set(a.features) - set(b.features))

    # ------------------------------------------------------------------ (ii) every compiler x every supported problem
    ccases, craw = [], []
    stats = {"compilers": len(compilers), "problems": len(problems), "compiler_runs": 0, "skipped_compile_error": {}, "skipped_timeout": 0,
             "per_compiler": {}, "branch_coverage": {}, "branches_not_reached": [], "runs_where_declared_differs_from_input": 0, "runs_where_compiled_differs_from_input": 0}
    for n in compilers:
        cls = classes[n]
        cks = [i for i, ck in enumerate(I.CK) if cls.supports_compilation(ck)]
        names = [k for k, p in problems.items() if _supports(cls, p)
                 and not (ctx.quick and k in shapes and n not in c09_shapes.SHAPE_COMPILERS)]
        done = 0
        for k in names:
            p = problems[k]
            for ck in cks:
                try:
                    def go():
                        with cls() as c:
                            return c.compile(p, I.CK[ck]).problem
                    q = with_timeout(go, budget)
                except Timeout:
                    stats["skipped_timeout"] += 1
                    continue
                except Exception as ex:      # the compiler failed on a supported problem: C08's subject, not C09's
                    key = "%s:%s" % (n, type(ex).__name__)
                    stats["skipped_compile_error"][key] = stats["skipped_compile_error"].get(key, 0) + 1
                    continue
                try:
                    declared = cls.resulting_problem_kind(p.kind, I.CK[ck])
                except Exception as ex:
                    ctx.fail("impl-exception", "%s.resulting_problem_kind raised %r on the kind of example problem %s" % (cls.__name__, ex, k),
                             ["c09", "compiler:" + n, "resulting_problem_kind-raises", type(ex).__name__],
                             {"compiler": n, "problem": k, "exception": repr(ex), "theorem_or_corr": "corr:C09:cc_ok"}, True)
                    continue
                rec = {"compiler": n, "ck": ck, "problem": k, "in": I.spec_of(p.kind), "out": I.spec_of(q.kind), "declared": I.spec_of(declared),
                       "undeclared": feats_minus(q.kind, declared)}
                craw.append(rec)
                ccases.append("(Build_ccase %s %s %s %s %s)" % (
                    gnat(eidx[n]), gn(ck), g_skind(rec["in"]), g_skind(rec["out"]), g_skind(rec["declared"])))
                stats["compiler_runs"] += 1
                stats["runs_where_declared_differs_from_input"] += rec["declared"] != rec["in"]
                stats["runs_where_compiled_differs_from_input"] += rec["out"] != rec["in"]
                done += 1
        stats["per_compiler"][n] = done
        # which branches of the declared-kind program did the validated inputs reach (has_x() true / false on the input kind)?
        cov = {}
        for h in I.tested_has(cls):
            vals = set(bool(getattr(problems[r["problem"]].kind, "has_" + h)()) for r in craw if r["compiler"] == n)
            cov[h] = sorted(vals)
            for want in (True, False):
                if want not in vals:
                    stats["branches_not_reached"].append("%s: has_%s() never %s on a validated input" % (n, h, want))
        stats["branch_coverage"][n] = cov
    phase["compile_runs"] = round(time.time() - t0, 1); t0 = time.time()
    # many runs (above all of the shape family) have the same (compiler, compilation kind, input, compiled, declared) kinds, i.e. are
    # the same Gallina term: Coq decides each distinct term once
    uniq = {}
    uidx = [uniq.setdefault(c, len(uniq)) for c in ccases]
    ubad = set(ctx.coq_failing(list(uniq), "cc_ok ENG", imports=IMPORTS, preamble=pre_names, shard=max(1, (len(uniq) + 1) // 2)))
    cbad = [i for i in range(len(ccases)) if uidx[i] in ubad]
    stats["distinct_coq_cases"] = len(uniq)
    stats["shape_family"] = {"problems": len(shapes), "runs": sum(1 for r in craw if r["problem"] in shapes),
                             "compilers": sorted(set(r["compiler"] for r in craw if r["problem"] in shapes)),
                             "runs_with_undeclared_feature": sum(1 for r in craw if r["problem"] in shapes and r["undeclared"])}
    phase["coq_compilers"] = round(time.time() - t0, 1); t0 = time.time()
    groups = {}
    for i in cbad:
        r = craw[i]
        if r["undeclared"]:
            for f in r["undeclared"]:
                groups.setdefault((r["compiler"], f), []).append(r)
        else:
            parts = ctx.coq_show("cc_parts ENG c", imports=IMPORTS, preamble=pre_names + "Definition c := %s.\n" % ccases[i])
            ctx.fail("corr", "compiler %s on %s: Coq and the implementation disagree although kind(compiled) <= declared "
                     "(parts: is compiler for ck, supports input, translated program = executed declaration, inclusion): %s" % (
                         r["compiler"], r["problem"], parts[:120]),
                     ["c09", "compiler:" + r["compiler"], "translation"],
                     {"case": r, "model_parts": parts, "names": I.names, "theorem_or_corr": "corr:C09:cc_parts"}, False)
    # the implementation's own view of every run (independent of Coq): report also what Coq would have missed
    for i, r in enumerate(craw):
        if r["undeclared"] and i not in cbad:
            ctx.fail("oracle", "kind(compiled) is not within the declared kind but the Coq check passed", ["c09", "oracle-only"], {"case": r}, True)
    for (n, f), rs in sorted(groups.items()):
        ctx.fail("corr", "compiler %s: the compiled problem has feature %s that resulting_problem_kind does not declare (%d example run(s), e.g. %s)" % (
            n, f, len(rs), rs[0]["problem"]),
            ["c09", "compiler:" + n, "undeclared:" + f],
            {"compiler": n, "undeclared_feature": f, "problems": [r["problem"] for r in rs][:12],
             "example": {"problem": rs[0]["problem"], "kind_in": [I.names[i] for i in rs[0]["in"][0]],
                         "kind_compiled": [I.names[i] for i in rs[0]["out"][0]], "kind_declared": [I.names[i] for i in rs[0]["declared"][0]]},
             "theorem_or_corr": "corr:C09:kind(compiled)<=declared"}, True)

    phase["diagnose_compilers"] = round(time.time() - t0, 1); t0 = time.time()
    # ------------------------------------------------------------------ factory pipelines
    offered = sorted(set(i for n in compilers for i, ck in enumerate(I.CK) if classes[n].supports_compilation(ck)))
    maxlen = 2 if ctx.quick else 3
    seqs = [list(s) for L in range(1, maxlen + 1) for s in itertools.permutations(offered, L)]
    pnames = [k for k, p in problems.items() if type(p).__name__ == "Problem" and k not in shapes]
    sample = sorted(rng.sample(pnames, 4 if ctx.quick else 10))
    n_run = 60 if ctx.quick else 400
    pcases, praw = [], []
    pstats = {"problems": sample, "sequences_per_problem": len(seqs), "requests": 0, "built": 0, "not_built": {}, "run_stage_by_stage": 0,
              "stages_run": 0, "stage_compile_errors": {}}
    factory.preference_list = [n for n in I.fac.DEFAULT_ENGINES_PREFERENCE_LIST if n in registered]
    prefs = list(factory.preference_list)
    built = []
    for k in sample:
        p = problems[k]
        for cks in seqs:
            pstats["requests"] += 1
            rec = {"problem": k, "cks": cks, "kind": I.spec_of(p.kind)}
            try:
                pipe = factory.Compiler(problem_kind=p.kind, compilation_kinds=[I.CK[i] for i in cks])
                rec["names"] = [rev.get(type(c), "?" + type(c).__name__) for c in pipe._compilers]
                rec["pipe"] = pipe
                pstats["built"] += 1
                built.append(rec)
            except Exception as ex:
                rec["fail"] = c32.classify(I, ex)
                pstats["not_built"][rec["fail"]] = pstats["not_built"].get(rec["fail"], 0) + 1
            praw.append(rec)
    # run a sample of the built pipelines stage by stage (longest first: they exercise the chaining)
    built.sort(key=lambda r: -len(r["cks"]))
    torun = built[: n_run // 2] + (rng.sample(built[n_run // 2:], min(len(built) - n_run // 2, n_run // 2)) if len(built) > n_run // 2 else [])
    for rec in torun:
        p = problems[rec["problem"]]
        actual, cur, err = [], p, None
        for comp, ck in zip(rec["pipe"]._compilers, rec["cks"]):
            actual.append(I.spec_of(cur.kind))
            try:
                cur = with_timeout(lambda: comp.compile(cur, I.CK[ck]).problem, budget)
                pstats["stages_run"] += 1
            except Timeout:
                err = "timeout"
                break
            except up.exceptions.UPUsageError as ex:
                if "We cannot establish whether" in str(ex):      # CompilerMixin.compile: not self.supports(problem.kind)
                    err = ("rejected", rev.get(type(comp), "?"), str(ex)[:200])
                else:                                             # some other usage requirement of the compiler (C08's subject)
                    key = "%s:UPUsageError" % rev.get(type(comp), "?")
                    pstats["stage_compile_errors"][key] = pstats["stage_compile_errors"].get(key, 0) + 1
                    err = "compile-error"
                break
            except Exception as ex:
                key = "%s:%s" % (rev.get(type(comp), "?"), type(ex).__name__)
                pstats["stage_compile_errors"][key] = pstats["stage_compile_errors"].get(key, 0) + 1
                err = "compile-error"
                break
        if err is None:
            rec["actual"], rec["final"] = actual, I.spec_of(cur.kind)
            pstats["run_stage_by_stage"] += 1
        elif isinstance(err, tuple):
            rec["rejected"] = err
            rec["actual"] = actual
    for rec in praw:
        if "fail" in rec:
            obs = "(PNotBuilt %s)" % rec["fail"]
        elif "final" in rec:
            obs = "(PBuilt %s %s %s)" % (glist([gnat(eidx[n]) for n in rec["names"]]), glist([g_skind(a) for a in rec["actual"]]), g_skind(rec["final"]))
        else:
            obs = "(PChosen %s)" % glist([gnat(eidx[n]) for n in rec["names"]])
        pcases.append("(Build_pcase %s %s %s %s %s)" % (
            "REG", "PREFS", g_set(rec["cks"]), g_skind(rec["kind"]), obs))
    pre = pre_names + "Definition REG := %s.\nDefinition PREFS := %s.\n" % (glist([gstr(n) for n in registered]), glist([gstr(n) for n in prefs]))
    phase["pipelines_python"] = round(time.time() - t0, 1); t0 = time.time()
    pbad = ctx.coq_failing(pcases, "pc_ok ENG", imports=IMPORTS, preamble=pre, shard=max(1, (len(pcases) + 1) // 2))
    phase["coq_pipelines"] = round(time.time() - t0, 1); t0 = time.time()
    def culprit_of(rec, kinds):
        """first stage whose output has features outside the kind the classes declare for it: (engine name, [features])"""
        d = problems[rec["problem"]].kind
        for j, (n, ck) in enumerate(zip(rec["names"], rec["cks"])):
            if j + 1 >= len(kinds):
                break
            d = classes[n].resulting_problem_kind(d, I.CK[ck])
            extra = sorted(set(kinds[j + 1][0]) - set(I.spec_of(d)[0]))
            if extra:
                return (n, [I.names[x] for x in extra])
        return None

    pgroups = {}
    for i in pbad:
        rec = praw[i]
        parts = ctx.coq_show("pc_parts ENG c", imports=IMPORTS, preamble=pre + "Definition c := %s.\n" % pcases[i]) if len(pgroups) < 6 else ""
        culprit = culprit_of(rec, rec["actual"] + [rec["final"]]) if "final" in rec else None
        if culprit:
            for f in culprit[1]:
                pgroups.setdefault((culprit[0], f), []).append((rec, parts))
        else:
            ctx.fail("corr", "Factory.Compiler(problem_kind=kind(%s), compilation_kinds=%s): implementation %s, model parts %s" % (
                rec["problem"], [I.CK[i].name for i in rec["cks"]], rec.get("names", rec.get("fail")), parts[:160]),
                ["c09", "pipeline", "selection"], {"request": {k: v for k, v in rec.items() if k != "pipe"}, "model_parts": parts,
                                                   "theorem_or_corr": "corr:C09:pc_parts"}, False)
    for (n, f), rs in sorted(pgroups.items()):
        rec, parts = rs[0]
        ctx.fail("corr", "factory pipeline: stage %s hands on a problem with feature %s outside the kind the factory declared for the next stage "
                 "(%d pipeline(s), e.g. %s on %s)" % (n, f, len(rs), [I.CK[i].name for i in rec["cks"]], rec["problem"]),
                 ["c09", "pipeline", "compiler:" + n, "undeclared:" + f],
                 {"request": {k: v for k, v in rec.items() if k != "pipe"}, "model_parts": parts, "names": I.names,
                  "theorem_or_corr": "corr:C09:actual<=declared"}, True)
    for rec in praw:
        if "rejected" in rec:
            _, who, msg = rec["rejected"]
            cul = culprit_of(rec, rec["actual"])       # rec["actual"] ends with the kind of the problem that was rejected
            if cul:
                # consequence of an under-declared earlier stage: one failure per undeclared feature, tagged like the compiler-level finding
                for f in cul[1]:
                    ctx.fail("oracle", "factory pipeline %s on %s: stage %s rejected the problem it received because stage %s produced feature %s "
                             "outside its declared kind" % ([I.CK[i].name for i in rec["cks"]], rec["problem"], who, cul[0], f),
                             ["c09", "pipeline", "stage-rejected", "compiler:" + cul[0], "undeclared:" + f],
                             {"request": {k: v for k, v in rec.items() if k != "pipe"}, "rejected_by": who, "culprit": cul,
                              "theorem_or_corr": "oracle:C09:pipeline-accepts"}, True)
            else:
                ctx.fail("oracle", "factory pipeline %s on %s: stage %s rejected the intermediate problem it received (%s) although every earlier "
                         "stage stayed within its declared kind" % ([I.CK[i].name for i in rec["cks"]], rec["problem"], who, msg),
                         ["c09", "pipeline", "stage-rejected", "rejected-by:" + who],
                         {"request": {k: v for k, v in rec.items() if k != "pipe"}, "theorem_or_corr": "oracle:C09:pipeline-accepts"}, True)
    if not ok_proofs:
        ctx.proof_broken()

    distinct = set((r["compiler"], r["ck"], tuple(r["in"][0])) for r in craw if r["in"][0])
    distinct |= set(("p", tuple(r["cks"]), tuple(r["kind"][0])) for r in praw)
    ctx.finish({
        "evaluations": len(ccases) + len(pcases),
        "distinct_nontrivial": len(distinct),
        "rule": "distinct = distinct (compiler, compilation kind, non-empty input kind) of a completed compiler run, plus distinct (compilation-kind "
                "sequence, problem kind) factory pipeline requests; evaluations counts every compiler run, identical Gallina cases are "
                "decided once (distribution.compilers.distinct_coq_cases)",
        "samples": [craw[0] if craw else None, {k: v for k, v in (praw[0] if praw else {}).items() if k != "pipe"}],
        "distribution": {"compilers": stats, "pipelines": pstats},
        "undeclared_feature_groups": sorted("%s:%s" % g for g in groups),
        "translators_ok": [tr1, tr2],
        "generator_errors": gen_errors,
        "phase_seconds": phase,
        "exhaustive": False,
        "trusted_extra": ["tools/gen_engines.py, tools/gen_kind.py", "Problem.kind is taken as the kind of a problem (C10)"],
    }, "proof", assumptions=["(ii) is validated on the example problems and generated ones, not proved",
                             "pipelines: all kinds at LATEST version (Problem.kind)"])


def _supports(cls, p):
    try:
        return bool(cls.supports(p.kind))
    except Exception:
        return False
