"""C11 — Simplification preserves the meaning of expressions.

Theorems: coq/theories/Props/C11.v (about coq/theories/Walkers/Simplify.v, the model of Simplifier.walk_*).
Tie: correspondence.  Typed random expressions (harness/gen/exprs.py, extended here with a sibling user type, free
variables, static/non-static fluents and targeted shapes) are simplified by the real implementation, both with
`e.simplify()` and with `Simplifier(env, problem).simplify(e)`; Coq then checks, per case,
  (1) model output = implementation output (structural),
  (2) the property on the implementation's output with the reference semantics `eval false`: every sampled
      interpretation that gives the original a value gives the output the same value; free variables of the output
      are free variables of the input; a second simplify returns the same expression.
"""
import json
from fractions import Fraction
from itertools import product

from harness.core import gn, glist, gpair, gopt
from harness.ser import Names, ser_expr, ser_finterp
from harness.gen.exprs import World, BIG

META = {
    "level": "proof",
    "technique": "Coq proof (refinement of values by induction over expressions and re-simplification depth, free-variable inclusion, "
                 "normal-form argument for idempotence) + model/implementation correspondence and property oracle by vm_compute",
    "text": "simplify_sound / simplify_no_new_free_vars / simplify_idempotent / raises_only_without_value about a Gallina model of Simplifier.walk_*; the model is "
            "tied to simplifier.py by structural comparison of outputs on generated expressions, and the property itself is "
            "evaluated inside Coq on the implementation's outputs under sampled interpretations.",
    "note": "Trusted: Coq kernel/vm_compute, harness serialiser. Print Assumptions: closed under the global context. "
            "Hypotheses of simplify_sound (documented in notes/C11.md): strict quantifier semantics, interpretations respect the "
            "declared user types and agree with the static-fluent / interpreted-function tables, quantified user types are "
            "inhabited, no quantifier rebinds a variable in scope and fluent arguments are quantifier-free (capture-freeness of "
            "FNode.substitute), the walk does not run out of the model's re-simplification fuel.",
}

IMPORTS = ["UPV.Core.Expr", "UPV.Core.Eval", "UPV.Core.Interp", "UPV.Walkers.Simplify", "UPV.Corr.Corr_C11"]


# ------------------------------------------------------------------------------------------------ world
class W11(World):
    """World of harness/gen/exprs.py plus: a sibling user type T2 < T0 (so that Equals between incompatible user types is
    well-formed), two free variables, an action that makes some fluents non-static, initial values for some static ones."""

    def __init__(self, rng, all_dynamic=False):
        super().__init__(rng)
        from unified_planning.model import Fluent, Object, InstantaneousAction, Variable
        self.all_dynamic = all_dynamic
        tm = self.env.type_manager
        self.T2 = tm.UserType("T2", self.T0)
        self.objs[self.T2] = [Object("d0", self.T2, self.env)]
        self.problem.add_objects(self.objs[self.T2])
        extra = [Fluent("o2", self.T2, environment=self.env), Fluent("b3", tm.BoolType(), x=self.T2, environment=self.env)]
        for f in extra:
            self.fluents.append(f)
            self.problem.add_fluent(f)
        # a user type without objects (legal in unified-planning): quantifiers over it are vacuous
        self.T3 = tm.UserType("T3")
        self.objs[self.T3] = []
        f4 = Fluent("b4", tm.BoolType(), x=self.T3, environment=self.env)
        self.f4 = f4   # not in self.fluents: the random grammar has no term of type T3 to apply it to
        self.problem.add_fluent(f4)
        self.free_vars = [Variable("fv0", self.T0, self.env), Variable("fv1", self.T1, self.env),
                          Variable("fv2", self.T2, self.env)]
        # non-static fluents: those with an effect in some action
        # all_dynamic: EVERY fluent (also b4 over the object-less type, through an action parameter) has an effect, so the
        # problem has no static fluent at all — Simplifier(env, problem) must still use the problem (its objects)
        act = InstantaneousAction("touch", _env=self.env, x3=self.T3)
        self.dynamic = set()
        for f in self.fluents:
            if all_dynamic or rng.random() < 0.4:
                self.dynamic.add(f)
                args = [rng.choice(self.objects_of(p.type)) for p in f.signature]
                act.add_effect(f(*args), self.rand_value_of_type(f.type))
        if all_dynamic:
            act.add_effect(f4(act.parameter("x3")), True)
        self.problem.add_action(act)
        # initial values (explicit) for ~70% of the ground fluents
        self.init = {}
        for (f, args) in self.ground_fluents():
            if rng.random() < 0.7:
                v = self.rand_value_of_type(f.type, corner=rng.random() < 0.3)
                self.problem.set_initial_value(f(*args), v)
                self.init[(f, args)] = v
        self.static = self.problem.get_static_fluents()

    def all_types(self):
        return [self.T0, self.T1, self.T2]

    def sub(self, small, big):
        return small == big or big in small.ancestors

    def gen_obj(self, t, depth, scope):
        em, rng = self.em, self.rng
        cands = []
        for o in self.objects_of(t):
            cands.append(lambda o=o: em.ObjectExp(o))
        for v in scope:
            if self.sub(v.type, t):
                cands.append(lambda v=v: em.VariableExp(v))
                cands.append(lambda v=v: em.VariableExp(v))
        for p in self.params:
            if p.type.is_user_type() and self.sub(p.type, t):
                cands.append(lambda p=p: em.ParameterExp(p))
        if depth > 0:
            for f in self.fluents:
                if f.type.is_user_type() and self.sub(f.type, t):
                    cands.append(lambda f=f: self.gen_fluent(f, depth - 1, scope))
        return rng.choice(cands)()

    def interp(self, undefined_rate=0.0, corner=False):
        """(fl, par, var, ifun): static fluents keep their initial value"""
        fl, par, ifun = self.rand_interp(undefined_rate, corner)
        for k, v in self.init.items():
            if k[0] in self.static:
                fl[k] = v
        var = {v: self.rng.choice(self.objects_of(v.type)) for v in self.free_vars}
        return fl, par, var, ifun


# ------------------------------------------------------------------------------------------------ targeted shapes
def targeted(w, rng):
    """Expressions aimed at the branches of the simplifier that random generation reaches rarely."""
    em = w.em
    F = {f.name: f for f in w.fluents}
    P = {p.name: p for p in w.params}
    a0, a1 = w.objs[w.T0]
    c0, c1 = w.objs[w.T1]
    d0 = w.objs[w.T2][0]
    fv0, fv1, fv2 = w.free_vars
    scope = tuple(w.free_vars)
    out = []

    def num():
        return w.gen_num(rng.randint(0, 2), scope)

    def boo():
        return w.gen_bool(rng.randint(0, 2), scope)

    def const():
        c = w.const_num()
        return em.Int(c) if isinstance(c, int) else em.Real(Fraction(c))

    kind = rng.randrange(14)
    if kind == 0:  # integer division of big constants
        big = rng.choice(BIG + [2 ** 60 + 2, 2 ** 53 + 2, 3 * (2 ** 61) + 3, -(2 ** 62) - 2, 10 ** 30 + 7])
        d = rng.choice([1, 2, 3, -2, 7, 2 ** 20, big, -big, 10])
        q = em.Div(em.Int(big * rng.choice([1, 1, d])), em.Int(d))
        return rng.choice([lambda: q, lambda: em.LE(q, num()), lambda: em.Plus(q, num(), const()),
                           lambda: em.Equals(q, em.Int(big // d))])()
    if kind == 1:  # Exists with v == term conjuncts
        tv = rng.choice(w.all_types())
        v = w.fresh_var(tv)
        ve = em.VariableExp(v)
        v2 = w.fresh_var(rng.choice(w.all_types()))
        terms = [em.ObjectExp(rng.choice(w.objects_of(tv))), em.ObjectExp(rng.choice(w.objects_of(w.T0))),
                 em.VariableExp(rng.choice(w.free_vars)), em.VariableExp(v2), F["o0"](), F["o1"](ve), F["o1"](a0),
                 F["o1"](em.VariableExp(v2)), F["o2"](), em.ParameterExp(P["p0"]), em.ParameterExp(P["p1"]), ve]
        t = rng.choice(terms)
        eq = em.Equals(ve, t) if rng.random() < 0.5 else em.Equals(t, ve)
        others = []
        for _ in range(rng.randint(1, 3)):
            r = rng.randrange(7)
            if r == 0:
                others.append(F["b1"](ve))
            elif r == 1:
                others.append(em.Equals(ve, rng.choice(terms)))
            elif r == 2:
                x = w.fresh_var(w.T0)
                others.append(em.Forall(em.Or(F["b1"](x), em.Equals(x, ve)), x))
            elif r == 3:
                others.append(em.Not(F["b1"](ve)))
            elif r == 4:
                others.append(em.LE(F["i1"](ve), num()))
            elif r == 5:
                others.append(w.gen_bool(2, scope + (v, v2)))
            else:
                others.append(em.Equals(em.VariableExp(v2), rng.choice(terms)))
        conj = others + [eq]
        rng.shuffle(conj)
        vs = [v, v2] if rng.random() < 0.6 else [v]
        if rng.random() < 0.3:
            vs.reverse()
        body = em.And(conj)
        e = em.Exists(body, *vs)
        if v2 not in vs and rng.random() < 0.7:
            e = rng.choice([em.Exists, em.Forall])(e, v2)
        return e
    if kind == 2:  # nested Plus / Minus with negative constants
        x = num()
        c1_, c2_ = const(), const()
        neg = em.Int(-rng.randint(1, 5)) if rng.random() < 0.6 else em.Real(Fraction(-rng.randint(1, 7), rng.randint(1, 4)))
        return rng.choice([
            lambda: em.Minus(em.Plus(x, c1_), neg),
            lambda: em.Minus(em.Minus(x, neg), neg),
            lambda: em.Plus(em.Plus(x, c1_), em.Plus(num(), c2_), neg),
            lambda: em.Plus(em.Real(Fraction(1, 2)), x, em.Real(Fraction(1, 2))),
            lambda: em.Plus(em.Real(Fraction(1, 2)), x, em.Real(Fraction(-1, 2))),
            lambda: em.Minus(em.Minus(c1_, c2_), neg),
            lambda: em.LT(em.Minus(em.Plus(x, num(), c1_), neg), em.Minus(c2_, x)),
            lambda: em.Minus(x, em.Minus(c1_, c2_)),
        ])()
    if kind == 3:  # And / Or with duplicate and complementary literals
        lits = [boo() for _ in range(rng.randint(2, 3))]
        pool = list(lits) + [em.Not(l) for l in lits] + [rng.choice(lits)]
        if rng.random() < 0.3:
            pool.append(em.Bool(rng.random() < 0.5))
        xs = [rng.choice(pool) for _ in range(rng.randint(2, 5))]
        mk = rng.choice([em.And, em.Or])
        if rng.random() < 0.5:
            inner = rng.choice([em.And, em.Or])([rng.choice(pool) for _ in range(rng.randint(2, 3))])
            xs.insert(rng.randrange(len(xs) + 1), inner)
        return mk(xs)
    if kind == 4:  # Equals between user-typed terms, compatible or not
        ts = [em.ObjectExp(o) for t in w.all_types() for o in w.objs[t]] + [em.VariableExp(v) for v in w.free_vars] + \
             [F["o0"](), F["o1"](a0), F["o1"](em.VariableExp(fv1)), F["o2"](), em.ParameterExp(P["p0"]), em.ParameterExp(P["p1"])]
        return em.Equals(rng.choice(ts), rng.choice(ts))
    if kind == 5:  # Times with zero / one / reciprocal constants
        x = num()
        return rng.choice([
            lambda: em.Times(x, em.Int(0), num()),
            lambda: em.Times(em.Real(Fraction(1, 2)), x, em.Int(2)),
            lambda: em.Times(em.Times(x, const()), em.Times(num(), const())),
            lambda: em.Times(x, em.Real(Fraction(0))),
            lambda: em.Times(em.Int(1), x),
            lambda: em.Times(x, em.Times(em.Int(0), num())),
            lambda: em.Equals(em.Times(const(), const(), const()), num()),
        ])()
    if kind == 6:  # fluents on constant arguments (static folding), nested
        f = rng.choice(w.fluents)
        fe = f(*[rng.choice(w.objects_of(p.type)) for p in f.signature])
        if f.type.is_bool_type():
            return rng.choice([lambda: fe, lambda: em.And(fe, boo()), lambda: em.Iff(fe, boo()), lambda: em.Implies(boo(), fe)])()
        if f.type.is_user_type():
            return em.Equals(fe, w.gen_obj(w.T0, 1, scope))
        return rng.choice([lambda: em.LE(fe, num()), lambda: em.Equals(em.Plus(fe, const()), num()),
                           lambda: em.LT(em.Div(num(), fe), const())])()
    if kind == 7:  # trajectory operators
        b, b2 = boo(), boo()
        k = rng.choice([em.Bool(True), em.Bool(False), b, em.And(b, em.Not(b)), em.Or(b2, em.Not(b2))])
        k2 = rng.choice([em.Bool(True), em.Bool(False), b2])
        return rng.choice([lambda: em.Always(k), lambda: em.Sometime(k), lambda: em.AtMostOnce(k),
                           lambda: em.SometimeBefore(k, k2), lambda: em.SometimeAfter(k, k2),
                           lambda: em.And(em.Always(k), em.Sometime(k2))])()
    if kind == 8:  # Iff / Implies with constants and identical sides
        b = boo()
        k = rng.choice([em.Bool(True), em.Bool(False), b, em.Not(b), boo()])
        return rng.choice([lambda: em.Iff(b, k), lambda: em.Iff(k, b), lambda: em.Implies(b, k), lambda: em.Implies(k, b),
                           lambda: em.Not(em.Iff(em.Not(b), k)), lambda: em.Not(em.Not(em.Implies(k, em.Not(b))))])()
    if kind == 9:  # a divisor that becomes the constant 0 after folding static fluents: the implementation raises
        cands = [(f, args, v) for (f, args), v in w.init.items()
                 if f in w.static and (f.type.is_int_type() or f.type.is_real_type())]
        if not cands:
            return em.Div(num(), const())
        f, args, v = rng.choice(cands)
        fe = f(*args)
        z = fe if v == 0 else em.Minus(fe, em.Int(v) if isinstance(v, int) else em.Real(Fraction(v)))
        n = rng.choice([em.Int(rng.randint(-3, 9)), em.Real(Fraction(3, 2)), em.Plus(em.Int(1), em.Int(2)), num(), F["i2"]()])
        return rng.choice([lambda: em.LE(em.Div(n, z), num()), lambda: em.And(boo(), em.Equals(em.Div(n, z), const())),
                           lambda: em.Div(n, z), lambda: em.Forall(em.LT(em.Div(n, z), F["i1"](fv0)), fv0)])()
    if kind == 10:  # quantifiers whose variables disappear
        v = w.fresh_var(rng.choice(w.all_types()))
        v2 = w.fresh_var(rng.choice(w.all_types()))
        ve = em.VariableExp(v)
        body = rng.choice([lambda: boo(), lambda: em.Or(F["b1"](ve), em.Not(F["b1"](ve))),
                           lambda: em.And(boo(), em.Equals(ve, ve)), lambda: em.Or(boo(), F["b1"](ve)),
                           lambda: em.Implies(F["b1"](ve), F["b1"](ve))])()
        return rng.choice([em.Exists, em.Forall])(body, *rng.choice([[v], [v, v2], [v2, v]]))
    if kind == 11:  # quantifiers over several variables that all survive (the order of the variables must be kept)
        vs = [w.fresh_var(rng.choice(w.all_types())) for _ in range(rng.randint(2, 3))]
        ves = [em.VariableExp(v) for v in vs]
        atoms = [F["b1"](x) for x in ves] + [em.Equals(ves[0], ves[1]), em.Not(F["b1"](ves[-1])), em.LE(F["i1"](ves[0]), F["i1"](ves[-1]))]
        if vs[0].type == w.T1:
            atoms.append(F["b2"](ves[0], ves[1]))
        body = rng.choice([em.Or, em.And])(atoms[:len(vs)] + [rng.choice(atoms), boo()])
        if body.is_and() and rng.random() < 0.5:
            body = em.Or(body, boo())
        return rng.choice([em.Exists, em.Forall])(body, *vs)
    if kind == 12:  # quantifiers over the object-less type T3 (vacuous: Forall true, Exists false)
        return empty_type_shape(w, rng, rng.randrange(10))
    # comparisons of constants of any magnitude
    a, b = const(), const()
    return rng.choice([lambda: em.LE(a, b), lambda: em.LT(a, b), lambda: em.Equals(a, b), lambda: em.Equals(a, a),
                       lambda: em.LE(a, a), lambda: em.LT(a, a), lambda: em.GE(em.Plus(a, b), em.Plus(b, a)),
                       lambda: em.LE(em.Times(a, em.Int(2)), em.Plus(a, a)), lambda: em.LT(em.Minus(a, b), em.Minus(a, b)),
                       lambda: em.LT(em.Plus(a, b), em.Times(a, b)), lambda: em.Equals(em.Minus(a, b), em.Div(a, em.Int(3)))])()


def empty_type_shape(w, rng, k):
    em = w.em
    F = {f.name: f for f in w.fluents + [w.f4]}
    scope = tuple(w.free_vars)
    v = w.fresh_var(w.T3)
    ve = em.VariableExp(v)
    Q = rng.choice([em.Exists, em.Forall])
    b = w.gen_bool(rng.randint(0, 2), scope)
    if k == 0:
        return Q(b, v)                                             # unused variable
    if k == 1:
        x = w.fresh_var(w.T0)
        return Q(em.Or(F["b1"](x), b), *rng.choice([[v, x], [x, v]]))   # one used, one unused over T3
    if k == 2:
        return Q(F["b4"](ve), v)                                   # used: kept by both simplifiers
    if k == 3:
        return Q(em.Or(F["b4"](ve), em.Not(F["b4"](ve)), b), v)    # unused only after simplification of the body
    if k == 4:
        return em.And(b, em.Forall(em.Bool(False), v))
    if k == 5:
        return em.Not(em.Exists(em.Or(b, em.Bool(True)), v))
    if k == 6:
        x = w.fresh_var(w.T3)
        return Q(em.And(F["b4"](ve), em.Equals(ve, x)), v, x)      # elimination between two variables of the empty type
    # equality elimination whose body holds a quantifier over the empty type with an unused variable: the node rebuilt
    # after the substitution is simplified again by the nested simplifier, which must know the problem's objects too
    t = rng.choice(w.all_types())
    u = w.fresh_var(t)
    ue = em.VariableExp(u)
    val = rng.choice([em.ObjectExp(rng.choice(w.objects_of(t)))] + [em.VariableExp(x) for x in w.free_vars if x.type == t])
    eq = em.Equals(ue, val) if rng.random() < 0.5 else em.Equals(val, ue)
    inner_body = rng.choice([F["b1"](ue), em.Not(F["b1"](ue)), em.Or(F["b1"](ue), b), em.LE(F["i1"](ue), F["i0"]())])
    inner = rng.choice([em.Exists, em.Forall])(inner_body, v)
    if k == 8:
        inner = em.Not(inner)
    conj = [eq, inner] + ([F["b1"](ue)] if k == 9 else [])
    rng.shuffle(conj)
    return em.Exists(em.And(conj), u)


def binds_type(e, t):
    """does e contain a quantifier that binds a variable of user type t"""
    seen, st = set(), [e]
    while st:
        n = st.pop()
        if n in seen:
            continue
        seen.add(n)
        st.extend(n.args)
        if (n.is_exists() or n.is_forall()) and any(v.type == t for v in n.variables()):
            return True
    return False


def empty_unused_tags(e, w, objs_tab=None):
    """tags of the known shape: a quantifier over a type without objects whose variable is unused (in the simplified body)"""
    tags, seen, st = set(), set(), [e]
    while st:
        n = st.pop()
        if n in seen:
            continue
        seen.add(n)
        st.extend(n.args)
        if n.is_exists() or n.is_forall():
            fv = w.env.free_vars_oracle.get_free_variables(n.arg(0).simplify())
            for v in n.variables():
                if not (w.objects_of(v.type) if objs_tab is None else objs_tab.get(v.type, [])):
                    tags.add("quantifier-over-empty-type")
                    if v not in fv:
                        tags.add("unused-bound-variable")
    return sorted(tags)


# ------------------------------------------------------------------------------------------------ reference evaluator
class Undef(Exception):
    pass


def py_eval(e, I):
    """Strict reference evaluation written from the property text (used only to classify a failing case)."""
    fl, par, var, ifun, objs = I

    def ev(n, var):
        if n.is_bool_constant():
            return n.bool_constant_value()
        if n.is_int_constant() or n.is_real_constant():
            return Fraction(n.constant_value())
        if n.is_object_exp():
            return n.object()
        if n.is_parameter_exp():
            if n.parameter() not in par:
                raise Undef()
            v = par[n.parameter()]
            return v if isinstance(v, bool) or not isinstance(v, (int, Fraction)) else Fraction(v)
        if n.is_variable_exp():
            if n.variable() not in var:
                raise Undef()
            return var[n.variable()]
        a = None
        if n.is_fluent_exp():
            k = (n.fluent(), tuple(ev(x, var) for x in n.args))
            if k not in fl:
                raise Undef()
            v = fl[k]
            return v if isinstance(v, bool) or not isinstance(v, (int, Fraction)) else Fraction(v)
        if n.is_interpreted_function_exp():
            k = (n.interpreted_function(), tuple(ev(x, var) for x in n.args))
            k2 = (k[0], tuple(int(x) if isinstance(x, Fraction) and x.denominator == 1 else x for x in k[1]))
            if k2 not in ifun:
                raise Undef()
            v = ifun[k2]
            return v if isinstance(v, bool) else Fraction(v)
        if n.is_exists() or n.is_forall():
            vs = n.variables()
            res = []
            for os in product(*[objs[v.type] for v in vs]):
                nv = dict(var)
                nv.update(zip(vs, os))
                r = ev(n.arg(0), nv)
                if not isinstance(r, bool):
                    raise Undef()
                res.append(r)
            return any(res) if n.is_exists() else all(res)
        if n.is_always() or n.is_sometime() or n.is_sometime_before() or n.is_sometime_after() or n.is_at_most_once():
            raise Undef()
        a = [ev(x, var) for x in n.args]

        def bools():
            if not all(isinstance(x, bool) for x in a):
                raise Undef()

        def nums():
            if not all(isinstance(x, Fraction) for x in a):
                raise Undef()
        if n.is_and():
            bools(); return all(a)
        if n.is_or():
            bools(); return any(a)
        if n.is_not():
            bools(); return not a[0]
        if n.is_implies():
            bools(); return (not a[0]) or a[1]
        if n.is_iff():
            bools(); return a[0] == a[1]
        if n.is_plus():
            nums(); return sum(a, Fraction(0))
        if n.is_times():
            nums()
            r = Fraction(1)
            for x in a:
                r *= x
            return r
        if n.is_minus():
            nums(); return a[0] - a[1]
        if n.is_div():
            nums()
            if a[1] == 0:
                raise Undef()
            return a[0] / a[1]
        if n.is_le():
            nums(); return a[0] <= a[1]
        if n.is_lt():
            nums(); return a[0] < a[1]
        if n.is_equals():
            if isinstance(a[0], Fraction) and isinstance(a[1], Fraction):
                return a[0] == a[1]
            if isinstance(a[0], (bool, Fraction)) or isinstance(a[1], (bool, Fraction)):
                raise Undef()
            return a[0] == a[1]
        raise ValueError("py_eval: %s" % n)

    try:
        return ("v", ev(e, var))
    except Undef:
        return None


def op_kinds(e):
    seen, out, st = set(), {}, [e]
    while st:
        n = st.pop()
        if n in seen:
            continue
        seen.add(n)
        k = n.node_type.name
        out[k] = out.get(k, 0) + 1
        st.extend(n.args)
    return out


def all_vars(e):
    """every Variable occurring in e, free or bound (sorted by name for determinism)"""
    seen, out, st = set(), set(), [e]
    while st:
        n = st.pop()
        if n in seen:
            continue
        seen.add(n)
        if n.is_variable_exp():
            out.add(n.variable())
        if n.is_exists() or n.is_forall():
            out.update(n.variables())
        st.extend(n.args)
    return sorted(out, key=lambda v: (v.name, str(v.type)))


def depth_of(e):
    memo = {}

    def go(n):
        if n not in memo:
            memo[n] = 1 + max([go(x) for x in n.args], default=0)
        return memo[n]
    return go(e)


# ------------------------------------------------------------------------------------------------ run
def run(ctx):
    # regenerate Gen/Gen_Walkers.v (walker dispatch tables) from $UP_REPO before the theorems are re-checked
    from harness.ext._dispatch_common import prepare as _prepare_dispatch
    _prepare_dispatch(ctx)
    import unified_planning  # noqa: F401
    from unified_planning.model.walkers import Simplifier

    ok_proofs = ctx.check_props(extra=["theories/Corr/Corr_C11.v"])
    rng = ctx.rng
    n_worlds = 6 if ctx.quick else 30
    per_world = 170 if ctx.quick else 500
    batch = 6 if ctx.quick else 5   # worlds evaluated together: one Coq evaluation (two coqc processes) per batch
    n_interps = 10 if ctx.quick else 16
    max_depth = 4 if ctx.quick else 6

    stats = {"expressions": 0, "with_problem": 0, "changed": 0, "raised_div0": 0, "targeted": 0, "free_var_exprs": 0,
             "ops": {}, "depth": {}, "out_kind": {}, "defined_evals": 0, "total_evals": 0, "exists_eliminations": 0}
    nontrivial = set()
    samples = []
    total_cases = 0

    for b0 in range(0, n_worlds, batch):
        cases, raw, worlds, all_pre = [], [], {}, []
        for wi in range(b0, min(n_worlds, b0 + batch)):
            w = W11(rng, all_dynamic=(wi % 3 == 1))   # every third world: a problem without any static fluent
            em = w.em
            names = Names()
            for t in w.all_types():
                names.ty(t)
            for t in w.all_types():
                for o in w.objs[t]:
                    names.obj(o)
            for f in w.fluents:
                names.fl(f)
            for p in w.params:
                names.par(p)
            for f in w.ifuns:
                names.ifun(f)
            for v in w.free_vars:
                names.var(v)
            S = Simplifier(w.env, w.problem)
            # History family (seeded change C11-6): a SECOND problem of the same environment — same fluents, actions, initial
            # values and user types, but the type T3 (object-less in w.problem) HAS an object here.  Both simplifiers live in the
            # same process and are used alternately on the same expressions; every result is judged by the model with the tables
            # of ITS problem (c_empty, object table, static table, interpretations over ITS objects), so what one problem's
            # simplifier learnt about a type must not leak into the other's answers.
            from unified_planning.model import Object as _Object, Variable as _Variable
            pb2 = w.problem.clone()
            pb2.name = "w2"
            e0 = _Object("e0", w.T3, w.env)
            pb2.add_object(e0)
            b4v = bool(wi % 2)
            pb2.set_initial_value(w.f4(e0), b4v)
            S2 = Simplifier(w.env, pb2)
            static2 = pb2.get_static_fluents()
            assert static2 == w.static and not list(w.problem.objects(w.T3)) and list(pb2.objects(w.T3)) == [e0]
            # even worlds: the problem where T3 has objects answers first, then the one where it has none; odd worlds: reverse
            order = (None, "w2", "w") if wi % 2 == 0 else (None, "w", "w2")
            stats["worlds_without_static_fluents"] = stats.get("worlds_without_static_fluents", 0) + int(not w.static)
            assert w.all_dynamic == (not w.static)
            objs_tab = {t: w.objects_of(t) for t in w.all_types() + [w.T3]}
            objs_tab2 = dict(objs_tab)
            objs_tab2[w.T3] = [e0]
            # interpretations (shared by all the cases of this world); fluent domains here are too big to enumerate, so
            # sampled: random total, corner, and partial (some fluents undefined)
            interps = []
            for k in range(n_interps):
                fl, par, var, ifun = w.interp(undefined_rate=(0.15 if k % 5 == 4 else 0.0), corner=(k % 3 == 1))
                interps.append((fl, par, var, ifun))
            pre = []
            for k, (fl, par, var, ifun) in enumerate(interps):
                pre.append("Definition I%d_w%d : finterp := %s.\n" % (k, wi, ser_finterp(fl, par, var, ifun, objs_tab, names)))
            pre.append("Definition IS_w%d : list finterp := %s.\n" % (wi, glist(["I%d_w%d" % (k, wi) for k in range(n_interps)])))
            # the same interpretations over the objects of the second problem (+ a value for b4(e0): its initial value when b4 is static)
            interps2 = []
            for k, (fl, par, var, ifun) in enumerate(interps):
                fl2 = dict(fl)
                if not (k % 5 == 4 and w.f4 not in static2):
                    fl2[(w.f4, (e0,))] = b4v if w.f4 in static2 else (k % 2 == 0)
                interps2.append((fl2, par, var, ifun))
                # serialised as a delta of I<k>: only the b4(e0) row and the object table are new (keeps the Coq preamble small)
                delta = ser_finterp({x: y for x, y in fl2.items() if x not in fl}, {}, {}, {}, objs_tab2, names)
                pre.append(("Definition D%d_w%d : finterp := %s.\nDefinition J%d_w%d : finterp := {| f_fl := f_fl D%d_w%d ++ f_fl I%d_w%d; "
                            "f_par := f_par I%d_w%d; f_var := f_var I%d_w%d; f_ifun := f_ifun I%d_w%d; f_objs := f_objs D%d_w%d |}.\n")
                           % ((k, wi, delta) + (k, wi) * 7))
            pre.append("Definition JS_w%d : list finterp := %s.\n" % (wi, glist(["J%d_w%d" % (k, wi) for k in range(n_interps)])))
            # tables
            obj_ty = glist([gpair(gn(names.obj(o)), gn(names.ty(o.type))) for t in w.all_types() for o in w.objs[t]])
            par_ty = glist([gpair(gn(names.par(p)), gn(names.ty(p.type))) for p in w.params if p.type.is_user_type()])
            fl_ty = glist([gpair(gn(names.fl(f)), gn(names.ty(f.type))) for f in w.fluents if f.type.is_user_type()])
            anc = glist([gpair(gn(names.ty(t)), glist([gn(names.ty(a)) for a in t.ancestors])) for t in w.all_types() + [w.T3]])
            stat_rows = []
            for (f, args) in w.ground_fluents():
                if f in w.static:
                    v = w.problem.initial_value(f(*args))
                    if v is not None:
                        stat_rows.append("(%s, %s, %s)" % (gn(names.fl(f)), glist([ser_expr(em.ObjectExp(a), names) for a in args]),
                                                           ser_expr(v, names)))
            itab_rows = []
            for (f, args), v in interps[0][3].items():
                ve = em.Bool(v) if isinstance(v, bool) else em.Int(v)
                itab_rows.append("(%s, %s, %s)" % (gn(names.ifun(f)), glist([ser_expr(em.Int(a), names) for a in args]), ser_expr(ve, names)))
            pre.append("Definition OBJ_TY_w%d := %s.\nDefinition PAR_TY_w%d := %s.\nDefinition FL_TY_w%d := %s.\nDefinition ANC_w%d := %s.\n"
                       % (wi, obj_ty, wi, par_ty, wi, fl_ty, wi, anc))
            pre.append("Definition STAT_w%d : list (N * list expr * expr) := %s.\nDefinition ITAB_w%d : list (N * list expr * expr) := %s.\n"
                       % (wi, glist(stat_rows), wi, glist(itab_rows)))
            stat_rows2 = list(stat_rows)
            if w.f4 in static2:
                stat_rows2.append("(%s, %s, %s)" % (gn(names.fl(w.f4)), glist([ser_expr(em.ObjectExp(e0), names)]), ser_expr(em.Bool(b4v), names)))
            obj_ty2 = glist([gpair(gn(names.obj(o)), gn(names.ty(o.type))) for t in w.all_types() + [w.T3] for o in objs_tab2[t]
                             if o.type == t])
            pre.append("Definition OBJ_TY2_w%d := %s.\nDefinition STAT2_w%d : list (N * list expr * expr) := %s.\n"
                       % (wi, obj_ty2, wi, glist(stat_rows2)))

            first = len(cases)
            corpus = []
            if wi in (0, 1):  # fixed corpus (world 0: with static fluents, world 1: without any): the unused quantifier over
                # the object-less type, alone and inside the body of an equality elimination
                b0 = [f for f in w.fluents if f.name == "b0"][0]
                b1f = [f for f in w.fluents if f.name == "b1"][0]
                cv = w.fresh_var(w.T3)
                cu = w.fresh_var(w.T0)
                a0 = em.ObjectExp(w.objs[w.T0][0])
                corpus = [em.Forall(b0(), cv), em.Exists(em.Not(b0()), cv), em.Forall(em.Bool(False), cv), em.Exists(em.Bool(True), cv),
                          em.Exists(em.And(em.Equals(cu, a0), em.Forall(b1f(cu), cv)), cu),
                          em.Exists(em.And(em.Not(em.Exists(b1f(cu), cv)), em.Equals(a0, cu)), cu),
                          em.Exists(em.And(em.Equals(cu, a0), b1f(cu), em.Forall(em.Bool(False), cv)), cu)]
            # history corpus, FIRST in every world (no use of rng: the random stream of the other cases is unchanged): quantifiers
            # over T3 whose variable is unused / used / unused after simplification, alone and below an equality elimination
            hb0 = [f for f in w.fluents if f.name == "b0"][0]
            hb1 = [f for f in w.fluents if f.name == "b1"][0]
            hv = _Variable("h0", w.T3, w.env)
            hu = _Variable("h1", w.T0, w.env)
            ha0 = em.ObjectExp(w.objs[w.T0][0])
            hist = [em.Forall(hb0(), hv), em.Exists(em.Not(hb0()), hv), em.Forall(hb1(ha0), hv), em.Exists(hb1(em.VariableExp(w.free_vars[0])), hv),
                    em.Forall(w.f4(hv), hv), em.Exists(em.And(w.f4(hv), hb0()), hv),
                    em.Exists(em.Or(w.f4(hv), em.Not(w.f4(hv))), hv), em.Forall(em.Bool(False), hv), em.Exists(em.Bool(True), hv),
                    em.Exists(em.And(em.Equals(hu, ha0), em.Forall(hb1(hu), hv)), hu),
                    em.Forall(em.Or(hb1(hu), hb0()), hv, hu)]
            for k in range(-len(hist), per_world + len(corpus)):
                r = rng.random() if k >= 0 else 0.0
                try:
                    if k < 0:
                        e = hist[k + len(hist)]
                        tgt = True
                    elif k >= per_world:
                        e = corpus[k - per_world]
                        tgt = True
                    elif r < 0.45:
                        e = targeted(w, rng)
                        stats["targeted"] += 1
                        tgt = True
                    else:
                        tgt = False
                        scope = tuple(w.free_vars) if rng.random() < 0.35 else ()
                        d = rng.randint(2, max_depth)
                        e = w.gen_bool(d, scope) if rng.random() < 0.75 else w.gen_num(d, scope)
                except ZeroDivisionError:
                    continue
                # the second problem's simplifier: on every expression that quantifies over T3 and on every 8th other one
                two = k < 0 or k % 8 == 0 or binds_type(e, w.T3)
                for variant in order:
                    if variant == "w2" and not two:
                        continue
                    with_problem = variant is not None
                    simp = {None: (lambda x: x.simplify()), "w": S.simplify, "w2": S2.simplify}[variant]
                    exc = None
                    try:
                        o1 = simp(e)
                        o2 = simp(o1)
                    except (ZeroDivisionError, AssertionError) as ex:
                        o1 = o2 = None
                        exc = type(ex).__name__
                    except BaseException as ex:  # any other exception is a failure of the property on this input
                        ctx.fail("impl-exception", "simplify raised %s on a well-typed expression" % type(ex).__name__,
                                 ["c11", "exception:" + type(ex).__name__] + sorted("op:" + x for x in op_kinds(e)),
                                 {"expression": str(e), "with_problem": with_problem, "exception": repr(ex)}, True)
                        continue
                    stats["expressions"] += 1
                    stats["with_problem"] += int(with_problem)
                    stats["second_problem_same_env"] = stats.get("second_problem_same_env", 0) + int(variant == "w2")
                    if o1 is None:
                        stats["raised_div0"] += 1
                    elif o1 != e:
                        stats["changed"] += 1
                    ok_ = op_kinds(e)
                    for x, c in ok_.items():
                        stats["ops"][x] = stats["ops"].get(x, 0) + c
                    dd = depth_of(e)
                    stats["depth"][dd] = stats["depth"].get(dd, 0) + 1
                    if o1 is not None:
                        stats["out_kind"][o1.node_type.name] = stats["out_kind"].get(o1.node_type.name, 0) + 1
                        if "EXISTS" in ok_ and op_kinds(o1).get("EXISTS", 0) < ok_["EXISTS"]:
                            stats["exists_eliminations"] += 1
                    if scope_has_free(e, w):
                        stats["free_var_exprs"] += 1
                    n_ops = sum(c for x, c in ok_.items() if not x.endswith("CONSTANT") and x not in ("OBJECT_EXP", "PARAM_EXP", "VARIABLE_EXP"))
                    if n_ops >= 3 and o1 != e:
                        nontrivial.add((str(e), with_problem))
                    g = ("{| c_obj_ty := OBJ_TY%s_w%d; c_par_ty := PAR_TY_w%d; c_fl_ty := FL_TY_w%d; c_if_ty := []; c_anc := ANC_w%d; c_tau := %s; c_empty := %s; "
                         "c_stat := %s; c_itab := ITAB_w%d; c_e := %s; c_out := %s; c_out2 := %s; c_interps := %s_w%d |}") % (
                        "2" if variant == "w2" else "", wi, wi, wi, wi, glist([gpair(gn(names.var(v)), gn(names.ty(v.type))) for v in all_vars(e)]),
                        glist([gn(names.ty(w.T3))]) if variant == "w" else "[]",
                        {None: "NOSTAT", "w": "STAT_w%d" % wi, "w2": "STAT2_w%d" % wi}[variant], wi, ser_expr(e, names),
                        gopt(None if o1 is None else ser_expr(o1, names)), gopt(None if o2 is None else ser_expr(o2, names)),
                        "JS" if variant == "w2" else "IS", wi)
                    cases.append(g)
                    raw.append({"world": wi, "expression": e, "with_problem": with_problem, "variant": variant, "history": list(order), "out": o1, "out2": o2, "exception": exc,
                                "targeted": tgt})
            worlds[wi] = ({"w": w, "names": names, "interps": interps, "objs_tab": objs_tab, "interps2": interps2, "objs_tab2": objs_tab2})
            all_pre.append("".join(pre))
            # coverage: how many (expression, interpretation) pairs are defined (python reference evaluator, sample)
            mine = raw[first:]
            for c in mine[:: max(1, len(mine) // 40)]:
                for (fl, par, var, ifun) in interps:
                    stats["total_evals"] += 1
                    if py_eval(c["expression"], (fl, par, var, ifun, objs_tab)) is not None:
                        stats["defined_evals"] += 1
            if len(samples) < 4:
                for c in mine[:2]:
                    samples.append({"expression": str(c["expression"]), "with_problem": c["with_problem"], "simplified": str(c["out"])})
        # one evaluation inside Coq for all the worlds (two shards = two coqc processes)
        preamble = "Definition NOSTAT : list (N * list expr * expr) := [].\n" + "".join(all_pre)
        bad = ctx.coq_failing(cases, "ok", imports=IMPORTS, preamble=preamble, shard=max(40, (len(cases) + 1) // 2), ty="case")
        total_cases += len(cases)
        # the model's components for all the failing cases of the batch, in one Coq run
        comps_of = {}
        if bad:
            import re as _re
            body = preamble + "".join(
                ("Definition c_%d : case := %s.\nEval vm_compute in (ok_struct c_%d, ok_value c_%d, ok_fv c_%d, ok_idem c_%d, hyp_ok c_%d, "
                 "model_out c_%d, model_raises c_%d, model_div0 c_%d).\n") % ((i, cases[i]) + (i,) * 8) for i in bad)
            try:
                out = ctx.coq_run(body, ["UPV.Base.Cases"] + IMPORTS)
                parts = _re.split(r"^\s*= ", out, flags=_re.M)[1:]
                for i, part in zip(bad, parts):
                    comps_of[i] = "= " + " ".join(part.split())[:4000]
            except Exception as ex:  # keep going: the Python oracle still classifies the cases
                comps_of = {i: "coq error: %s" % str(ex)[-300:] for i in bad}
        for i in bad:
            c = raw[i]
            wc = worlds[c["world"]]
            w, names, interps, objs_tab = wc["w"], wc["names"], wc["interps"], wc["objs_tab"]
            if c["variant"] == "w2":   # judged over the objects / interpretations of the second problem
                interps, objs_tab = wc["interps2"], wc["objs_tab2"]
            e, o1, o2 = c["expression"], c["out"], c["out2"]
            comps = comps_of.get(i, "")
            # the property itself, decided by the independent Python evaluator on the implementation's output
            prop_fails, why = False, []
            if o1 is None:
                for (fl, par, var, ifun) in interps:
                    if py_eval(e, (fl, par, var, ifun, objs_tab)) is not None:
                        prop_fails = True
                        why.append("simplify raised %s but the expression has a value" % c["exception"])
                        break
            else:
                for (fl, par, var, ifun) in interps:
                    I = (fl, par, var, ifun, objs_tab)
                    a = py_eval(e, I)
                    if a is not None and py_eval(o1, I) != a:
                        prop_fails = True
                        why.append("value changed: %s -> %s" % (a, py_eval(o1, I)))
                        break
                fv = w.env.free_vars_oracle.get_free_variables
                if not fv(o1) <= fv(e):
                    prop_fails = True
                    why.append("new free variables %s" % sorted(v.name for v in fv(o1) - fv(e)))
                if o2 != o1:
                    prop_fails = True
                    why.append("not idempotent: second pass gives %s" % o2)
            if comps.replace(" ", "").startswith("=(true,true,true,true,false"):
                # model = implementation and the property holds; only the side condition of the theorem is not met
                ctx.fail("harness", "generated expression outside the domain of simplify_sound (wfx false): %s" % e,
                         ["c11", "generator-outside-wfx"], {"expression": str(e), "coq": comps}, False)
                continue
            tags = ["c11", "with_problem" if c["with_problem"] else "no_problem"] + (["second-problem-same-env"] if c["variant"] == "w2" else []) + sorted("op:" + x for x in op_kinds(e))
            tags += ["fails:" + x.split(":")[0].replace(" ", "_") for x in why]
            tags += empty_unused_tags(e, w, objs_tab)
            if len(why) == 1 and why[0].startswith("value changed"):
                tags.append("only:value_changed")
            ctx.fail("corr" if not prop_fails else "oracle",
                     "Simplifier: %s (corr:C11:simplify / simplify_sound)" % ("; ".join(why) if why else "model and implementation disagree"),
                     tags, {"world": c["world"], "expression": str(e), "with_problem": c["with_problem"],
                            "problem": {None: "none (e.simplify())", "w": "w (type T3 has no objects)",
                                        "w2": "w2 (same environment and types as w; T3 has the object e0)"}[c["variant"]],
                            "history (order in which the simplifiers of this world are used on every expression)": c["history"],
                            "implementation": str(o1), "second_pass": str(o2), "exception": c["exception"],
                            "coq (ok_struct, ok_value, ok_fv, ok_idem, hyp_ok, model_out, model_raises, model_div0)": comps,
                            "names": names.table(), "case": cases[i][:6000],
                            "theorem_or_corr": "corr:C11:simplify"}, prop_fails)
    if not ok_proofs:
        ctx.proof_broken()
    stats["depth"] = {str(k): v for k, v in sorted(stats["depth"].items())}
    ctx.finish({
        "evaluations": total_cases,
        "distinct_nontrivial": len(nontrivial),
        "rule": "typed random expressions (depth 2..%d) and targeted shapes over a world with user types T0 > T1, T2, 14 fluents, "
                "parameters, interpreted functions, free variables; every expression simplified with and without the problem; "
                "non-trivial = at least 3 operators and the simplifier's output differs from the input (distinct by printed form); "
                "%d shared sampled interpretations per world (total random, corner values, partial)" % (max_depth, n_interps),
        "samples": samples,
        "distribution": stats,
        "exhaustive": False,
    }, "proof", assumptions=[
        "quantifiers are read strictly (every instance defined)",
        "interpretations give static fluents their initial values and respect the declared user types",
        "quantified user types have at least one object (the deviation of the problem-less simplifier on object-less types is the open finding C11-empty-type-unused-quantifier); no quantifier rebinds a variable that is in scope; fluent arguments contain no quantifier",
        "initial values of static fluents are constants",
    ])


def scope_has_free(e, w):
    return bool(w.env.free_vars_oracle.get_free_variables(e))
