"""C04 — Time-triggered and sequential validation agree on instantaneous plans.

Theorems: coq/theories/Props/C04.v.  Tie: correspondence + direct oracle — for generated instantaneous problems (the
C01 grammar) every plan up to the tier's length over the ground action instances is scheduled at random pairwise distinct
rational start times (in shuffled order, so that the time order differs from the list order); the real
TimeTriggeredPlanValidator validates the scheduled plan and the real SequentialPlanValidator validates the same action
instances in start-time order (the property oracle is their agreement); Coq recomputes both models.
"""
import json
from fractions import Fraction as F
from itertools import product

from harness import simexplore as sx
from harness.gen.problems import GenProblem, SerProblem
from harness.core import gn, glist, gpair, gbool
from harness.ser import ser_value, gqc
from harness.props import c01, c03, c05

META = {
    "level": "proof",
    "technique": "Coq proof (the time-triggered validator model on a plan of instantaneous actions with pairwise distinct start times = the sequential validator model on the same instances in start-time order: the heap loop applies singleton groups in time order, each _apply_effects on one instance is the simulator's effect loop, preconditions are read in the state before, invariants and bounded types in every state) + correspondence of both real validators on enumerated scheduled plans by vm_compute",
    "text": "The models of TimeTriggeredPlanValidator._validate and SequentialPlanValidator._validate are proved to give the same verdict on every instantaneous problem without timed effects/goals whose initial state satisfies the invariants, for every plan scheduled at pairwise distinct non-negative times; both real validators are run on all short plans of generated problems at random distinct rational times and compared with each other and with the models.",
    "note": "Trusted: Coq kernel/vm_compute, harness serialiser. Hypothesis plan_typed (Boolean fluents are only assigned Booleans). Repaired in /repo: bec5108 (bounded types), 011fe6a (invariants in the final state), 74b68a3 (same value twice), e93aea2 (forall instances). The sequential side inherits C01's grounder findings (simplified undefined read, syntactic conflict), classified with C01's classifier.",
}

IMPORTS = c03.IMPORTS + ["UPV.Planning.Temporal", "UPV.Planning.TTValidate", "UPV.Planning.TTSeq", "UPV.Corr.Corr_C05", "UPV.Corr.Corr_C04"]

DENOMS = [1, 1, 2, 3, 4, 7, 10, 1000003]


def distinct_times(rng, n):
    out = []
    while len(out) < n:
        t = F(rng.randint(0, 12 * rng.choice(DENOMS)), rng.choice(DENOMS))
        if rng.random() < 0.3 and out:                      # close to an existing time
            t = rng.choice(out) + F(1, rng.choice([2, 3, 97, 10 ** 9 + 7]))
        if t not in out:
            out.append(t)
    return out


def corpus():
    """hand-written instantaneous problems aimed at the clauses of C04 (bounded types, invariants, repeated values)"""
    from unified_planning.shortcuts import (UserType, Fluent, Object, Problem, InstantaneousAction, Variable)
    from unified_planning.environment import Environment
    out = []

    def base(label):
        env = Environment()
        tm = env.type_manager
        T = tm.UserType("T")
        p = Problem(label, env)
        o1, o2 = Object("o1", T, env), Object("o2", T, env)
        p.add_objects([o1, o2])
        return env, env.expression_manager, tm, T, p, o1, o2

    # 1. a bounded counter pushed over its bound while the goal still holds
    env, em, tm, T, p, o1, o2 = base("bounded-overflow-goal-true")
    c = Fluent("c", tm.IntType(0, 2), environment=env)
    p.add_fluent(c, default_initial_value=0)
    a = InstantaneousAction("inc", _env=env)
    a.add_increase_effect(c, 1)
    b = InstantaneousAction("dec", _env=env)
    b.add_decrease_effect(c, 1)
    p.add_action(a); p.add_action(b); p.add_goal(em.GE(c, 1))
    out.append(sx.HandProblem(p, "bounded-overflow-goal-true"))
    # 2. an invariant violated only in the last state / only in a middle state
    env, em, tm, T, p, o1, o2 = base("invariant-last-or-middle")
    f = Fluent("f", tm.BoolType(), environment=env)
    g = Fluent("g", tm.BoolType(), environment=env)
    p.add_fluent(f, default_initial_value=True); p.add_fluent(g, default_initial_value=False)
    a = InstantaneousAction("brk", _env=env)
    a.add_effect(f, False); a.add_effect(g, True)
    b = InstantaneousAction("fix", _env=env)
    b.add_effect(f, True)
    p.add_action(a); p.add_action(b); p.add_goal(g); p.add_state_invariant(f)
    out.append(sx.HandProblem(p, "invariant-last-or-middle"))
    # 3. one instance assigning the same value twice to one ground fluent (syntactically equal values)
    env, em, tm, T, p, o1, o2 = base("same-value-twice")
    y = Fluent("y", tm.IntType(0, 5), t=T, environment=env)
    p.add_fluent(y, default_initial_value=0)
    a = InstantaneousAction("a", p=T, q=T, _env=env)
    a.add_effect(y(a.parameter("p")), 3); a.add_effect(y(a.parameter("q")), 3)
    p.add_action(a); p.add_goal(em.Equals(y(o1), 3))
    out.append(sx.HandProblem(p, "same-value-twice"))
    # 4. forall effects whose instances hit one ground fluent: increases accumulate, different values conflict
    env, em, tm, T, p, o1, o2 = base("forall-same-target")
    n = Fluent("n", tm.IntType(0, 10), environment=env)
    w = Fluent("w", tm.IntType(0, 10), t=T, environment=env)
    p.add_fluent(n, default_initial_value=0); p.add_fluent(w, default_initial_value=1); p.set_initial_value(w(o2), 2)
    v = Variable("v", T, env)
    a = InstantaneousAction("sum", _env=env)
    a.add_increase_effect(n, w(v), forall=(v,))
    b = InstantaneousAction("set", _env=env)
    b.add_effect(n, w(v), forall=(v,))
    p.add_action(a); p.add_action(b); p.add_goal(em.Equals(n, 3))
    out.append(sx.HandProblem(p, "forall-same-target"))
    return out


def run(ctx):
    import unified_planning as up
    from unified_planning.engines.plan_validator import SequentialPlanValidator, TimeTriggeredPlanValidator
    from unified_planning.engines.sequential_simulator import UPSequentialSimulator
    from unified_planning.plans import SequentialPlan, TimeTriggeredPlan, ActionInstance
    from unified_planning.engines.results import ValidationResultStatus
    ok_proofs = ctx.check_props(extra=["theories/Corr/Corr_C04.v"])
    rng = ctx.rng
    nprob = 30 if ctx.quick else 250
    maxlen = 2 if ctx.quick else 3
    cap = 40 if ctx.quick else 100
    pre, cases, owners = [], [], []
    stats = {"problems": 0, "skipped": 0, "plans": 0, "tt_valid": 0, "seq_valid": 0, "agree": 0, "raised": 0,
             "lengths": {}, "time_order_differs_from_list_order": 0, "bounded_fluents": 0, "invariants": 0,
             "dropped_trivially_invalid": 0}
    nontrivial = set()
    gens = [(hp, None) for hp in sx.corpus_problems() + corpus()]
    for i in range(nprob):
        gens.append((None, {"max_actions": 2}))
    for pi, (hp, knobs) in enumerate(gens):
        gen = hp if hp is not None else GenProblem(rng, **knobs)
        problem = gen.problem
        ser = SerProblem(problem)
        try:
            sim = UPSequentialSimulator(problem)
            s0 = ser.read_state(sim.get_initial_state())
        except (up.exceptions.UPProblemDefinitionError, up.exceptions.UPUsageError):
            stats["skipped"] += 1
            continue
        stats["problems"] += 1
        stats["invariants"] += len(problem.state_invariants)
        for f in problem.fluents:
            t = f.type
            if (t.is_int_type() or t.is_real_type()) and (t.lower_bound is not None or t.upper_bound is not None):
                stats["bounded_fluents"] += 1
        pre.append((pi, "Definition P%d : problem := %s.\nDefinition M%d : metric := MNone." % (pi, ser.render(), pi)))
        insts = gen.ground_instances()
        plans = [()]
        for L in range(1, maxlen + 1):
            allp = list(product(range(len(insts)), repeat=L)) if len(insts) ** L <= 4000 else None
            if allp is None:
                allp = [tuple(rng.randrange(len(insts)) for _ in range(L)) for _ in range(cap * 4)]
            rng.shuffle(allp)
            plans += allp[:(cap * 4) // maxlen]
        for _ in range(2):
            plans.append(tuple(rng.randrange(len(insts)) for _ in range(rng.randint(4, 5))))
        seqv = SequentialPlanValidator(environment=problem.environment)
        ttv = TimeTriggeredPlanValidator(environment=problem.environment)
        recs = []
        for plan in plans:
            times = distinct_times(rng, len(plan))
            order = sorted(range(len(plan)), key=lambda k: times[k])
            ais = [ActionInstance(insts[j][0], insts[j][1]) for j in plan]
            rec = {"problem": pi, "plan": [(insts[j][0].name, [str(x) for x in insts[j][1]]) for j in plan],
                   "times": [str(t) for t in times], "raised": None}
            try:
                r1 = ttv.validate(problem, TimeTriggeredPlan([(times[k], ais[k], None) for k in range(len(plan))], problem.environment))
                rec["tt"] = r1.status == ValidationResultStatus.VALID
            except Exception as e:  # noqa
                rec["tt"] = None
                rec["raised"] = "tt:" + type(e).__name__ + ":" + str(e)[:100]
            try:
                seq_ais = [ActionInstance(insts[plan[k]][0], insts[plan[k]][1]) for k in order]
                r2 = seqv.validate(problem, SequentialPlan(seq_ais, problem.environment))
                rec["seq"] = r2.status == ValidationResultStatus.VALID
            except Exception as e:  # noqa
                rec["seq"] = None
                rec["raised"] = (rec["raised"] or "") + " seq:" + type(e).__name__ + ":" + str(e)[:100]
            recs.append((plan, times, order, rec))
        # keep every plan on which a validator says VALID or the two disagree or something raised, and a share of the rest
        keep = [r for r in recs if r[3]["tt"] or r[3]["seq"] or r[3]["raised"] or r[3]["tt"] != r[3]["seq"]]
        rest = [r for r in recs if r not in keep]
        rng.shuffle(rest)
        room = max(cap - len(keep), len(keep) * 2, 6)
        stats["dropped_trivially_invalid"] += max(0, len(rest) - room)
        for plan, times, order, rec in keep[:cap * 2] + rest[:room]:
            stats["plans"] += 1
            stats["tt_valid"] += rec["tt"] is True
            stats["seq_valid"] += rec["seq"] is True
            stats["agree"] += rec["tt"] == rec["seq"]
            stats["raised"] += rec["raised"] is not None
            stats["lengths"][len(plan)] = stats["lengths"].get(len(plan), 0) + 1
            stats["time_order_differs_from_list_order"] += order != list(range(len(plan)))
            n = ser.names
            gplan = glist([gpair(gn(n.act(insts[j][0])), glist([ser_value(sx.arg_value(x), n) for x in insts[j][1]])) for j in plan])
            cases.append("(P%d, {| c_init := %s; c_plan := %s; c_times := %s; c_tt_valid := %s; c_seq_valid := %s |})" % (
                pi, ser.ser_state(s0), gplan, glist([gqc(t) for t in times]), gbool(bool(rec["tt"])), gbool(bool(rec["seq"]))))
            owners.append((gen, ser, rec, s0, pi, [insts[plan[k]] for k in order]))
            if rec["tt"] or rec["seq"] or len(plan) >= 2:
                nontrivial.add(json.dumps(rec, default=str, sort_keys=True))
    preamble = "\n".join(t for _, t in pre) + "\n"
    codes = c05.codes_by_problem(ctx, cases, [o[4] for o in owners], pre, "fun pc => Corr_C04.code (fst pc) (snd pc)",
                                 IMPORTS, chunk=15, shard=150, label="sched")
    # the sequential side inherits C01's grounder findings: diagnose the plans on which the sequential implementation
    # differs from its model with C03's step-by-step classifier
    failing = []
    for k, ((gen, ser, rec, s0, pi, iplan), code) in enumerate(zip(owners, codes)):
        if code & 4 and not rec["raised"] and len(failing) < 1500:
            failing.append((k, pi, gen, ser, iplan))
    diag = c03.diagnose_all(ctx, failing, preamble) if failing else {}
    for k, ((gen, ser, rec, s0, pi, iplan), code) in enumerate(zip(owners, codes)):
        payload = {"case": rec, "initial_state": ser.json_state(s0), "problem_text": str(gen.problem), "code_bits": code}
        if rec["raised"]:
            tags = ["c04", "raises", rec["raised"].strip().split(":")[1]]
            # narrow shape of the known finding: only the time-triggered validator raised, a UPTypeError about an
            # ill-formed expression, the sequential validator answered INVALID, and both MODELS answer INVALID
            # (the state had already left a bounded type)
            if (rec["raised"].startswith("tt:UPTypeError") and "not well-formed" in rec["raised"] and "seq:" not in rec["raised"]
                    and rec["seq"] is False and not code & 12):
                tags += ["tt-raises", "seq-invalid", "after-bound-violation"]
            ctx.fail("oracle", "a validator raised: %s" % rec["raised"], tags, payload, True)
        elif code & 16:
            ctx.fail("corr", "generated case outside the theorem's hypotheses (generator bug)", ["c04", "hypotheses"], payload, False)
        elif code & 1:
            tags = ["c04", "tt-valid" if rec["tt"] else "tt-invalid"]
            if code & 4 and not code & 2:
                tags += ["seq-side-deviation"] + diag.get(k, ["undiagnosed"])
            elif code & 2 and not code & 4:
                tags += ["tt-side-deviation"]
            else:
                tags += ["both-sides"]
            ctx.fail("oracle", "time-triggered and sequential validators disagree (code %d)" % code, tags, payload, True)
        elif code & 8:
            ctx.fail("corr", "the two models disagree on a case where the implementations agree (theorem instance?)", ["c04", "models-disagree"], payload, False)
        elif code & 6:
            ctx.fail("corr", "both implementations agree with each other but not with the models (code %d; corr:C04)" % code,
                     ["c04", "model-drift"] + (diag.get(k, []) if code & 4 else []), payload, False)
    if not ok_proofs:
        ctx.proof_broken()
    stats["valid_ratio"] = round(stats["tt_valid"] / max(1, stats["plans"]), 3)
    ctx.finish({
        "evaluations": len(cases),
        "distinct_nontrivial": len(nontrivial),
        "rule": "generated instantaneous problems (C01 grammar) + hand corpus; all plans of length <= tier bound over ground instances (capped), the empty plan, 2 longer plans, each scheduled at random pairwise distinct rational times in shuffled order; all VALID plans kept, trivially invalid ones sampled; non-trivial = VALID for a validator or length >= 2; distinct by (problem, plan, times)",
        "samples": [o[2] for o in owners[:3]],
        "distribution": stats,
        "traces_validated_against_impl": 2 * len(cases),
    }, "proof", assumptions=["initial state satisfies invariants and bounded types (else the problem is skipped and counted)",
                             "start times pairwise distinct and non-negative"])
