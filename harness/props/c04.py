"""C04 — Time-triggered and sequential validation agree on instantaneous plans.

Theorems: coq/theories/Props/C04.v.  Tie: correspondence + direct oracle — for generated instantaneous problems (the
C01 grammar) every plan up to the tier's length over the ground action instances is scheduled at random pairwise distinct
rational start times (in shuffled order, so that the time order differs from the list order); the real
TimeTriggeredPlanValidator validates the scheduled plan and the real SequentialPlanValidator validates the same action
instances in start-time order (the property oracle is their agreement); Coq recomputes both models.
"""
import json
from fractions import Fraction as F
from itertools import product

from harness import simexplore as sx
from harness.gen.problems import GenProblem, SerProblem
from harness.core import gn, glist, gpair, gbool
from harness.ser import ser_value, gqc
from harness.props import c01, c03, c05

META = {
    "level": "proof",
    "technique": "Coq proof (the time-triggered validator model on a plan of instantaneous actions with pairwise distinct start times = the sequential validator model on the same instances in start-time order: the heap loop applies singleton groups in time order, each _apply_effects on one instance is the simulator's effect loop, preconditions are read in the state before, invariants and bounded types in every state) + correspondence of both real validators on enumerated scheduled plans by vm_compute",
    "text": "The models of TimeTriggeredPlanValidator._validate and SequentialPlanValidator._validate are proved to give the same verdict on every instantaneous problem without timed effects/goals whose initial state satisfies the invariants, for every plan scheduled at pairwise distinct non-negative times; both real validators are run on all short plans of generated problems at random distinct rational times and compared with each other and with the models.",
    "note": "Trusted: Coq kernel/vm_compute, harness serialiser. Hypothesis plan_typed (Boolean fluents are only assigned Booleans). Repaired in /repo: bec5108 (bounded types), 011fe6a (invariants in the final state), 74b68a3 (same value twice), e93aea2 (forall instances). The sequential side inherits C01's grounder findings (simplified undefined read, syntactic conflict), classified with C01's classifier.",
}

IMPORTS = c03.IMPORTS + ["UPV.Planning.Temporal", "UPV.Planning.TTValidate", "UPV.Planning.TTSeq", "UPV.Corr.Corr_C05", "UPV.Corr.Corr_C04"]

DENOMS = [1, 1, 2, 3, 4, 7, 10, 1000003]


def distinct_times(rng, n):
    out = []
    while len(out) < n:
        t = F(rng.randint(0, 12 * rng.choice(DENOMS)), rng.choice(DENOMS))
        if rng.random() < 0.3 and out:                      # close to an existing time
            t = rng.choice(out) + F(1, rng.choice([2, 3, 97, 10 ** 9 + 7]))
        if t not in out:
            out.append(t)
    return out


def corpus():
    """hand-written instantaneous problems aimed at the clauses of C04 (bounded types, invariants, repeated values)"""
    from unified_planning.shortcuts import (UserType, Fluent, Object, Problem, InstantaneousAction, Variable)
    from unified_planning.environment import Environment
    out = []

    def base(label):
        env = Environment()
        tm = env.type_manager
        T = tm.UserType("T")
        p = Problem(label, env)
        o1, o2 = Object("o1", T, env), Object("o2", T, env)
        p.add_objects([o1, o2])
        return env, env.expression_manager, tm, T, p, o1, o2

    # 1. a bounded counter pushed over its bound while the goal still holds
    env, em, tm, T, p, o1, o2 = base("bounded-overflow-goal-true")
    c = Fluent("c", tm.IntType(0, 2), environment=env)
    p.add_fluent(c, default_initial_value=0)
    a = InstantaneousAction("inc", _env=env)
    a.add_increase_effect(c, 1)
    b = InstantaneousAction("dec", _env=env)
    b.add_decrease_effect(c, 1)
    p.add_action(a); p.add_action(b); p.add_goal(em.GE(c, 1))
    out.append(sx.HandProblem(p, "bounded-overflow-goal-true"))
    # 2. an invariant violated only in the last state / only in a middle state
    env, em, tm, T, p, o1, o2 = base("invariant-last-or-middle")
    f = Fluent("f", tm.BoolType(), environment=env)
    g = Fluent("g", tm.BoolType(), environment=env)
    p.add_fluent(f, default_initial_value=True); p.add_fluent(g, default_initial_value=False)
    a = InstantaneousAction("brk", _env=env)
    a.add_effect(f, False); a.add_effect(g, True)
    b = InstantaneousAction("fix", _env=env)
    b.add_effect(f, True)
    p.add_action(a); p.add_action(b); p.add_goal(g); p.add_state_invariant(f)
    out.append(sx.HandProblem(p, "invariant-last-or-middle"))
    # 3. one instance assigning the same value twice to one ground fluent (syntactically equal values)
    env, em, tm, T, p, o1, o2 = base("same-value-twice")
    y = Fluent("y", tm.IntType(0, 5), t=T, environment=env)
    p.add_fluent(y, default_initial_value=0)
    a = InstantaneousAction("a", p=T, q=T, _env=env)
    a.add_effect(y(a.parameter("p")), 3); a.add_effect(y(a.parameter("q")), 3)
    p.add_action(a); p.add_goal(em.Equals(y(o1), 3))
    out.append(sx.HandProblem(p, "same-value-twice"))
    # 4. forall effects whose instances hit one ground fluent: increases accumulate, different values conflict
    env, em, tm, T, p, o1, o2 = base("forall-same-target")
    n = Fluent("n", tm.IntType(0, 10), environment=env)
    w = Fluent("w", tm.IntType(0, 10), t=T, environment=env)
    p.add_fluent(n, default_initial_value=0); p.add_fluent(w, default_initial_value=1); p.set_initial_value(w(o2), 2)
    v = Variable("v", T, env)
    a = InstantaneousAction("sum", _env=env)
    a.add_increase_effect(n, w(v), forall=(v,))
    b = InstantaneousAction("set", _env=env)
    b.add_effect(n, w(v), forall=(v,))
    p.add_action(a); p.add_action(b); p.add_goal(em.Equals(n, 3))
    out.append(sx.HandProblem(p, "forall-same-target"))
    # 5./6. one-sided bounds: a plan can leave the bound in the middle and come back, or leave it at the end
    for label, mk in (("lower-only-int", lambda: tm.IntType(0, None)), ("upper-only-real", lambda: tm.RealType(None, F(3, 2)))):
        env, em, tm, T, p, o1, o2 = base(label)
        h = Fluent("h", mk(), environment=env)
        g = Fluent("g", tm.BoolType(), environment=env)
        p.add_fluent(h, default_initial_value=0 if label == "lower-only-int" else 1)
        p.add_fluent(g, default_initial_value=False)
        up_, dn = InstantaneousAction("up", _env=env), InstantaneousAction("down", _env=env)
        up_.add_increase_effect(h, 1); up_.add_effect(g, True)
        dn.add_decrease_effect(h, 1); dn.add_effect(g, True)
        p.add_action(up_); p.add_action(dn); p.add_goal(g)
        out.append(sx.HandProblem(p, label))
    return out


def param_order_corpus():
    """Actions that share parameter NAMES (hence hash-consed parameter sub-expressions) in different orders / with different
    types, so that plans call them with identical actual-argument tuples; and two problems sharing the same action objects,
    validated by ONE validator instance of each kind (state carried across validate() calls): A, then B, then A again."""
    from unified_planning.shortcuts import Fluent, Object, Problem, InstantaneousAction
    from unified_planning.environment import Environment
    from unified_planning.engines.plan_validator import SequentialPlanValidator, TimeTriggeredPlanValidator
    out = []

    def robots(env, label, start_at, goal_at, actions=None):
        tm, em = env.type_manager, env.expression_manager
        Loc, Robot = tm.UserType("Loc"), tm.UserType("Robot")
        p = Problem(label, env)
        r1 = Object("r1", Robot, env)
        l1, l2 = Object("l1", Loc, env), Object("l2", Loc, env)
        p.add_objects([r1, l1, l2])
        at = Fluent("at", tm.BoolType(), r=Robot, l=Loc, environment=env)
        visited = Fluent("visited", tm.BoolType(), l=Loc, environment=env)
        fuel = Fluent("fuel", tm.IntType(0, 3), r=Robot, environment=env)
        p.add_fluent(at, default_initial_value=False); p.add_fluent(visited, default_initial_value=False)
        p.add_fluent(fuel, default_initial_value=2)
        p.set_initial_value(at(r1, l1 if start_at == "l1" else l2), True)
        if actions is None:
            go = InstantaneousAction("go", r=Robot, frm=Loc, to=Loc, _env=env)
            back = InstantaneousAction("back", r=Robot, to=Loc, frm=Loc, _env=env)        # same names, other order
            for a in (go, back):
                r, frm, to = a.parameter("r"), a.parameter("frm"), a.parameter("to")
                a.add_precondition(at(r, frm))                                                # the very same FNode in both actions
                a.add_precondition(em.Not(em.Equals(frm, to)))
                a.add_effect(at(r, frm), False); a.add_effect(at(r, to), True)
            go.add_effect(visited(go.parameter("to")), True)
            go.add_decrease_effect(fuel(go.parameter("r")), 1)
            back.add_precondition(em.GE(fuel(back.parameter("r")), 1))
            actions = [go, back]
        for a in actions:
            p.add_action(a)
        p.add_goal(at(r1, l1 if goal_at == "l1" else l2))
        return p, actions

    p, _ = robots(Environment(), "param-order-robots", "l1", "l1")
    p.add_goal(p.fluent("visited")(p.object("l2")))
    out.append(sx.HandProblem(p, "param-order-robots"))
    # same names, permuted, plus a parameter of another type under a shared name
    env = Environment()
    tm, em = env.type_manager, env.expression_manager
    T = tm.UserType("T")
    p = Problem("param-order-copy", env)
    o1, o2 = Object("o1", T, env), Object("o2", T, env)
    p.add_objects([o1, o2])
    w = Fluent("w", tm.IntType(0, 4), x=T, environment=env)
    p.add_fluent(w, default_initial_value=1); p.set_initial_value(w(o2), 2)
    mv = InstantaneousAction("mv", a=T, b=T, _env=env)
    mv.add_precondition(em.LT(w(mv.parameter("a")), w(mv.parameter("b"))))
    mv.add_effect(w(mv.parameter("a")), w(mv.parameter("b")))
    mv2 = InstantaneousAction("mv2", b=T, a=T, _env=env)
    mv2.add_precondition(em.LT(w(mv2.parameter("a")), w(mv2.parameter("b"))))
    mv2.add_effect(w(mv2.parameter("a")), em.Plus(w(mv2.parameter("b")), 1))
    bump = InstantaneousAction("bump", a=T, b=tm.IntType(1, 2), _env=env)                    # name b, another type
    bump.add_increase_effect(w(bump.parameter("a")), bump.parameter("b"))
    for a in (mv, mv2, bump):
        p.add_action(a)
    p.add_goal(em.GE(w(o1), 2))
    out.append(sx.HandProblem(p, "param-order-copy"))
    # two problems, the same action objects, one validator instance of each kind: A, B, A again
    env = Environment()
    pa, acts = robots(env, "shared-actions-A", "l1", "l2")
    pb, _ = robots(env, "shared-actions-B", "l2", "l1", actions=acts)
    validators = (SequentialPlanValidator(environment=env), TimeTriggeredPlanValidator(environment=env))
    for q, label in ((pa, "shared-actions-A"), (pb, "shared-actions-B"), (pa, "shared-actions-A-again")):
        hp = sx.HandProblem(q, label)
        hp.validators = validators
        out.append(hp)
    return out


# ---------------------------------------------------------------------- small "meta" problems (half-bounded types, simulated effects)
OPS = {"<=": lambda a, b: a <= b, ">=": lambda a, b: a >= b, "==": lambda a, b: a == b}


def meta_problem(rng, with_sim):
    """A parameterless instantaneous problem described by plain Python data (the input of `interpret`) and built through
    the real API.  Numeric fluents are fully bounded, lower-only, upper-only (int and real) or unbounded; with_sim adds
    simulated effects (on bounded and unbounded fluents, alone or next to ordinary effects on other fluents)."""
    kinds = [("int", 0, 3), ("int", 0, None), ("int", None, 3), ("real", None, F(5, 2)), ("real", F(-1), None), ("int", None, None)]
    rng.shuffle(kinds)
    fl = {}
    for i, (k, lo, hi) in enumerate(kinds[:rng.randint(2, 4)]):
        init = rng.choice([v for v in (F(0), F(1), F(2)) if (lo is None or lo <= v) and (hi is None or v <= hi)])
        fl["n%d" % i] = (k, lo, hi, init if k == "real" else int(init))
    fl["g"] = ("bool", None, None, False)
    nums = [f for f in fl if fl[f][0] != "bool"]
    acts = []
    for ai in range(rng.randint(2, 3)):
        act = {"name": "a%d" % ai, "pre": [], "effs": [], "sim": None}
        if rng.random() < 0.3:
            act["pre"].append((rng.choice(nums), rng.choice(["<=", ">="]), rng.randint(0, 2)))
        targets = rng.sample(nums, rng.randint(1, min(2, len(nums))))
        sim_targets = []
        if with_sim and rng.random() < 0.8:
            sim_targets = targets[:1] if rng.random() < 0.7 else targets
        for f in targets:
            if f in sim_targets:
                continue
            step = rng.choice([1, 2]) if fl[f][0] == "int" else rng.choice([F(1), F(3, 2)])
            act["effs"].append((f, rng.choice(["inc", "inc", "dec", "assign"]), step))
        if sim_targets:
            deltas = [rng.choice([1, 2, -1, -2]) for _ in sim_targets]
            src = rng.choice(nums)
            mode = rng.choice(["add", "add", "copy"])
            act["sim"] = (list(sim_targets), mode, deltas, src)
        if rng.random() < 0.5 or ai == 0:
            act["effs"].append(("g", "assign", True))
        acts.append(act)
    goal = [("g", "==", True)] if rng.random() < 0.8 else [(rng.choice(nums), ">=", 0)]
    return {"fluents": fl, "actions": acts, "goal": goal}


def interpret(meta, plan):
    """Independent interpreter of the documented sequential semantics for meta problems: preconditions in the pre-state,
    simulated + ordinary effects evaluated in the pre-state, bounded types (also one-sided) in every successor, goals
    in the final state.  plan: action names in execution order.  Returns True (VALID) / False."""
    fl = meta["fluents"]
    st = {f: v[3] for f, v in fl.items()}
    by_name = {a["name"]: a for a in meta["actions"]}

    def in_bounds(state):
        for f, (k, lo, hi, _) in fl.items():
            if k != "bool" and ((lo is not None and state[f] < lo) or (hi is not None and state[f] > hi)):
                return False
        return True
    if not in_bounds(st):
        return None
    for name in plan:
        a = by_name[name]
        if not all(OPS[op](st[f], c) for f, op, c in a["pre"]):
            return False
        new = dict(st)
        if a["sim"] is not None:
            targets, mode, deltas, src = a["sim"]
            for t, d in zip(targets, deltas):
                new[t] = (st[t] if mode == "add" else st[src]) + d
        for f, kind, c in a["effs"]:
            new[f] = c if kind == "assign" else (st[f] + c if kind == "inc" else st[f] - c)
        if not in_bounds(new):
            return False
        st = new
    return all(OPS[op](st[f], c) for f, op, c in meta["goal"])


def build_meta(meta):
    """the same problem through the real API"""
    from unified_planning.environment import Environment
    from unified_planning.model import Fluent, Problem, InstantaneousAction
    from unified_planning.model.effect import SimulatedEffect
    import warnings
    env = Environment()
    tm, em = env.type_manager, env.expression_manager
    p = Problem("meta", env)
    fexp = {}
    for f, (k, lo, hi, init) in meta["fluents"].items():
        ty = tm.BoolType() if k == "bool" else (tm.IntType(lo, hi) if k == "int" else tm.RealType(lo, hi))
        fo = Fluent(f, ty, environment=env)
        p.add_fluent(fo, default_initial_value=init)
        fexp[f] = fo()
    cmp_ = {"<=": em.LE, ">=": em.GE, "==": em.Equals}

    def cond(f, op, c):
        if meta["fluents"][f][0] == "bool":
            return fexp[f] if c else em.Not(fexp[f])
        return cmp_[op](fexp[f], c)

    def const(f, v):
        k = meta["fluents"][f][0]
        return em.Bool(v) if k == "bool" else (em.Int(int(v)) if k == "int" else em.Real(F(v)))
    for a in meta["actions"]:
        act = InstantaneousAction(a["name"], _env=env)
        for f, op, c in a["pre"]:
            act.add_precondition(cond(f, op, c))
        for f, kind, c in a["effs"]:
            if kind == "assign":
                act.add_effect(fexp[f], const(f, c))
            elif kind == "inc":
                act.add_increase_effect(fexp[f], const(f, c))
            else:
                act.add_decrease_effect(fexp[f], const(f, c))
        if a["sim"] is not None:
            targets, mode, deltas, src = a["sim"]

            def fun(problem, state, params, targets=targets, mode=mode, deltas=deltas, src=src):
                out = []
                for t, d in zip(targets, deltas):
                    base = state.get_value(fexp[t] if mode == "add" else fexp[src]).constant_value()
                    out.append(const(t, base + d))
                return out
            with warnings.catch_warnings():
                warnings.simplefilter("ignore")
                act.set_simulated_effect(SimulatedEffect([fexp[t] for t in targets], fun))
        p.add_action(act)
    for f, op, c in meta["goal"]:
        p.add_goal(cond(f, op, c))
    return p


def meta_well_typed(meta):
    """copy-mode simulated effects must give an integer to an integer fluent"""
    for a in meta["actions"]:
        if a["sim"] is not None:
            targets, mode, deltas, src = a["sim"]
            if mode == "copy" and any(meta["fluents"][t][0] == "int" and meta["fluents"][src][0] == "real" for t in targets):
                return False
    return True


def direct_oracle_family(ctx, stats, nprob, maxlen):
    """instantaneous problems with simulated effects: outside the Coq models, judged by the agreement of the two REAL
    validators, with `interpret` saying which verdict is right"""
    from unified_planning.engines.plan_validator import SequentialPlanValidator, TimeTriggeredPlanValidator
    from unified_planning.plans import SequentialPlan, TimeTriggeredPlan, ActionInstance
    from unified_planning.engines.results import ValidationResultStatus
    import warnings
    rng = ctx.rng
    d = stats["direct_oracle_only"] = {"problems": 0, "plans": 0, "valid": 0, "agree": 0, "sim_on_bounded": 0, "sim_on_unbounded": 0,
                                       "sim_with_ordinary_effects": 0}
    done = 0
    while done < nprob:
        meta = meta_problem(rng, with_sim=True)
        if not meta_well_typed(meta) or not any(a["sim"] for a in meta["actions"]):
            continue
        done += 1
        p = build_meta(meta)
        d["problems"] += 1
        for a in meta["actions"]:
            if a["sim"]:
                for t in a["sim"][0]:
                    k, lo, hi, _ = meta["fluents"][t]
                    d["sim_on_bounded" if (lo is not None or hi is not None) else "sim_on_unbounded"] += 1
                d["sim_with_ordinary_effects"] += bool(a["effs"])
        names = [a["name"] for a in meta["actions"]]
        plans = [()]
        for L in range(1, maxlen + 1):
            plans += list(product(names, repeat=L))
        rng.shuffle(plans)
        acts = {a.name: a for a in p.actions}
        with warnings.catch_warnings():
            warnings.simplefilter("ignore")
            for plan in plans[:30 if ctx.quick else 60]:
                times = distinct_times(rng, len(plan))
                order = sorted(range(len(plan)), key=lambda k: times[k])
                right = interpret(meta, [plan[k] for k in order])
                rec = {"meta": meta, "plan": list(plan), "times": [str(t) for t in times], "expected": right, "raised": None}
                try:
                    r1 = TimeTriggeredPlanValidator(environment=p.environment).validate(
                        p, TimeTriggeredPlan([(times[k], ActionInstance(acts[plan[k]]), None) for k in range(len(plan))], p.environment))
                    rec["tt"] = r1.status == ValidationResultStatus.VALID
                except Exception as e:  # noqa
                    rec["tt"], rec["raised"] = None, "tt:" + type(e).__name__ + ":" + str(e)[:100]
                try:
                    r2 = SequentialPlanValidator(environment=p.environment).validate(
                        p, SequentialPlan([ActionInstance(acts[plan[k]]) for k in order], p.environment))
                    rec["seq"] = r2.status == ValidationResultStatus.VALID
                except Exception as e:  # noqa
                    rec["seq"], rec["raised"] = None, (rec["raised"] or "") + " seq:" + type(e).__name__ + ":" + str(e)[:100]
                d["plans"] += 1
                d["valid"] += right is True
                d["agree"] += rec["tt"] == rec["seq"]
                payload = {"case": rec, "problem_text": str(p)}
                if rec["raised"]:
                    ctx.fail("oracle", "a validator raised on a problem with simulated effects: %s" % rec["raised"],
                             ["c04", "simulated-effects", "raises"], payload, True)
                elif rec["tt"] != rec["seq"]:
                    wrong = "tt-wrong" if rec["tt"] != right else "seq-wrong"
                    ctx.fail("oracle", "time-triggered (%s) and sequential (%s) validators disagree on a problem with simulated effects; "
                             "the independent interpreter says %s" % (rec["tt"], rec["seq"], right),
                             ["c04", "simulated-effects", wrong], payload, True)
                elif rec["tt"] != right:
                    ctx.fail("corr", "both validators agree (%s) but the independent interpreter says %s (interpreter or both validators wrong)"
                             % (rec["tt"], right), ["c04", "simulated-effects", "interpreter-differs"], payload, False)
    return d["plans"]


def half_bounded_family(rng, n):
    """meta problems without simulated effects as HandProblems (they go through the Coq models like every other problem)"""
    out = []
    while len(out) < n:
        meta = meta_problem(rng, with_sim=False)
        if not any(v[0] != "bool" and (v[1] is None) != (v[2] is None) for v in meta["fluents"].values()):
            continue
        out.append(sx.HandProblem(build_meta(meta), "half-bounded-%d" % len(out)))
    return out


def aliasing_family(rng, n):
    """Problems whose actions have several parameters of ONE user type and, per parameter, an effect of the same kind
    (increase / decrease / assignment) with the same amount (optionally under the same condition) on the same fluent
    applied to that parameter.  The ground instances include the aliasing ones (draw(o1, o1): the same object for two
    parameters), where the substituted effects coincide syntactically: increases/decreases must accumulate (+2, not +1),
    equal assignments are one assignment.  Bounds are tight and goals are equalities / thresholds on the counter, so
    that +k and +2k give different verdicts.  The first problem is the canonical one (two increases of 1); the others
    are random.  They go through the Coq models like every other problem (HandProblem)."""
    from unified_planning.shortcuts import Fluent, Object, Problem, InstantaneousAction
    from unified_planning.environment import Environment
    out = []
    for i in range(n):
        env = Environment()
        tm, em = env.type_manager, env.expression_manager
        T = tm.UserType("T")
        label = "aliasing-%d" % i
        p = Problem(label, env)
        objs = [Object("o%d" % (k + 1), T, env) for k in range(2)]
        p.add_objects(objs)
        real = i > 0 and rng.random() < 0.25
        upper = 3 if i == 0 else rng.choice([2, 3, 4, 6])
        lower = 0 if i == 0 else rng.choice([0, 0, -2])
        pts = Fluent("pts", tm.RealType(F(lower), F(upper)) if real else tm.IntType(lower, upper), t=T, environment=env)
        init = 0 if i == 0 else rng.randint(max(lower, 0), min(upper, 2))
        p.add_fluent(pts, default_initial_value=init)
        on = Fluent("on", tm.BoolType(), environment=env)
        p.add_fluent(on, default_initial_value=(i == 0 or rng.random() < 0.7))
        nact = 2 if i == 0 else rng.randint(1, 2)
        for ai in range(nact):
            npar = 2 if (i == 0 or rng.random() < 0.8) else 3
            a = InstantaneousAction("act%d" % ai, _env=env, **{"p%d" % k: T for k in range(npar)})
            kind = "inc" if (i == 0 and ai == 0) else ("dec" if i == 0 else rng.choice(["inc", "inc", "dec", "dec", "assign"]))
            amount = 1 if i == 0 else (rng.choice([F(1, 2), F(1), F(3, 2)]) if real else rng.choice([1, 1, 2]))
            cond = em.TRUE() if (i == 0 or rng.random() < 0.6) else (on() if rng.random() < 0.7 else em.GE(pts(a.parameters[0]), 1))
            hit = list(a.parameters) if (i == 0 or rng.random() < 0.8) else list(a.parameters)[:2]
            for par in hit:
                tgt = pts(par)
                if kind == "inc":
                    a.add_increase_effect(tgt, amount, cond)
                elif kind == "dec":
                    a.add_decrease_effect(tgt, amount, cond)
                else:
                    a.add_effect(tgt, amount, cond)
            if i > 0 and rng.random() < 0.3:
                a.add_effect(on, rng.random() < 0.5)
            p.add_action(a)
        goal_v = 2 if i == 0 else (rng.choice([F(1, 2), F(1), F(3, 2), F(2), F(3)]) if real else rng.randint(lower, upper))
        mk = em.Equals if (i == 0 or rng.random() < 0.6) else rng.choice([em.GE, em.LE])
        p.add_goal(mk(pts(objs[0]), goal_v))
        out.append(sx.HandProblem(p, label))
    return out


def run(ctx):
    import unified_planning as up
    from unified_planning.engines.plan_validator import SequentialPlanValidator, TimeTriggeredPlanValidator
    from unified_planning.engines.sequential_simulator import UPSequentialSimulator
    from unified_planning.plans import SequentialPlan, TimeTriggeredPlan, ActionInstance
    from unified_planning.engines.results import ValidationResultStatus
    ok_proofs = ctx.check_props(extra=["theories/Corr/Corr_C04.v"])
    rng = ctx.rng
    nprob = 30 if ctx.quick else 250
    maxlen = 2 if ctx.quick else 3
    cap = 40 if ctx.quick else 100
    pre, cases, owners = [], [], []
    stats = {"problems": 0, "skipped": 0, "plans": 0, "tt_valid": 0, "seq_valid": 0, "agree": 0, "raised": 0,
             "lengths": {}, "time_order_differs_from_list_order": 0, "bounded_fluents": 0, "invariants": 0,
             "dropped_trivially_invalid": 0}
    nontrivial = set()
    import random
    alias_rng = random.Random("c04-aliasing-%s" % (rng.getstate()[1][:4],))      # derived: the other families keep their draws
    gens = [(hp, None) for hp in sx.corpus_problems() + corpus() + param_order_corpus() + half_bounded_family(rng, 6 if ctx.quick else 40)
            + aliasing_family(alias_rng, 4 if ctx.quick else 30)]
    stats_alias = {"problems": 0, "aliased_instances_in_plans": 0}
    for i in range(nprob):
        gens.append((None, {"max_actions": 2}))
    for pi, (hp, knobs) in enumerate(gens):
        gen = hp if hp is not None else GenProblem(rng, **knobs)
        problem = gen.problem
        ser = SerProblem(problem)
        try:
            sim = UPSequentialSimulator(problem)
            s0 = ser.read_state(sim.get_initial_state())
        except (up.exceptions.UPProblemDefinitionError, up.exceptions.UPUsageError):
            stats["skipped"] += 1
            continue
        stats["problems"] += 1
        stats["invariants"] += len(problem.state_invariants)
        is_alias = hp is not None and hp.label.startswith("aliasing-")
        stats_alias["problems"] += is_alias
        for f in problem.fluents:
            t = f.type
            if (t.is_int_type() or t.is_real_type()) and (t.lower_bound is not None or t.upper_bound is not None):
                stats["bounded_fluents"] += 1
        pre.append((pi, "Definition P%d : problem := %s.\nDefinition M%d : metric := MNone." % (pi, ser.render(), pi)))
        insts = gen.ground_instances()
        plans = [()]
        for L in range(1, maxlen + 1):
            allp = list(product(range(len(insts)), repeat=L)) if len(insts) ** L <= 4000 else None
            if allp is None:
                allp = [tuple(rng.randrange(len(insts)) for _ in range(L)) for _ in range(cap * 4)]
            rng.shuffle(allp)
            plans += allp[:(cap * 4) // maxlen]
        for _ in range(2):
            plans.append(tuple(rng.randrange(len(insts)) for _ in range(rng.randint(4, 5))))
        if getattr(gen, "validators", None) is not None:
            seqv, ttv = gen.validators                      # one instance of each kind shared by several problems
            stats["shared_validator_problems"] = stats.get("shared_validator_problems", 0) + 1
        else:
            seqv = SequentialPlanValidator(environment=problem.environment)
            ttv = TimeTriggeredPlanValidator(environment=problem.environment)
        recs = []
        for plan in plans:
            times = distinct_times(rng, len(plan))
            order = sorted(range(len(plan)), key=lambda k: times[k])
            ais = [ActionInstance(insts[j][0], insts[j][1]) for j in plan]
            rec = {"problem": pi, "plan": [(insts[j][0].name, [str(x) for x in insts[j][1]]) for j in plan],
                   "times": [str(t) for t in times], "raised": None}
            try:
                r1 = ttv.validate(problem, TimeTriggeredPlan([(times[k], ais[k], None) for k in range(len(plan))], problem.environment))
                rec["tt"] = r1.status == ValidationResultStatus.VALID
            except Exception as e:  # noqa
                rec["tt"] = None
                rec["raised"] = "tt:" + type(e).__name__ + ":" + str(e)[:100]
            try:
                seq_ais = [ActionInstance(insts[plan[k]][0], insts[plan[k]][1]) for k in order]
                r2 = seqv.validate(problem, SequentialPlan(seq_ais, problem.environment))
                rec["seq"] = r2.status == ValidationResultStatus.VALID
            except Exception as e:  # noqa
                rec["seq"] = None
                rec["raised"] = (rec["raised"] or "") + " seq:" + type(e).__name__ + ":" + str(e)[:100]
            recs.append((plan, times, order, rec))
        # keep every plan on which a validator says VALID or the two disagree or something raised, and a share of the rest
        keep = [r for r in recs if r[3]["tt"] or r[3]["seq"] or r[3]["raised"] or r[3]["tt"] != r[3]["seq"]]
        rest = [r for r in recs if r not in keep]
        rng.shuffle(rest)
        room = max(cap - len(keep), len(keep) * 2, 6)
        stats["dropped_trivially_invalid"] += max(0, len(rest) - room)
        for plan, times, order, rec in keep[:cap * 2] + rest[:room]:
            stats["plans"] += 1
            stats["tt_valid"] += rec["tt"] is True
            stats["seq_valid"] += rec["seq"] is True
            stats["agree"] += rec["tt"] == rec["seq"]
            stats["raised"] += rec["raised"] is not None
            stats["lengths"][len(plan)] = stats["lengths"].get(len(plan), 0) + 1
            stats["time_order_differs_from_list_order"] += order != list(range(len(plan)))
            if is_alias:
                stats_alias["aliased_instances_in_plans"] += sum(len(set(insts[j][1])) < len(insts[j][1]) for j in plan)
            n = ser.names
            gplan = glist([gpair(gn(n.act(insts[j][0])), glist([ser_value(sx.arg_value(x), n) for x in insts[j][1]])) for j in plan])
            cases.append("(P%d, {| c_init := %s; c_plan := %s; c_times := %s; c_tt_valid := %s; c_seq_valid := %s |})" % (
                pi, ser.ser_state(s0), gplan, glist([gqc(t) for t in times]), gbool(bool(rec["tt"])), gbool(bool(rec["seq"]))))
            owners.append((gen, ser, rec, s0, pi, [insts[plan[k]] for k in order]))
            if rec["tt"] or rec["seq"] or len(plan) >= 2:
                nontrivial.add(json.dumps(rec, default=str, sort_keys=True))
    preamble = "\n".join(t for _, t in pre) + "\n"
    codes = c05.codes_by_problem(ctx, cases, [o[4] for o in owners], pre, "fun pc => Corr_C04.code (fst pc) (snd pc)",
                                 IMPORTS, chunk=15, shard=150, label="sched")
    # the sequential side inherits C01's grounder findings: diagnose the plans on which the sequential implementation
    # differs from its model with C03's step-by-step classifier
    failing = []
    for k, ((gen, ser, rec, s0, pi, iplan), code) in enumerate(zip(owners, codes)):
        if code & 4 and not rec["raised"] and len(failing) < 1500:
            failing.append((k, pi, gen, ser, iplan))
    diag = c03.diagnose_all(ctx, failing, preamble) if failing else {}
    for k, ((gen, ser, rec, s0, pi, iplan), code) in enumerate(zip(owners, codes)):
        payload = {"case": rec, "initial_state": ser.json_state(s0), "problem_text": str(gen.problem), "code_bits": code}
        if rec["raised"]:
            tags = ["c04", "raises", rec["raised"].strip().split(":")[1]]
            # narrow shape of the known finding: only the time-triggered validator raised, a UPTypeError about an
            # ill-formed expression, the sequential validator answered INVALID, and both MODELS answer INVALID
            # (the state had already left a bounded type)
            if (rec["raised"].startswith("tt:UPTypeError") and "not well-formed" in rec["raised"] and "seq:" not in rec["raised"]
                    and rec["seq"] is False and not code & 12):
                tags += ["tt-raises", "seq-invalid", "after-bound-violation"]
            ctx.fail("oracle", "a validator raised: %s" % rec["raised"], tags, payload, True)
        elif code & 16:
            ctx.fail("corr", "generated case outside the theorem's hypotheses (generator bug)", ["c04", "hypotheses"], payload, False)
        elif code & 1:
            tags = ["c04", "tt-valid" if rec["tt"] else "tt-invalid"]
            if code & 4 and not code & 2:
                tags += ["seq-side-deviation"] + diag.get(k, ["undiagnosed"])
            elif code & 2 and not code & 4:
                tags += ["tt-side-deviation"]
            else:
                tags += ["both-sides"]
            ctx.fail("oracle", "time-triggered and sequential validators disagree (code %d)" % code, tags, payload, True)
        elif code & 8:
            ctx.fail("corr", "the two models disagree on a case where the implementations agree (theorem instance?)", ["c04", "models-disagree"], payload, False)
        elif code & 6:
            ctx.fail("corr", "both implementations agree with each other but not with the models (code %d; corr:C04)" % code,
                     ["c04", "model-drift"] + (diag.get(k, []) if code & 4 else []), payload, False)
    n_direct = direct_oracle_family(ctx, stats, 8 if ctx.quick else 60, 2 if ctx.quick else 3)
    if not ok_proofs:
        ctx.proof_broken()
    stats["aliasing_family"] = stats_alias
    stats["valid_ratio"] = round(stats["tt_valid"] / max(1, stats["plans"]), 3)
    ctx.finish({
        "evaluations": len(cases) + n_direct,
        "direct_oracle_only": n_direct,
        "distinct_nontrivial": len(nontrivial),
        "rule": "generated instantaneous problems (C01 grammar) + hand corpus; all plans of length <= tier bound over ground instances (capped), the empty plan, 2 longer plans, each scheduled at random pairwise distinct rational times in shuffled order; all VALID plans kept, trivially invalid ones sampled; non-trivial = VALID for a validator or length >= 2; distinct by (problem, plan, times)",
        "samples": [o[2] for o in owners[:3]],
        "distribution": stats,
        "traces_validated_against_impl": 2 * (len(cases) + n_direct),
    }, "proof", assumptions=["initial state satisfies invariants and bounded types (else the problem is skipped and counted)",
                             "start times pairwise distinct and non-negative"])
