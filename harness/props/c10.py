"""C10 — Problem kind reports every feature the problem uses.

Theorem: coq/theories/Props/C10.v  kind_covers_features : forall P, wf P -> incl (spec_features P) (kind_model P)
(Model/KindOf.v: problem descriptions, the independent syntactic extractor spec_features written from the documentation
table of problem kinds, and kind_model mirroring Problem._kind_factory / _KindFactory).
Ties (Corr/Corr_C10.v, evaluated inside Coq on every case):
  (a) correspondence  kind_model(P) = P.kind  as feature sets, for problems of class `Problem`;
  (b) direct oracle   spec_features(P) is inside the IMPLEMENTATION's kind, for generated problems (C01 grammar with
      metrics, a temporal / natural-transition extension, a targeted corpus feature x syntactic position), every
      problem of unified_planning.test.examples and the up_test_cases corpus; hierarchical / contingent / scheduling /
      multi-agent problems go through a reduced description (validated, not proved).
"""
import json
import os
import sys
import time

from harness.core import VERIF, glist, gbool
from harness import c10_ser, c10_gen

META = {
    "level": "proof",
    "technique": "Coq proof (per-feature inclusion lemmas: Boolean sub-expression search vs. OperatorsExtractor / "
                 "FreeVarsExtractor lists, static / unused fluent bookkeeping) + model/implementation correspondence and "
                 "direct property oracle on the implementation's kind by vm_compute",
    "text": "For every well-formed description of a classical/numeric/temporal Problem the Gallina mirror of _KindFactory "
            "contains every feature found by an independent syntactic extractor (one clause per documented feature); the "
            "mirror equals problem.kind on generated, targeted and shipped problems, and the extractor's features are "
            "checked directly against problem.kind, also (reduced extractor) for hierarchical, contingent, scheduling and "
            "multi-agent problems.",
    "note": "Trusted: Coq kernel/vm_compute, harness serialiser (harness/c10_ser.py), tools/gen_kind.py (feature numbering). "
            "Observed inputs of the model: type classes (TypeChecker), LinearChecker verdicts, simplified right-hand sides of "
            "continuous effects; the extractor does not read them.  Readings: disjunctive = Or/Implies (DESIGN 6.00); "
            "INT/REAL_FLUENTS do not count a numeric fluent used only in durations / action costs (test_model.py); user "
            "types of quantified variables only are not 'in the problem'.  Proved for class Problem; validated only for "
            "the other problem classes (reduced extractor).",
}

IMPORTS = ["UPV.Core.Expr", "UPV.Core.Interp", "UPV.Model.Kind", "UPV.Gen.Gen_Kind", "UPV.Model.KindOf", "UPV.Corr.Corr_C10"]

# reduced extractor: the clauses required of the classes that do not go through Problem._kind_factory unchanged
STATIC_FEATURES = ["STATIC_FLUENTS_IN_BOOLEAN_ASSIGNMENTS", "STATIC_FLUENTS_IN_NUMERIC_ASSIGNMENTS",
                   "STATIC_FLUENTS_IN_OBJECT_ASSIGNMENTS", "STATIC_FLUENTS_IN_DURATIONS", "STATIC_FLUENTS_IN_ACTIONS_COST"]


def all_feature_names():
    from unified_planning.model import problem_kind as pk
    import itertools
    return list(dict.fromkeys(itertools.chain(*pk.FEATURES.values())))


def mask_for(klass):
    names = all_feature_names()
    if klass in ("ContingentProblem", "HierarchicalProblem"):
        return names
    if klass == "SchedulingProblem":
        # SchedulingProblem has no static-fluent analysis (every fluent is treated as non-static)
        return [n for n in names if n not in STATIC_FEATURES]
    if klass == "MultiAgentProblem":
        return ["NEGATIVE_CONDITIONS", "DISJUNCTIVE_CONDITIONS", "EQUALITIES", "EXISTENTIAL_CONDITIONS", "UNIVERSAL_CONDITIONS",
                "CONDITIONAL_EFFECTS", "FORALL_EFFECTS", "INCREASE_EFFECTS", "DECREASE_EFFECTS",
                "FLAT_TYPING", "HIERARCHICAL_TYPING", "INT_FLUENTS", "REAL_FLUENTS", "OBJECT_FLUENTS", "BOUNDED_TYPES"]
    return names


def gfeats(names):
    return glist(["f_%s" % n for n in names])


def build_case(problem):
    """-> (gallina case, info dict); raises ValueError when the problem is outside what can be serialised"""
    s = c10_ser.Ser(problem)
    desc = s.render()
    kind = sorted(problem.kind.features)
    mask = [] if s.full else mask_for(s.klass)
    case = "{| c_desc := %s; c_kind := %s; c_full := %s; c_mask := %s; c_extra := %s |}" % (
        desc, gfeats(kind), gbool(s.full), gfeats(mask), gfeats(sorted(set(s.extra))))
    return case, {"class": s.klass, "full": s.full, "kind": kind, "extra": sorted(set(s.extra)), "stats": s.stats}


def load_examples():
    from unified_planning.test.examples import get_example_problems
    return [("example:%s" % n, ex.problem) for n, ex in get_example_problems().items()]


def load_up_test_cases(packages):
    """up_test_cases is a script directory (its modules import `utils` / `builtin` as top-level names)."""
    root = os.path.join(os.environ.get("UP_REPO", "/repo"), "up_test_cases")
    if not os.path.isdir(root):
        return [], "up_test_cases not found"
    out = []
    saved = list(sys.path)
    sys.path.insert(0, root)
    try:
        import importlib
        report = importlib.import_module("report")
        for pkg in packages:
            cases = report.get_test_cases_from_packages([pkg])
            for n, tc in sorted(cases.items()):
                out.append(("up_test_cases:%s:%s" % (pkg, n), tc.problem))
        return out, None
    except BaseException as e:       # the corpus is optional: record why it could not be loaded
        return out, "up_test_cases not importable: %r" % (e,)
    finally:
        sys.path[:] = saved


def run(ctx):
    import subprocess
    import unified_planning as up
    import unified_planning.shortcuts  # noqa: F401
    up.shortcuts.get_environment().credits_stream = None

    # the feature numbering comes from the regenerated Gen_Kind.v
    p = subprocess.run([sys.executable, "-W", "ignore", os.path.join(VERIF, "tools", "gen_kind.py")],
                       stdout=subprocess.PIPE, stderr=subprocess.STDOUT, text=True, timeout=300)
    if p.returncode != 0:
        ctx.fail("translator", "gen_kind.py failed closed: %s" % p.stdout.strip()[-600:], ["translator", "gen_kind.py"],
                 {"output": p.stdout[-3000:]}, False)
    ok_proofs = ctx.check_props(extra=["theories/Corr/Corr_C10.v"])

    rng = ctx.rng
    problems = []          # (label, tags, problem)
    t0 = time.time()
    for label, tags, pb in c10_gen.targeted_corpus():
        problems.append((label, ["targeted"] + tags, pb))
    n_targeted = len(problems)
    n_c01 = 120 if ctx.quick else 1500
    n_temporal = 150 if ctx.quick else 1500
    for i in range(n_c01):
        problems.append(("c01-grammar:%d" % i, ["generated", "c01-grammar"], c10_gen.gen_classical(rng, i)))
    for i in range(n_temporal):
        problems.append(("temporal-grammar:%d" % i, ["generated", "temporal-grammar"], c10_gen.gen_temporal(rng, i)))
    for label, tags, pb in c10_gen.other_classes_corpus():
        problems.append((label, ["targeted"] + tags, pb))
    for label, pb in load_examples():
        problems.append((label, ["corpus", "examples"], pb))
    pkgs = ["builtin"] if ctx.quick else ["builtin", "performance"]
    utc, utc_err = load_up_test_cases(pkgs)
    for label, pb in utc:
        problems.append((label, ["corpus", "up_test_cases"], pb))
    t_gen = time.time() - t0

    cases, infos, skipped = [], [], []
    for label, tags, pb in problems:
        try:
            c, info = build_case(pb)
        except ValueError as e:
            skipped.append((label, str(e)[:200]))
            continue
        info.update(label=label, tags=tags, name=pb.name)
        cases.append(c)
        infos.append(info)
    t_ser = time.time() - t0 - t_gen

    # few large shards (library loading dominates a coqc run); at most two coqc processes at a time
    shard = 480
    codes = []
    for base in range(0, len(cases), 2 * shard):
        codes += ctx.coq_codes(cases[base:base + 2 * shard], "code", imports=IMPORTS, shard=shard, label="c10")
    t_coq = time.time() - t0 - t_gen - t_ser
    names = all_feature_names()
    bad = [i for i, code in enumerate(codes) if code != 0]
    details = batch_details(ctx, [cases[i] for i in bad], names)
    for i, (miss, extra_model, extra_impl) in zip(bad, details):
        code = codes[i]
        info = infos[i]
        tags = ["c10", "class:" + info["class"]] + info["tags"] + ["missing:" + m for m in miss]
        payload = {"problem": info["label"], "class": info["class"], "implementation_kind": info["kind"], "code": code,
                   "required_but_missing_from_problem_kind": miss, "model_only_features": extra_model,
                   "implementation_only_features": extra_impl, "case": cases[i][:6000]}
        if code & 2:
            ctx.fail("oracle", "problem %s uses %s but problem.kind does not report it (oracle:C10:spec_features)" % (
                info["label"], ", ".join(miss)), tags + ["property-fails"], payload, True)
        elif code & 1:
            ctx.fail("corr", "kind_model differs from problem.kind on %s: model only %s, implementation only %s "
                     "(corr:C10:kind_model)" % (info["label"], extra_model, extra_impl), tags + ["model-drift"], payload, False)
        if code & 4:
            ctx.fail("corr", "serialised description of %s is not well-formed (wfb false)" % info["label"],
                     tags + ["wf"], payload, False)
        if code & 8:
            ctx.fail("proof", "spec_features not inside kind_model on %s although Props/C10 claims it" % info["label"],
                     tags + ["theorem-instance"], payload, False)
    with open(os.path.join(ctx.dir, "failures.json"), "w") as fh:       # every failing case, for triage
        json.dump([{"what": f.what, "tags": f.tags, "property_fails": f.property_fails} for f in ctx.failures], fh, indent=1)
    if not ok_proofs:
        ctx.proof_broken()

    kinds_seen = set()
    nontrivial = 0
    by_class, by_src = {}, {}
    feature_hits = {}
    for info in infos:
        by_class[info["class"]] = by_class.get(info["class"], 0) + 1
        src = "targeted" if info["tags"][0] == "targeted" else info["tags"][1]
        by_src[src] = by_src.get(src, 0) + 1
        k = tuple(info["kind"])
        for f in k:
            feature_hits[f] = feature_hits.get(f, 0) + 1
        if len(k) >= 3 and k not in kinds_seen:
            kinds_seen.add(k)
            nontrivial += 1
    never = [f for f in all_feature_names() if f not in feature_hits]
    ctx.finish({
        "evaluations": len(cases),
        "distinct_nontrivial": nontrivial,
        "rule": "a problem counts when its kind has >= 3 features and differs (as a set) from the kind of every earlier problem",
        "samples": [{"problem": i["label"], "kind": i["kind"]} for i in infos[:2] + infos[n_targeted:n_targeted + 2]],
        "distribution": {"by_class": by_class, "by_source": by_src, "targeted_corpus": n_targeted,
                         "features_never_in_any_kind": never,
                         "conditions_serialised": sum(i["stats"]["conditions"] for i in infos),
                         "effects_serialised": sum(i["stats"]["effects"] for i in infos),
                         "skipped_outside_model": skipped[:20], "skipped_count": len(skipped),
                         "up_test_cases": utc_err or ("%d problems" % len(utc)),
                         "seconds": {"generate": round(t_gen, 1), "serialise": round(t_ser, 1), "coq": round(t_coq, 1)}},
        "full_cases_model_eq_impl": sum(1 for i in infos if i["full"]),
        "reduced_cases_validated_only": sum(1 for i in infos if not i["full"]),
    }, "proof", assumptions=[
        "wf P: observed type classes agree with the declared fluent types, process effects are plain continuous effects, "
        "fluents read in assigned values / durations / costs are declared, inits + missing = size (checked per case: wfb)",
        "hierarchical / contingent / scheduling / multi-agent problems: reduced extractor, validated only"])


def batch_details(ctx, cases, names):
    """for each failing case: (required features missing from problem.kind, model-only features, implementation-only
    features), all as names; one Coq file for all of them"""
    import re
    if not cases:
        return []
    body = ""
    for j, c in enumerate(cases):
        body += "Definition c%d := %s.\nEval vm_compute in (missing c%d).\nEval vm_compute in (fst (model_diff c%d)).\n" \
                "Eval vm_compute in (snd (model_diff c%d)).\n" % (j, c, j, j, j)
    out = ctx.coq_run(body, IMPORTS, name="details")
    chunks = re.split(r"^\s*=", out, flags=re.M)[1:]
    lists = []
    for ch in chunks:
        ch = ch.split(": list", 1)[0]
        lists.append([names[int(x)] if int(x) < len(names) else "feature#" + x for x in re.findall(r"\d+", ch)])
    if len(lists) != 3 * len(cases):
        return [(["?"], ["?"], ["?"])] * len(cases)
    return [tuple(lists[3 * j:3 * j + 3]) for j in range(len(cases))]
