"""C15 — Expression type inference is sound and symmetric.

Theorems: coq/theories/Props/C15.v (about coq/theories/Walkers/TypeInfer.v, proofs in Proofs/TypeInfer_proofs.v).
Tie: correspondence — every expression is built node by node through ExpressionManager.create_node (which runs
TypeChecker.get_type); the observed outcome (type / UPTypeError / ZeroDivisionError / other) is compared inside Coq
with the model's infer_r, and the IMPLEMENTATION's type is checked inside Coq against the reference semantics on a
pool of interpretations (corners + interior points of the declared domains).  walk_equals and is_compatible_type are
called directly on every ordered pair of a universe of 21 types (exhaustive).
"""
import json
from fractions import Fraction
from itertools import product

from harness.core import gn, gz, gbool, glist, gopt, gpair
from harness.ser import Names, ser_expr, ser_value, ser_finterp, gqc
from harness.gen.exprs import World, BIG, FRACS

META = {
    "level": "proof",
    "technique": "Coq proof (interval soundness of the TypeChecker model w.r.t. the reference semantics, induction over expressions; "
                 "symmetry of equality well-formedness) + model/implementation correspondence and a semantic oracle by vm_compute",
    "text": "Theorems about a Gallina model of TypeChecker (after the exact-arithmetic and symmetric-equality repairs); the model is tied to "
            "type_checker.py / types.py by differential evaluation of node-by-node constructions inside Coq; the implementation's types are "
            "also checked directly against eval on corner and interior interpretations.",
    "note": "Trusted: Coq kernel/vm_compute, harness serialiser. No axioms. TIME appears only as an operand type of walk_equals/plus/minus "
            "(timing expressions are outside the expression IR). The variable annotation of EVar must agree with the declared variable type. "
            "Integer results are computed in Qc and converted with ceiling/floor (identity on integral bounds, lemmas zceil_zq/zfloor_zq).",
}

IMPORTS = ["UPV.Core.Expr", "UPV.Core.Eval", "UPV.Core.Interp", "UPV.Walkers.TypeInfer", "UPV.Corr.Corr_C15"]


# ---------------------------------------------------------------------------------------------- world
class W15(World):
    """World of harness/gen/exprs.py plus numeric fluents with huge / one-sided / sign-definite domains."""

    def __init__(self, rng):
        World.__init__(self, rng)
        from unified_planning.model import Fluent, Parameter
        tm = self.env.type_manager
        I, R = tm.IntType, tm.RealType
        extra = [
            Fluent("h0", I(-10 ** 30, 2 ** 64), environment=self.env),
            Fluent("n0", I(None, -1), environment=self.env),
            Fluent("n1", I(-7, -2), environment=self.env),
            Fluent("q0", R(Fraction(1, 3), None), environment=self.env),
            Fluent("q1", R(Fraction(1, 2), Fraction(7, 3)), environment=self.env),
            Fluent("q2", R(Fraction(-9, 4), Fraction(-1, 10 ** 9 + 7)), x=self.T0, environment=self.env),
            Fluent("z0", I(0, 0), environment=self.env),
            # 0 strictly inside, |lower| != |upper| (the square of a corner is then not the minimum of the square)
            Fluent("s0", I(-2, 3), environment=self.env),
        ]
        for f in extra:
            self.fluents.append(f)
            self.problem.add_fluent(f)
        self.params.append(Parameter("pn", I(-5, -1), self.env))
        self.params.append(Parameter("pq", R(Fraction(-1, 2), Fraction(3, 2)), self.env))
        self.T2 = tm.UserType("T2")
        self.T3 = tm.UserType("T3", self.T0)
        self.T4 = tm.UserType("T4", self.T1)

    def all_user_types(self):
        return [self.T0, self.T1, self.T2, self.T3, self.T4]


def ser_ty(t, names):
    if t.is_bool_type():
        return "TBool"
    if t.is_time_type():
        return "TTime"
    if t.is_int_type():
        return "(TInt %s %s)" % (gopt(None if t.lower_bound is None else gz(t.lower_bound)),
                                 gopt(None if t.upper_bound is None else gz(t.upper_bound)))
    if t.is_real_type():
        return "(TReal %s %s)" % (gopt(None if t.lower_bound is None else gqc(t.lower_bound)),
                                  gopt(None if t.upper_bound is None else gqc(t.upper_bound)))
    if t.is_user_type():
        return "(TUser %s)" % gn(names.ty(t))
    raise ValueError("type outside the model: %r" % (t,))


def ty_json(t):
    return repr(t)


def ser_env(w, names, variables):
    fl = glist([gpair(gn(names.fl(f)), gpair(glist([ser_ty(p.type, names) for p in f.signature]), ser_ty(f.type, names)))
                for f in w.fluents])
    par = glist([gpair(gn(names.par(p)), ser_ty(p.type, names)) for p in w.params])
    var = glist([gpair(gn(names.var(v)), gn(names.ty(v.type))) for v in variables])
    obj = glist([gpair(gn(names.obj(o)), gn(names.ty(o.type))) for os in w.objs.values() for o in os])
    ifun = glist([gpair(gn(names.ifun(f)), gpair(glist([ser_ty(p.type, names) for p in f.signature]),
                                                  ser_ty(f.return_type, names))) for f in w.ifuns])
    fathers = glist([gpair(gn(names.ty(t)), gn(names.ty(t.father))) for t in w.all_user_types() if t.father is not None])
    return "{| g_fl := %s; g_par := %s; g_var := %s; g_obj := %s; g_ifun := %s; g_father := %s |}" % (
        fl, par, var, obj, ifun, fathers)


# ---------------------------------------------------------------------------------------------- python reference evaluator
class Undef(Exception):
    pass


def py_eval(n, I, sc=False, var=None):
    """Reference evaluation with exact rationals (used only to classify a failing case in Python)."""
    var = var or {}
    a = n.args

    def num(x):
        v = py_eval(x, I, sc, var)
        if isinstance(v, bool) or not isinstance(v, Fraction):
            raise Undef()
        return v

    def boo(x):
        v = py_eval(x, I, sc, var)
        if not isinstance(v, bool):
            raise Undef()
        return v

    if n.is_bool_constant():
        return n.bool_constant_value()
    if n.is_int_constant() or n.is_real_constant():
        return Fraction(n.constant_value())
    if n.is_object_exp():
        return n.object()
    if n.is_parameter_exp():
        p = n.parameter()
        if p not in I["par"]:
            raise Undef()
        v = I["par"][p]
        return v if isinstance(v, bool) or not isinstance(v, (int, Fraction)) else Fraction(v)
    if n.is_variable_exp():
        if n.variable() not in var:
            raise Undef()
        return var[n.variable()]
    if n.is_fluent_exp():
        key = (n.fluent(), tuple(py_eval(x, I, sc, var) for x in a))
        if key not in I["fl"]:
            raise Undef()
        v = I["fl"][key]
        return v if isinstance(v, bool) or not isinstance(v, (int, Fraction)) else Fraction(v)
    if n.is_interpreted_function_exp():
        args = tuple(py_eval(x, I, sc, var) for x in a)
        key = (n.interpreted_function(), tuple(int(x) if isinstance(x, Fraction) and x.denominator == 1 else x for x in args))
        if key not in I["ifun"]:
            raise Undef()
        v = I["ifun"][key]
        return v if isinstance(v, bool) else Fraction(v)
    if n.is_and():
        return all([boo(x) for x in a])
    if n.is_or():
        return any([boo(x) for x in a])
    if n.is_not():
        return not boo(a[0])
    if n.is_implies():
        x, y = boo(a[0]), boo(a[1])
        return (not x) or y
    if n.is_iff():
        return boo(a[0]) == boo(a[1])
    if n.is_exists() or n.is_forall():
        stop = n.is_exists()
        doms = [I["objs"][v.type] for v in n.variables()]
        res = not stop
        for combo in product(*doms):
            v2 = dict(var)
            v2.update(dict(zip(n.variables(), combo)))
            b = py_eval(a[0], I, sc, v2)
            if not isinstance(b, bool):
                raise Undef()
            if b == stop:
                if sc:
                    return stop
                res = stop
        return res
    if n.is_plus():
        return sum([num(x) for x in a], Fraction(0))
    if n.is_times():
        r = Fraction(1)
        for x in a:
            r *= num(x)
        return r
    if n.is_minus():
        return num(a[0]) - num(a[1])
    if n.is_div():
        x, y = num(a[0]), num(a[1])
        if y == 0:
            raise Undef()
        return x / y
    if n.is_le():
        return num(a[0]) <= num(a[1])
    if n.is_lt():
        return num(a[0]) < num(a[1])
    if n.is_equals():
        x, y = py_eval(a[0], I, sc, var), py_eval(a[1], I, sc, var)
        if isinstance(x, bool) or isinstance(y, bool):
            raise Undef()
        if isinstance(x, Fraction) != isinstance(y, Fraction):
            raise Undef()
        return x == y
    raise Undef()


def py_inhabits(v, t):
    if isinstance(v, bool):
        return t.is_bool_type()
    if isinstance(v, Fraction):
        if t.is_time_type():
            return True
        if not (t.is_int_type() or t.is_real_type()):
            return False
        if t.is_int_type() and v.denominator != 1:
            return False
        if t.lower_bound is not None and v < t.lower_bound:
            return False
        if t.upper_bound is not None and v > t.upper_bound:
            return False
        return True
    return t.is_user_type() and t in list(v.type.ancestors)


# ---------------------------------------------------------------------------------------------- node-by-node builder
class Builder:
    def __init__(self, w, names):
        import unified_planning as up
        from unified_planning.model.operators import OperatorKind as OK
        self.w, self.names, self.OK = w, names, OK
        self.em = w.em
        self.variables = []

    def leaf(self, node):
        return (node, ser_expr(node, self.names))

    def ser_node(self, kind, gk, payload):
        OK, names = self.OK, self.names
        lst = glist(gk)
        if kind == OK.FLUENT_EXP:
            return "(EFluent %s %s)" % (gn(names.fl(payload)), lst)
        if kind == OK.INTERPRETED_FUNCTION_EXP:
            return "(EIFun %s %s)" % (gn(names.ifun(payload)), lst)
        if kind in (OK.EXISTS, OK.FORALL):
            vs = glist([gpair(gn(names.var(v)), gn(names.ty(v.type))) for v in payload])
            return "(%s %s %s)" % ("EExists" if kind == OK.EXISTS else "EForall", vs, gk[0])
        nary = {OK.AND: "EAnd", OK.OR: "EOr", OK.PLUS: "EPlus", OK.TIMES: "ETimes"}
        if kind in nary:
            return "(%s %s)" % (nary[kind], lst)
        fixed = {OK.NOT: "ENot", OK.IMPLIES: "EImplies", OK.IFF: "EIff", OK.MINUS: "EMinus", OK.DIV: "EDiv", OK.LE: "ELe",
                 OK.LT: "ELt", OK.EQUALS: "EEquals", OK.ALWAYS: "EAlways", OK.SOMETIME: "ESometime",
                 OK.SOMETIME_BEFORE: "ESometimeBefore", OK.SOMETIME_AFTER: "ESometimeAfter", OK.AT_MOST_ONCE: "EAtMostOnce"}
        return "(%s %s)" % (fixed[kind], " ".join(gk))

    def mk(self, kind, kids, payload=None):
        """returns (node | None, gallina, outcome) where outcome = ("ty", Type) | ("typeerr",) | ("zerodiv",) | ("other", name)"""
        from unified_planning.exceptions import UPTypeError
        g = self.ser_node(kind, [k[1] for k in kids], payload)
        try:
            n = self.em.create_node(node_type=kind, args=tuple(k[0] for k in kids), payload=payload)
            t = n.type
        except UPTypeError:
            return None, g, ("typeerr",)
        except ZeroDivisionError:
            return None, g, ("zerodiv",)
        except BaseException as e:
            return None, g, ("other", type(e).__name__)
        assert g == ser_expr(n, self.names), (g, ser_expr(n, self.names))
        return n, g, ("ty", t)


def ser_obs(out, names):
    if out[0] == "ty":
        return "(ObsTy %s)" % ser_ty(out[1], names)
    return {"typeerr": "ObsTypeErr", "zerodiv": "ObsZeroDiv", "other": "ObsOther"}[out[0]]


class Gen:
    def __init__(self, w, b, rng):
        self.w, self.b, self.rng = w, b, rng
        self.OK = b.OK

    # ---- leaves
    def const(self):
        em, rng = self.w.em, self.rng
        r = rng.random()
        if r < 0.5:
            c = rng.randint(-4, 5)
        elif r < 0.62:
            c = rng.choice(BIG + [10 ** 400, -(10 ** 320), 0])
        elif r < 0.8:
            c = rng.choice(FRACS) * rng.choice([1, -1, 2])
        else:
            c = Fraction(rng.randint(-30, 30), rng.randint(1, 12))
        if isinstance(c, int):
            return self.b.leaf(em.Int(c))
        return self.b.leaf(em.Real(Fraction(c)))

    def nonzero_const(self):
        while True:
            k = self.const()
            if k[0].constant_value() != 0:
                return k

    def obj_leaf(self, t=None):
        t = t or self.rng.choice([self.w.T0, self.w.T1])
        o = self.rng.choice(self.w.objects_of(t))
        return self.b.leaf(self.w.em.ObjectExp(o))

    def fluent_node(self, f):
        kids = [self.obj_leaf(p.type) for p in f.signature]
        n, g, out = self.b.mk(self.OK.FLUENT_EXP, kids, f)
        assert n is not None
        return (n, g)

    def num_leaf(self):
        r = self.rng.random()
        if r < 0.35:
            return self.const()
        if r < 0.5:
            p = self.rng.choice([p for p in self.w.params if p.type.is_int_type() or p.type.is_real_type()])
            return self.b.leaf(self.w.em.ParameterExp(p))
        f = self.rng.choice([f for f in self.w.fluents if f.type.is_int_type() or f.type.is_real_type()])
        return self.fluent_node(f)

    def bool_leaf(self):
        r = self.rng.random()
        if r < 0.15:
            return self.b.leaf(self.w.em.Bool(self.rng.random() < 0.5))
        if r < 0.3:
            return self.b.leaf(self.w.em.ParameterExp([p for p in self.w.params if p.type.is_bool_type()][0]))
        f = self.rng.choice([f for f in self.w.fluents if f.type.is_bool_type()])
        return self.fluent_node(f)

    def split(self, total, parts):
        """sizes >= 1 summing to total"""
        cuts = sorted(self.rng.sample(range(1, total), parts - 1)) if total > parts - 1 and parts > 1 else []
        if len(cuts) != parts - 1:
            return [1] * parts
        sizes, prev = [], 0
        for c in cuts + [total]:
            sizes.append(c - prev)
            prev = c
        return sizes

    # ---- numeric expressions of a given size; returns (kid, last outcome) ; None when a node was rejected
    def num(self, size):
        OK, rng = self.OK, self.rng
        if size <= 1:
            return self.num_leaf()
        r = rng.random()
        if r < 0.28 and size >= 3:
            k = 3 if (size >= 4 and rng.random() < 0.3) else 2
            kids = [self.num(s) for s in self.split(size - 1, k)]
            kind = OK.PLUS
        elif r < 0.45 and size >= 3:
            kids = [self.num(s) for s in self.split(size - 1, 2)]
            kind = OK.MINUS
        elif r < 0.75 and size >= 3:
            k = 3 if (size >= 4 and rng.random() < 0.3) else 2
            kids = [self.num(s) for s in self.split(size - 1, k)]
            kind = OK.TIMES
        elif size >= 3:
            if rng.random() < 0.7:
                kids = [self.num(size - 2), self.nonzero_const()]
            else:
                kids = [self.num(s) for s in self.split(size - 1, 2)]
            kind = OK.DIV
        else:
            return self.num_leaf()
        if any(k is None for k in kids):
            return None
        n, g, out = self.b.mk(kind, kids)
        self.last = (g, out)
        if n is None:
            return None
        return (n, g)


def targeted(w, b, g):
    """hand-picked shapes named in the property: 1/3, unbounded factors, negative / nested divisions, huge constants"""
    OK, em = b.OK, w.em
    F = {f.name: f for f in w.fluents}
    P = {p.name: p for p in w.params}

    def fl(name):
        f = F[name]
        kids = [b.leaf(em.ObjectExp(w.objects_of(p.type)[0])) for p in f.signature]
        n, s, out = b.mk(OK.FLUENT_EXP, kids, f)
        return (n, s)

    def c(v):
        return b.leaf(em.Int(v) if isinstance(v, int) else em.Real(Fraction(v)))

    def par(name):
        return b.leaf(em.ParameterExp(P[name]))

    out = []

    def add(kind, kids):
        if any(k is None for k in kids):
            return None
        n, s, o = b.mk(kind, kids)
        out.append((s, o, n))
        return (n, s) if n is not None else None

    add(OK.DIV, [c(1), c(3)])
    add(OK.DIV, [c(10 ** 400), c(3)])
    add(OK.DIV, [c(-7), c(Fraction(-2, 3))])
    for name in ["i0", "i1", "r0", "i2", "i3", "r1", "r2", "h0", "n0", "n1", "q0", "q1", "q2", "z0", "s0"]:
        x = fl(name)
        huge = 10 ** 400 if name in ("i0", "i2", "r1", "q0") else 2 ** 70 + 1     # 400-digit rationals are slow inside Coq
        for d in [3, -3, Fraction(1, 3), Fraction(-7, 2), huge, -(2 ** 53) - 1, 0]:
            q = add(OK.DIV, [x, c(d)])
            if q is not None and d in (3, -3, Fraction(-7, 2)):
                add(OK.DIV, [q, c(-7)])
                add(OK.DIV, [q, c(Fraction(5, 4))])
                add(OK.DIV, [c(1), q])
        for k in [0, 2, -2, Fraction(-1, 3), huge]:
            add(OK.TIMES, [x, c(k)])
            add(OK.TIMES, [c(k), x])
            add(OK.PLUS, [x, c(k)])
            add(OK.MINUS, [c(k), x])
            add(OK.MINUS, [x, c(k)])
        for other in ["i2", "r1", "r2", "n0", "z0", "n1"]:
            y = fl(other)
            add(OK.TIMES, [x, y])
            add(OK.MINUS, [x, y])
            t3 = add(OK.TIMES, [x, y, fl("n1")])
            add(OK.PLUS, [x, y, c(10 ** 30)])
            add(OK.DIV, [x, y])
        for pn in ["pi", "pr", "pn", "pq"]:
            add(OK.TIMES, [x, par(pn)])
            add(OK.DIV, [x, par(pn)])
    # quotient of quotients with a point divisor that is itself a quotient
    third = add(OK.DIV, [c(1), c(3)])
    add(OK.DIV, [fl("i0"), third])
    add(OK.DIV, [fl("n0"), add(OK.DIV, [c(-1), c(3)])])
    add(OK.TIMES, [fl("i2"), add(OK.MINUS, [c(2), c(2)])])
    add(OK.TIMES, [fl("z0"), fl("r1")])
    add(OK.TIMES, [fl("r1"), fl("z0"), fl("i2")])
    return out


def repeated(w, b, g, rng, count):
    """the same sub-expression used twice (or three times) by one operator: e*e, e*e*e, e+e, e-e, e/e, (e*e)*e, (e*e)-e ...
    for every numeric leaf e (bounded / half-bounded / unbounded / straddling 0 / sign-definite / zero-width), for small compound
    e over those leaves, and for `count` random e.  The ExpressionManager hash-conses, so the operands are the very same FNode;
    the value of such a node depends on ONE value of e, which is what an interval rule that looks at operand identity must
    still enclose (e.g. e*e is 0 when e is 0, although no corner product is 0 when 0 is strictly inside the interval of e)."""
    OK, em = b.OK, w.em
    out = []

    def add(kind, kids):
        if any(k is None for k in kids):
            return None
        n, s, o = b.mk(kind, kids)
        out.append((s, o, n))
        return (n, s) if n is not None else None

    def c(v):
        return b.leaf(em.Int(v) if isinstance(v, int) else em.Real(Fraction(v)))

    def shapes(e, full):
        sq = add(OK.TIMES, [e, e])
        add(OK.MINUS, [e, e])
        add(OK.PLUS, [e, e])
        add(OK.DIV, [e, e])
        if full:
            add(OK.TIMES, [e, e, e])
            add(OK.PLUS, [e, e, e])
            if sq is not None:
                add(OK.TIMES, [sq, e])
                add(OK.TIMES, [sq, sq])
                add(OK.MINUS, [sq, e])
                add(OK.PLUS, [sq, e, c(-1)])
                add(OK.DIV, [sq, c(-2)])

    leaves = []
    for f in w.fluents:
        if f.type.is_int_type() or f.type.is_real_type():
            kids = [b.leaf(em.ObjectExp(w.objects_of(p.type)[0])) for p in f.signature]
            n, s, o = b.mk(OK.FLUENT_EXP, kids, f)
            leaves.append((n, s))
    for p in w.params:
        if p.type.is_int_type() or p.type.is_real_type():
            leaves.append(b.leaf(em.ParameterExp(p)))
    for x in leaves:
        shapes(x, True)
        for e in (add(OK.PLUS, [x, c(1)]), add(OK.TIMES, [x, c(Fraction(-1, 2))]), add(OK.MINUS, [x, rng.choice(leaves)])):
            if e is not None:
                shapes(e, False)
    for i in range(count):
        g.last = None
        e = g.num(rng.choice([1, 1, 3, 3, 4]))
        if e is not None:
            shapes(e, rng.random() < 0.3)
    return out


def zero_point(w, fl, par):
    """the interpretation of the oracle pool in which every numeric leaf takes the value of its declared domain that is nearest
    to 0 (0 itself whenever the domain contains it: an INTERIOR point of every domain that straddles 0, which neither the
    corner interpretations nor - reliably - the random interior ones contain)"""
    def nearest(t, old):
        if not (t.is_int_type() or t.is_real_type()):
            return old
        lo, hi = t.lower_bound, t.upper_bound
        v = 0
        if lo is not None and lo > 0:
            v = lo
        if hi is not None and hi < 0:
            v = hi
        return v if t.is_int_type() else Fraction(v)
    return ({k: nearest(k[0].type, v) for k, v in fl.items()}, {p: nearest(p.type, v) for p, v in par.items()})


def ill_typed(w, b, g, rng, count):
    """operators applied to operands of arbitrary kinds: most are rejected, some accepted"""
    OK, em = b.OK, w.em
    out = []
    st = None
    try:
        from unified_planning.model.timing import StartTiming
    except Exception:
        StartTiming = None

    def rnd_operand():
        r = rng.random()
        if r < 0.3:
            return g.bool_leaf()
        if r < 0.65:
            k = g.num(rng.choice([1, 1, 3]))
            return k if k is not None else g.num_leaf()
        return g.obj_leaf(rng.choice([w.T0, w.T1]))

    unary = [OK.NOT, OK.ALWAYS, OK.SOMETIME, OK.AT_MOST_ONCE]
    binary = [OK.IMPLIES, OK.IFF, OK.MINUS, OK.DIV, OK.LE, OK.LT, OK.EQUALS, OK.SOMETIME_BEFORE, OK.SOMETIME_AFTER]
    nary = [OK.AND, OK.OR, OK.PLUS, OK.TIMES]
    for i in range(count):
        r = rng.random()
        if r < 0.12:
            kind, kids, payload = rng.choice(unary), [rnd_operand()], None
        elif r < 0.6:
            kind, kids, payload = rng.choice(binary), [rnd_operand(), rnd_operand()], None
        elif r < 0.8:
            kind, kids, payload = rng.choice(nary), [rnd_operand() for _ in range(rng.randint(2, 3))], None
        elif r < 0.9:
            f = rng.choice(w.fluents)
            if f.arity == 0:
                continue
            kind, kids, payload = OK.FLUENT_EXP, [rnd_operand() for _ in f.signature], f
        elif r < 0.97 and w.ifuns:
            f = rng.choice(w.ifuns)
            kind, kids, payload = OK.INTERPRETED_FUNCTION_EXP, [rnd_operand() for _ in f.signature], f
        else:
            v = w.fresh_var(rng.choice([w.T0, w.T1]))
            b.variables.append(v)
            kind, kids, payload = rng.choice([OK.EXISTS, OK.FORALL]), [rnd_operand()], (v,)
        n, s, o = b.mk(kind, kids, payload)
        out.append((s, o, n))
    return out


def type_universe(w):
    tm = w.env.type_manager
    I, R = tm.IntType, tm.RealType
    from unified_planning.model.types import TIME
    return [tm.BoolType(),
            I(), I(0, 10), I(-3, 3), I(11, 20), I(None, -1), I(0, None), I(5, 5),
            R(), R(Fraction(-5, 2), 5), R(None, 0), R(Fraction(1, 3), None), R(10, 11), R(5, 5), R(Fraction(21, 2), Fraction(41, 4)),
            w.T0, w.T1, w.T2, w.T3, w.T4, TIME]


def run(ctx):
    # regenerate Gen/Gen_Walkers.v (walker dispatch tables) from $UP_REPO before the theorems are re-checked
    from harness.ext._dispatch_common import prepare as _prepare_dispatch
    _prepare_dispatch(ctx)
    import time as _time
    _t0 = _time.time()
    phases = {}
    import unified_planning as up
    from unified_planning.exceptions import UPTypeError

    ok_proofs = ctx.check_props(extra=["theories/Corr/Corr_C15.v"])
    phases['proofs_s'] = round(_time.time() - _t0, 1)
    rng = ctx.rng
    w = W15(rng)
    names = Names()
    # fix the numbering of types / fluents / objects first (stable ids across a run)
    for t in w.all_user_types():
        names.ty(t)
    for f in w.fluents:
        names.fl(f)
    for os in w.objs.values():
        for o in os:
            names.obj(o)
    b = Builder(w, names)
    g = Gen(w, b, rng)

    n_rand = 700 if ctx.quick else 30000
    n_ill = 250 if ctx.quick else 5000
    n_bool = 120 if ctx.quick else 3000
    records = []          # (gallina expr, outcome, node|None, origin)
    for s, o, n in targeted(w, b, g):
        records.append((s, o, n, "targeted"))
    for i in range(n_rand):
        size = rng.choice([3, 4, 5, 5, 6, 6, 6])
        g.last = None
        k = g.num(size)
        if g.last is None:
            continue
        if k is not None:
            records.append((k[1], ("ty", k[0].type), k[0], "random-num"))
        else:
            records.append((g.last[0], g.last[1], None, "random-num-rejected"))
    for s, o, n in ill_typed(w, b, g, rng, n_ill):
        records.append((s, o, n, "operand-kinds"))
    for s, o, n in repeated(w, b, g, rng, 40 if ctx.quick else 2500):
        records.append((s, o, n, "repeated-subexpression"))
    for i in range(n_bool):
        try:
            e = w.gen_bool(rng.choice([1, 2, 3]), ())
        except ZeroDivisionError:
            continue      # the shared generator divided by an expression of type [0,0] (fluent z0): modelled outcome ZeroDiv, covered by the targeted cases
        records.append((None, ("ty", e.type), e, "random-bool"))
    # variables bound inside the random Boolean expressions must be declared in the environment
    seen_vars = {}

    def collect_vars(n, memo=set()):
        stack = [n]
        while stack:
            x = stack.pop()
            if x in memo:
                continue
            memo.add(x)
            if x.is_exists() or x.is_forall():
                for v in x.variables():
                    seen_vars[v] = True
            if x.is_variable_exp():
                seen_vars[x.variable()] = True
            stack.extend(x.args)

    recs2 = []
    for s, o, n, origin in records:
        if n is not None:
            collect_vars(n)
            if s is None:
                s = ser_expr(n, names)
        recs2.append((s, o, n, origin))
    records = recs2
    for v in b.variables:
        seen_vars[v] = True

    # de-duplicate by (expression, outcome)
    uniq, seen = [], set()
    for r in records:
        if r[0] in seen:
            continue
        seen.add(r[0])
        uniq.append(r)
    records = uniq

    # ---- pool of interpretations: corners, random interior points
    pool_py, pool_g = [], []
    n_pool = 9 if ctx.quick else 25       # corners (even i) / random interior points (odd i) / the zero point (last)
    for i in range(n_pool):
        fl, par, ifun = w.rand_interp(corner=(i % 2 == 0))
        if i == n_pool - 1:
            fl, par = zero_point(w, fl, par)      # last interior interpretation: 0 (or the value nearest to 0) for every numeric leaf
        I = {"fl": fl, "par": par, "ifun": ifun, "objs": w.objs_table()}
        pool_py.append(I)
        pool_g.append(ser_finterp(fl, par, {}, ifun, w.objs_table(), names))
    env_g = ser_env(w, names, list(seen_vars))
    preamble = "Definition G0 : tenv := %s.\nDefinition pool : list finterp := %s.\n" % (env_g, glist(pool_g))

    cases = ["{| c_expr := %s; c_obs := %s |}" % (s, ser_obs(o, names)) for s, o, n, origin in records]
    phases['generate_and_run_impl_s'] = round(_time.time() - _t0, 1)
    bad = ctx.coq_failing(cases, "(ok G0 pool)", imports=IMPORTS, preamble=preamble, shard=max(80, min(300, (len(cases) + 7) // 8)))

    phases['coq_cases_s'] = round(_time.time() - _t0, 1)
    stats = {"outcomes": {}, "origins": {}, "top_ops": {}, "sizes": {}, "result_kinds": {}}
    nontrivial = set()
    defined_evals = 0
    for s, o, n, origin in records:
        stats["outcomes"][o[0]] = stats["outcomes"].get(o[0], 0) + 1
        stats["origins"][origin] = stats["origins"].get(origin, 0) + 1
        top = s.split(" ", 1)[0].lstrip("(")
        stats["top_ops"][top] = stats["top_ops"].get(top, 0) + 1
        if n is not None:
            sz = sum(1 for _ in _nodes(n))
            stats["sizes"][sz] = stats["sizes"].get(sz, 0) + 1
            t = o[1]
            kind = ("bool" if t.is_bool_type() else "user" if t.is_user_type() else
                    ("int" if t.is_int_type() else "real") + ("[%s,%s]" % ("-inf" if t.lower_bound is None else "fin",
                                                                          "inf" if t.upper_bound is None else "fin")))
            stats["result_kinds"][kind] = stats["result_kinds"].get(kind, 0) + 1
            if sz >= 3:
                nontrivial.add(s)
        else:
            nontrivial.add(s)

    shown = [0]

    def classify(i):
        s, o, n, origin = records[i]
        tags = ["c15", "origin:" + origin, "outcome:" + o[0], "top:" + s.split(" ", 1)[0].lstrip("(")]
        prop_fails, witness = False, None
        if n is not None:
            t = o[1]
            for pi, I in enumerate(pool_py):
                for scm in (False, True):
                    try:
                        v = py_eval(n, I, scm)
                    except Undef:
                        continue
                    if not py_inhabits(v, t):
                        prop_fails, witness = True, {"pool_index": pi, "value": str(v), "short_circuit": scm}
                        break
                if prop_fails:
                    break
        model = "(not evaluated: only the first 3 failing cases show the model's answer)"
        if shown[0] < 3:
            shown[0] += 1
            model = ctx.coq_show("(infer_r G0 c, corr G0 {| c_expr := c; c_obs := %s |}, oracle G0 pool {| c_expr := c; c_obs := %s |})"
                                 % (ser_obs(o, names), ser_obs(o, names)), imports=IMPORTS,
                                 preamble=preamble + "Definition c := %s.\n" % s)
        if prop_fails:
            tags.append("value-outside-inferred-type")
            what = "the implementation's type %s of %s does not contain the value %s (oracle:C15:eval/inhabits)" % (
                o[1], n, witness["value"])
            kind = "oracle"
        else:
            what = "TypeChecker outcome %s for %s differs from the model (corr:C15:infer_r)" % (
                (str(o[1]) if o[0] == "ty" else o), n if n is not None else s[:200])
            kind = "corr"
        ctx.fail(kind, what, tags, {"expr": str(n) if n is not None else None, "gallina": s[:3000], "observed": [o[0], str(o[1]) if len(o) > 1 else None],
                                    "model_and_checks": model, "witness": witness, "names": names.table(),
                                    "theorem_or_corr": "corr:C15:infer_r / oracle:C15_infer_sound"}, prop_fails)

    for i in bad[:12]:
        classify(i)

    # ---- equality well-formedness and compatibility on all ordered pairs of the type universe (exhaustive)
    U = type_universe(w)
    tc = w.env.type_checker
    dummy = w.em.TRUE()

    def eq_accept(t1, t2):
        try:
            r = tc.walk_equals(dummy, [t1, t2])
        except UPTypeError:
            return False
        return r is not None

    eq_raw, eq_cases, comp_raw, comp_cases = [], [], [], []
    for t1 in U:
        for t2 in U:
            a12, a21 = eq_accept(t1, t2), eq_accept(t2, t1)
            eq_raw.append((t1, t2, a12, a21))
            eq_cases.append("{| q_t1 := %s; q_t2 := %s; q_obs12 := %s; q_obs21 := %s |}" % (
                ser_ty(t1, names), ser_ty(t2, names), gbool(a12), gbool(a21)))
            cv = t1.is_compatible(t2)
            comp_raw.append((t1, t2, cv))
            comp_cases.append("{| k_t1 := %s; k_t2 := %s; k_obs := %s |}" % (ser_ty(t1, names), ser_ty(t2, names), gbool(cv)))
    bad_eq = ctx.coq_failing(eq_cases, "(ok_eq G0)", imports=IMPORTS, preamble=preamble, shard=500)
    for i in bad_eq[:10]:
        t1, t2, a12, a21 = eq_raw[i]
        asym = a12 != a21
        tags = ["c15", "walk_equals", "pair:%s/%s" % (_kind(t1), _kind(t2))] + (["asymmetric-equality"] if asym else [])
        ctx.fail("corr" if not asym else "oracle",
                 "walk_equals on (%s, %s): accepted=%s, mirrored accepted=%s (corr:C15:wf_equals%s)" % (
                     t1, t2, a12, a21, "; property: symmetry violated" if asym else ""),
                 tags, {"t1": repr(t1), "t2": repr(t2), "accepted": a12, "mirrored": a21,
                        "theorem_or_corr": "C15_equals_wf_symmetric / corr:C15:wf_equals"}, asym)
    bad_comp = ctx.coq_failing(comp_cases, "(ok_comp G0)", imports=IMPORTS, preamble=preamble, shard=500)
    for i in bad_comp[:10]:
        t1, t2, cv = comp_raw[i]
        ctx.fail("corr", "is_compatible_type(%s, %s) = %s differs from the model (corr:C15:compatible)" % (t1, t2, cv),
                 ["c15", "is_compatible", "pair:%s/%s" % (_kind(t1), _kind(t2))],
                 {"t1": repr(t1), "t2": repr(t2), "observed": cv, "theorem_or_corr": "corr:C15:compatible"}, False)
    # expression-level equalities in both orders (through the ExpressionManager)
    eq_expr_asym = 0
    operands = [g.bool_leaf(), g.obj_leaf(w.T0), g.obj_leaf(w.T1)] + [g.num_leaf() for _ in range(8)]
    for x in operands:
        for y in operands:
            o1 = b.mk(b.OK.EQUALS, [x, y])[2][0] == "ty"
            o2 = b.mk(b.OK.EQUALS, [y, x])[2][0] == "ty"
            if o1 != o2:
                eq_expr_asym += 1
                ctx.fail("oracle", "Equals(%s, %s) accepted=%s but mirrored accepted=%s (C15_equals_wf_symmetric)" % (x[0], y[0], o1, o2),
                         ["c15", "asymmetric-equality", "expression-level"], {"x": str(x[0]), "y": str(y[0])}, True)

    # coverage figure measured inside Coq: how many (expression, interpretation) evaluations were defined
    try:
        acc = [c for c, r in zip(cases, records) if r[2] is not None][:150]
        acc = acc[:60] if ctx.quick else acc
        outc = ctx.coq_show("fold_right plus 0%nat (map (defined_count pool) cs)", imports=IMPORTS,
                            preamble=preamble + "Definition cs := %s.\n" % glist(acc))
        defined_evals = outc
    except Exception as e:  # coverage only
        defined_evals = "n/a (%s)" % e

    if not ok_proofs:
        ctx.proof_broken()
    ctx.finish({
        "evaluations": len(cases) + len(eq_cases) + len(comp_cases),
        "expression_cases": len(cases),
        "pool_interpretations": len(pool_py),
        "oracle_evaluations": len([r for r in records if r[2] is not None]) * len(pool_py) * 2,
        "defined_evaluations_first_60_or_150_cases": defined_evals,
        "distinct_nontrivial": len(nontrivial),
        "rule": "distinct serialised expressions; non-trivial = accepted with >= 3 nodes, or rejected at the top node; plus the exhaustive "
                "21x21 ordered type pairs for walk_equals and is_compatible_type (exhaustive over that universe only)",
        "samples": [{"expr": str(r[2]) if r[2] is not None else r[0][:200], "outcome": [r[1][0], str(r[1][1]) if len(r[1]) > 1 else None],
                     "origin": r[3]} for r in (records[:3] + records[-2:])],
        "distribution": stats,
        "phase_times_cumulative": phases,
        "equality_pairs": len(eq_cases), "equality_pairs_exhaustive_over_universe": True,
        "equality_accepted": sum(1 for r in eq_raw if r[2]),
        "compatibility_pairs": len(comp_cases),
        "traces_validated_against_impl": len(cases) + len(eq_cases) + len(comp_cases),
    }, "proof", assumptions=[
        "timing expressions (type TIME) are outside the expression IR; TIME is covered as an operand type of walk_equals only",
        "values range over the declared types of the leaves (respects); the expression must be defined (no division by zero)",
        "the oracle pool is finite (corners + interior points); the universal statement is the Coq theorem C15_infer_sound",
    ])


def _kind(t):
    return ("bool" if t.is_bool_type() else "time" if t.is_time_type() else "user" if t.is_user_type()
            else "int" if t.is_int_type() else "real")


def _nodes(n):
    stack = [n]
    while stack:
        x = stack.pop()
        yield x
        stack.extend(x.args)
