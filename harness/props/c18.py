"""C18 — PDDL write/read round trip preserves problem semantics and plans.

Validated property: the printers/parsers are not modelled.  Generated problems of the PDDL-expressible fragment go
through the real PDDLWriter and both real readers; the original and each re-read problem are serialised with the
numbering induced by the writer's renaming and compared inside Coq by the verified checker `bisim_check`
(coq/theories/Compilers/BisimCheck.v, theorems in Props/C18.v).  Valid plans found by forward search are written with
`get_plan`, parsed back with `parse_plan_string`, compared for equality of action instances and validated in Coq on both
problems.  Every disagreement is re-checked by an independent lock-step exploration through the real simulator.
"""
import json
import random
import warnings

from harness import iocheck as io
from harness.gen.pddlgen import IoGenProblem, key_through, forward_plans, add_temporal, corpus_pddl, tt_plans, tt_rows
from harness.gen.c18_families import ScopeGenProblem, scope_corpus, scope_keys, scope_tags

META = {
    "level": "translation_validation",
    "technique": "Coq-verified bisimulation checker (soundness for all problems, states and plans) run on the real writer/reader output of generated problems; plan round trips validated in Coq; independent simulator oracle for every disagreement",
    "text": "bisim_check explores the product of the documented transition systems of the original and the re-read problem under the writer's renaming and checks objects per type, initial state, applicability, successors, goal verdicts and metric values; its soundness (equal runs, validity and metric value for all plans when the explored graph is closed, for plans up to the explored depth otherwise) is proved in Coq.  PDDLWriter, UPPDDLReader and the pddl-package based reader are exercised as black boxes.",
    "note": "Not modelled: the PDDL printer and the two parsers. Trusted: Coq kernel/vm_compute, the harness serialiser and the use of PDDLWriter.get_item_named as the renaming. Inputs the third-party `pddl` parser rejects while parsing (no :precondition, negative literals, binary minus, its own keyword list) are outside the AI reader's fragment and are counted, not reported. Temporal constructs are compared structurally (temporal_structure_eqb).",
}

DEPTH_Q, CAP_Q = 4, 25
DEPTH_T, CAP_T = 5, 40
NSCOPE_Q, NSCOPE_T = 8, 60      # problems of the "names in scope" family (harness/gen/c18_families.py), on top of nprob


_UNDEF = {}


def undefined_fluents(problem):
    """fluents with at least one ground instance that has no initial value"""
    key = id(problem)
    if key not in _UNDEF:
        counts = {}
        for fe in problem.initial_values:
            counts[fe.fluent()] = counts.get(fe.fluent(), 0) + 1
        out = set()
        for f in problem.fluents:
            n = 1
            for pp in f.signature:
                n *= len(list(problem.objects(pp.type))) if pp.type.is_user_type() else 1
            if counts.get(f, 0) < n:
                out.add(f)
        _UNDEF.clear()
        _UNDEF[key] = out
    return _UNDEF[key]


def features(problem):
    """narrow tags describing the constructs of a problem (used in failure signatures)"""
    tags = set()
    names = [x.name for x in list(problem.fluents) + list(problem.actions) + list(problem.all_objects) + list(problem.user_types)]
    stack = list(problem.goals)
    for a in problem.actions:
        if hasattr(a, "preconditions"):
            stack += list(a.preconditions)
            effs = list(a.effects)
        else:
            tags.add("durative-action")
            effs = [e for el in a.effects.values() for e in el]
            stack += [c for cl in a.conditions.values() for c in cl]
        for e in effs:
            stack += [e.value, e.condition]
            if e.is_conditional():
                tags.add("conditional-effect")
                ops = a.environment.operators_extractor.get(e.condition) if hasattr(a.environment, "operators_extractor") else set()
                if any(o.name in ("EXISTS", "FORALL") for o in ops) or "Exists" in str(e.condition) or "Forall" in str(e.condition):
                    tags.add("quantifier-in-effect-condition")
            if e.is_forall():
                tags.add("forall-effect")
            if e.is_increase() or e.is_decrease():
                tags.add("increase-decrease")
            if e.fluent.type.is_bool_type() and not e.value.is_constant():
                tags.add("bool-assignment")
                if e.is_conditional() and any(fe.fluent() in undefined_fluents(problem)
                                              for fe in problem.environment.free_vars_extractor.get(e.value)):
                    # PDDLWriter rewrites `f := v when c` into `when (c and v) f` / `when (c and not v) (not f)`: v is
                    # then evaluated even when c is false, which matters only if v reads a fluent without a value
                    tags.add("undefined-fluent-in-rewritten-conditional-assignment")
    seen = set()
    while stack:
        x = stack.pop()
        if x in seen:
            continue
        seen.add(x)
        stack.extend(x.args)
        if x.is_minus():
            tags.add("minus")
        elif x.is_div():
            tags.add("div")
        elif x.is_exists() or x.is_forall():
            tags.add("quantifier")
        elif x.is_iff():
            tags.add("iff")
        elif x.is_implies():
            tags.add("implies")
        elif x.is_real_constant():
            tags.add("real-constant")
        elif x.is_int_constant() and x.constant_value() < 0:
            tags.add("negative-constant")
    tags |= scope_tags(problem)
    for m in problem.quality_metrics:
        tags.add("metric:" + type(m).__name__)
    if problem.timed_effects:
        tags.add("timed-initial-effect")
    return tags, names


def run(ctx):
    import unified_planning as up
    from unified_planning.io import PDDLWriter, PDDLReader
    warnings.simplefilter("ignore")
    io.restore_tracebacks()
    ok_proofs = ctx.check_props(extra=["theories/Corr/Corr_C18.v"])
    io.tick(ctx, "proofs")
    rng = ctx.rng
    nprob = 30 if ctx.quick else 300
    depth, cap = (DEPTH_Q, CAP_Q) if ctx.quick else (DEPTH_T, CAP_T)
    stats = {"generated": 0, "generator_artefact": 0, "writer_documented_unsupported": {}, "ai_parser_rejects": {},
             "reader_documented_unsupported": {}, "compared": {"up": 0, "ai": 0}, "plans_round_tripped": 0,
             "bisim": {"closed": 0, "bounded": 0}, "metric_kinds": {}, "features": {}, "empty_preconditions": 0,
             "structurally_equal_metrics": 0, "out_of_model": 0, "writer_warned_inexact_constant": 0, "temporal_problems": 0, "tt_plans_round_tripped": 0,
             "durative_actions_compared": 0, "timed_effects_compared": 0}
    cases, owners = [], []
    generated = 0
    attempts = 0
    hands = corpus_pddl() + scope_corpus()      # hand-written corner problems first (not counted in nprob)
    stats["corner_corpus"] = [h.label for h in hands]
    # "names in scope" family: quantified variables named like a parameter / another variable in scope.  Its problems
    # come right after the corpus, are not counted in nprob and draw from their own seeded stream (the problems of the
    # main stream are the same with and without them)
    rng_main, rng_scope = ctx.rng, random.Random("C18-scope:%d" % ctx.seed)
    nscope = NSCOPE_Q if ctx.quick else NSCOPE_T
    scope_attempts = 0
    stats["scope_family"] = {"generated": 0, "variable_names": {}}
    while (generated < nprob or hands) and attempts < nprob * 6:
        attempts += 1
        rng = rng_main
        if hands:
            g, ai_friendly, temporal = hands.pop(0), True, False
            generated -= 1
            if getattr(g, "family", None) == "scope":
                rng = rng_scope
        elif stats["scope_family"]["generated"] < nscope and scope_attempts < nscope * 6:
            rng = rng_scope
            attempts -= 1
            scope_attempts += 1
            ai_friendly = rng.random() < 0.45
            temporal = not ai_friendly and rng.random() < 0.3
            g = ScopeGenProblem(rng, ai_friendly=ai_friendly, plain_names=(ai_friendly and rng.random() < 0.5),
                                bool_assign=rng.random() < 0.5, metrics=not temporal)
            if not g.bad and temporal:
                add_temporal(g, rng, "pddl")
            if not g.bad:
                generated -= 1
                stats["scope_family"]["generated"] += 1
                for kk, vv in g.scope_stats.items():
                    stats["scope_family"]["variable_names"][kk] = stats["scope_family"]["variable_names"].get(kk, 0) + vv
            temporal = False        # (already added; the main stream's counters below are not touched)
        else:
            ai_friendly = rng.random() < 0.45
            temporal = not ai_friendly and rng.random() < 0.3
            g = IoGenProblem(rng, ai_friendly=ai_friendly, plain_names=(ai_friendly and rng.random() < 0.5),
                             bool_assign=rng.random() < 0.5, metrics=not temporal)
        if not g.bad and temporal:
            add_temporal(g, rng, "pddl")
            if rng.random() < 0.5:
                g.add_io_metric()
            stats["temporal_problems"] += 1
        if g.bad:
            stats["generator_artefact"] += 1
            continue
        P = g.problem
        generated += 1
        stats["generated"] += 1
        feats, names = features(P)
        for f in feats:
            stats["features"][f] = stats["features"].get(f, 0) + 1
        empty_pre = ai_friendly or rng.random() < 0.3
        stats["empty_preconditions"] += empty_pre
        payload = {"problem": str(P), "names": names, "empty_preconditions": empty_pre,
                   "family": getattr(g, "family", None), "corpus_label": getattr(g, "label", None)}
        try:
            with warnings.catch_warnings(record=True) as wlog:
                warnings.simplefilter("always")
                w = PDDLWriter(P, rewrite_bool_assignments=True, empty_preconditions=empty_pre)
                dom, prob = w.get_domain(), w.get_problem()
            if any("cannot exactly represent" in str(x.message) for x in wlog):
                # documented by a warning: a constant (after the writer's constant folding) needs more than 10 digits
                stats["writer_warned_inexact_constant"] += 1
                continue
        except (up.exceptions.UPProblemDefinitionError, up.exceptions.UPUnsupportedProblemTypeError, up.exceptions.UPTypeError) as e:
            k = "%s: %s" % (type(e).__name__, str(e)[:70])
            stats["writer_documented_unsupported"][k] = stats["writer_documented_unsupported"].get(k, 0) + 1
            continue
        except Exception as e:  # noqa
            site = io.exc_site(e)
            ctx.fail("impl-exception", "PDDLWriter raised %s: %s" % (type(e).__name__, str(e)[:120]),
                     ["c18", "writer-crash", type(e).__name__, site[0]] + sorted(feats), dict(payload, site=site), True)
            continue
        payload.update({"domain": dom, "pddl_problem": prob})
        if io.has_repeated_arith_operand(dom, prob):
            feats = set(feats) | {"repeated-arith-operand"}
        if io.pddl_lib_drops_duplicate_effect(dom):
            feats = set(feats) | {"duplicate-effect-in-and"}
        plans = forward_plans(P, rng, max_depth=3, max_plans=2)
        ttps = tt_plans(P, rng, n=2, fixed=hasattr(g, "label"))
        for rname, kw in (("up", dict(force_up_pddl_reader=True)), ("ai", dict(force_ai_planning_reader=True))):
            reader = PDDLReader(**kw)
            try:
                Q = io.parse_pddl(reader, dom, prob)
            except Exception as e:  # noqa
                site = io.exc_site(e)
                k = "%s: %s" % (type(e).__name__, " ".join(str(e).split())[:60])
                req = io.missing_domain_requirement(e) if rname == "ai" else None
                if req is not None:
                    ctx.fail("impl-exception", "the written domain uses a construct whose requirement %s it does not declare (strict parser: %s)" % (req, str(e)[:100]),
                             ["c18", "reader-ai", "writer-requirements", "missing" + req] + sorted(feats), dict(payload, reader=rname), True)
                elif rname == "ai" and io.third_party_parser_reject(e):
                    stats["ai_parser_rejects"][k.split(" at line")[0][:60]] = stats["ai_parser_rejects"].get(k.split(" at line")[0][:60], 0) + 1
                elif type(e).__name__ in io.DOCUMENTED and rname == "ai":
                    stats["reader_documented_unsupported"][k] = stats["reader_documented_unsupported"].get(k, 0) + 1
                else:
                    ctx.fail("impl-exception", "%s reader rejects the writer's output: %s: %s" % (rname, type(e).__name__, str(e)[:160]),
                             ["c18", "reader-" + rname, "reader-rejects", type(e).__name__, site[0]] + sorted(feats),
                             dict(payload, reader=rname, site=site), True)
                continue
            # plan round trips
            pcs = []
            plan_fail = None
            for pl in plans:
                try:
                    text = w.get_plan(pl)
                    backP = reader.parse_plan_string(P, text, w.get_item_named)
                    backQ = reader.parse_plan_string(Q, text)
                    if backP != pl:
                        plan_fail = {"plan": str(pl), "text": text, "parsed_back": str(backP), "why": "parsed plan differs from the written plan"}
                    pcs.append((pl, backP, "P"))
                    pcs.append((pl, backQ, "Q"))
                except Exception as e:  # noqa
                    plan_fail = {"plan": str(pl), "why": "plan round trip raised %s: %s" % (type(e).__name__, str(e)[:160])}
            if plan_fail is not None:
                ctx.fail("oracle", "plan round trip: " + plan_fail["why"], ["c18", "reader-" + rname, "plan-round-trip"] + sorted(feats),
                         dict(payload, reader=rname, plan=plan_fail), True)
                pcs = []
            # time-triggered plans: (action instance, start, duration) must come back unchanged
            for tp in ttps:
                try:
                    text = w.get_plan(tp)
                    backP = reader.parse_plan_string(P, text, w.get_item_named)
                    # an action the writer dropped (constantly false condition) does not exist in the re-read problem
                    in_q = all(Q.has_action(w.get_pddl_name(ai.action)) for _, ai, _ in tp.timed_actions)
                    backQ = reader.parse_plan_string(Q, text) if in_q else None
                    want = tt_rows(tp)
                    gotP = tt_rows(backP)
                    wantQ = tt_rows(tp, w.get_pddl_name)
                    gotQ = tt_rows(backQ) if in_q else wantQ
                    bad = None
                    if gotP != want:
                        bad = {"written": text, "expected": str(want), "parsed_back": str(gotP)}
                    elif gotQ != wantQ:
                        bad = {"written": text, "expected": str(wantQ), "parsed_on_reread_problem": str(gotQ)}
                    stats["tt_plans_round_tripped"] += 1
                except Exception as e:  # noqa
                    bad = {"plan": str(tp), "raised": "%s: %s" % (type(e).__name__, str(e)[:160])}
                if bad is not None:
                    ctx.fail("oracle", "time-triggered plan round trip changes (action, start, duration): %s" % (bad.get("raised") or "times/instances differ"),
                             ["c18", "reader-" + rname, "tt-plan-round-trip"], dict(payload, reader=rname, tt_plan=bad), True)
                    break
            try:
                key_p, key_q = scope_keys(w.get_item_named)      # = key_identity / key_through, variables by (name, type)
                case, info = io.build_case(P, Q, key_q, depth, cap, plans=pcs, keyP=key_p, split_intervals=True)
            except io.OutOfFragment as e:
                stats["out_of_model"] += 1
                ctx.fail("corr", "re-read problem is outside the modelled fragment: %s" % e, ["c18", "reader-" + rname, "out-of-model"] + sorted(feats),
                         dict(payload, reader=rname, reread=str(Q)), False)
                continue
            stats["compared"][rname] += 1
            stats["durative_actions_compared"] += info["durative"]
            stats["timed_effects_compared"] += info["timed_effects"]
            stats["plans_round_tripped"] += len(plans)
            stats["metric_kinds"][info["metricP"]] = stats["metric_kinds"].get(info["metricP"], 0) + 1
            cases.append(case)
            owners.append({"P": P, "Q": Q, "w": w, "reader": rname, "type_name": w.get_pddl_name,
                           "rebuild": (lambda P2, Q2, w=w: io.build_case(P2, Q2, scope_keys(w.get_item_named)[1], depth, cap,
                                                                          keyP=scope_keys(w.get_item_named)[0], split_intervals=True)[0]),
                           "payload": payload, "info": info, "feats": feats, "nplans": len(plans)})
    io.tick(ctx, "implementation runs")
    codes = ctx.coq_codes(cases, "Corr_C18.code", imports=io.IMPORTS, shard=8, label="c18") if cases else []
    io.tick(ctx, "coq")
    nontrivial = set()
    samples = []
    for k, (o, code) in enumerate(zip(owners, codes)):
        bis, tdiff, pfail, mdiff, nstates, bound = io.decode(code)
        o["size"] = (nstates, bound)
        if not mdiff:
            stats["structurally_equal_metrics"] += 1
        if bis == 0:
            stats["bisim"]["closed"] += 1
        elif bis == 1:
            stats["bisim"]["bounded"] += 1
        if nstates >= 2 and nstates * o["info"]["ninsts"] >= 5:
            nontrivial.add(json.dumps([o["payload"]["problem"], o["reader"]]))
        if len(samples) < 3:
            samples.append({"reader": o["reader"], "problem": o["payload"]["problem"][:600], "explored_states": nstates,
                            "bound": bound, "verdict": "closed" if bis == 0 else ("bounded" if bis == 1 else "fail")})
        if bis < 100 and not tdiff and not pfail:
            continue
        report(ctx, "c18", o, cases[k], bis, tdiff, pfail,
               io.by_name_mapper(o["Q"], lambda item, w=o["w"]: w.get_pddl_name(item)), depth, cap)
    if not ok_proofs:
        ctx.proof_broken()
    io.dump_failures(ctx)
    ctx.finish({
        "evaluations": len(cases),
        "distinct_nontrivial": len(nontrivial),
        "rule": "one evaluation = one (generated problem, reader) pair compared by bisim_check; non-trivial = at least one reachable non-initial state and >= 5 checked (state, instance) edges; distinct by (problem text, reader)",
        "samples": samples,
        "distribution": stats,
        "explored": {"depth": depth, "state_cap": cap},
    }, META["level"], assumptions=["the renaming used to align the two problems is PDDLWriter.get_item_named",
                                   "PDDL's universal supertype `object` denotes all objects of the original problem"])


def report(ctx, pid, o, case, bis, tdiff, pfail, to_q, depth, cap, extra_tags=()):
    """one failing comparison: the checker's witness + the independent simulator oracle"""
    witness = io.diagnose(ctx, case)
    why = io.WHY.get(bis - 100, "ok") if bis >= 100 else "ok"
    tags = [pid, "reader-" + o["reader"]] + sorted(o["feats"]) + list(extra_tags)
    payload = dict(o["payload"], reader=o["reader"], reread=str(o["Q"]), coq_witness=witness, explored=o.get("size"),
                   ids=o["info"]["ids"])
    if bis >= 100:
        orc = io.PyOracle(o["P"], o["Q"], to_q, o.get("type_name")).find_difference(depth, max(cap, 60))
        confirmed = bool(orc and orc.get("confirmed"))
        if bis - 100 in (6, 7, 8):      # metric disagreements are not visible to the simulator oracle: compare the metrics directly
            mp, mq = o["P"].quality_metrics, o["Q"].quality_metrics
            confirmed = True
            orc = {"kind": why, "orig_metric": str(mp), "reread_metric": str(mq)}
            if bis - 100 in (6, 7) and io.only_undefined_reads(ctx, o):
                # a cost / metric expression that reads a fluent without a value on one side only (`f(o) * 0` is
                # written as `0`): undefined under the strict reading, folded away by the implementation (C01)
                tags = tags + ["strict-undefined-read"]
                payload["note"] = ("the metric values agree when every undefined ground fluent is given a value: one side's "
                                   "cost / metric expression reads an undefined fluent that the other side's (constant-folded) "
                                   "expression no longer contains")
        payload["simulator_oracle"] = orc
        if not confirmed and bis - 100 in (3, 4, 5) and io.only_undefined_reads(ctx, o):
            # under the documented strict semantics the two problems differ, the implementation's simulator (which
            # simplifies / short-circuits away reads of undefined fluents) does not show it: inherited from C01
            confirmed = True
            tags = tags + ["strict-undefined-read"]
            payload["note"] = ("the disagreement disappears when every undefined ground fluent is given a value: one side reads "
                               "an undefined fluent in a condition/value that the other side (or its simplification) does not evaluate")
        ctx.fail("oracle" if confirmed else "corr",
                 ("the two readers' problems differ (%s; first = UP reader, second = AI reader)%s" if pid == "c21" else
                  "%s reader: re-read problem differs from the original (%%s)%%s" % o["reader"]) % (why, "" if confirmed else " [not reproduced by the simulator oracle]"),
                 tags + [why], payload, confirmed)
    if tdiff:
        payload["temporal_structures"] = {"original": o["info"]["tP"], "reread": o["info"]["tQ"]}
        ctx.fail("oracle", "%s reader: temporal structure (durations / timed conditions / timed effects) differs" % o["reader"],
                 tags + ["temporal-structure-differs"], payload, True)
    if pfail:
        ctx.fail("oracle", "%s reader: a written plan does not parse back to an equal plan valid in both problems" % o["reader"],
                 tags + ["plan-round-trip"], payload, True)
