"""C36 — Planning states behave like finite maps under any update history.

Theorems: coq/theories/Props/C36.v (about coq/theories/Model/State.v).
Tie: correspondence — branching histories of UPState(...)/make_child under MAX_ANCESTORS in {1,2,20,None}, with
hash()/repr()/== interleaved on the implementation side; Coq evaluates the model on the same histories and compares
every get_value answer, the == matrix, and eq => hash-eq.
"""
import json

from harness.core import gn, gz, gnat, gbool, glist, gopt, gpair

META = {
    "level": "proof",
    "technique": "Coq proof (refinement of UPState model to a finite map, induction over histories) + model/implementation correspondence by vm_compute",
    "text": "Refinement theorem for every history and ancestor limit about a Gallina model of UPState; the model is tied to state.py by differential evaluation of branching histories inside Coq.",
    "note": "Trusted: Coq kernel/vm_compute, harness serialiser; Python's hash on items is an arbitrary function in the theorems. FNode constants are modelled as integer codes (hash-consing makes == identity).",
}


def build_problem():
    import unified_planning as up
    from unified_planning.shortcuts import UserType, Fluent, IntType, BoolType, Object, Problem
    T = UserType("T")
    p = Problem("c36")
    objs = [Object("o%d" % i, T) for i in range(2)]
    p.add_objects(objs)
    f0 = Fluent("f0", IntType(), a=T)     # default 0
    f1 = Fluent("f1", IntType(), a=T)     # no default
    f2 = Fluent("f2", BoolType())         # default False
    f3 = Fluent("f3", IntType())          # default 3
    f4 = Fluent("f4", BoolType(), a=T)    # no default
    p.add_fluent(f0, default_initial_value=0)
    p.add_fluent(f1)
    p.add_fluent(f2, default_initial_value=False)
    p.add_fluent(f3, default_initial_value=3)
    p.add_fluent(f4)
    keys = []
    for si, f in enumerate([f0, f1, f2, f3, f4]):
        if f.arity == 1:
            for oi, o in enumerate(objs):
                keys.append(((si, oi), f(o)))
        else:
            keys.append(((si, 0), f()))
    return p, keys


def vcode(v):
    if v.is_bool_constant():
        return 1 if v.bool_constant_value() else 0
    return v.constant_value()


def run(ctx):
    import unified_planning as up
    from unified_planning.model import UPState
    from unified_planning.exceptions import UPStateMissingFluentError

    ok_proofs = ctx.check_props(extra=["theories/Corr/Corr_C36.v"])
    p, keys = build_problem()
    em = p.environment.expression_manager
    defaults_code = [(0, 0), (2, 0), (3, 3)]
    boolsyms = {2, 4}

    def classes():
        out = {}
        for lim in (1, 2, 20, None):
            out[lim] = type("S%s" % lim, (UPState,), {"MAX_ANCESTORS": lim})
        return out

    cls = classes()
    rng = ctx.rng
    n_hist = 120 if ctx.quick else 2500
    cases, raw = [], []
    nontrivial = set()

    def rand_val(sym):
        if sym in boolsyms:
            return rng.choice([0, 1])
        return rng.choice([0, 0, 1, 2, 3, -1])

    def rand_dict(maxn):
        ks = rng.sample(range(len(keys)), rng.randint(0, maxn))
        return [(keys[i][0], rand_val(keys[i][0][0])) for i in ks]

    def to_py(d):
        out = {}
        for (sym, arg), v in d:
            fexp = dict(keys)[(sym, arg)]
            out[fexp] = em.Bool(bool(v)) if sym in boolsyms else em.Int(v)
        return out

    stats = {"ops": 0, "condensing_children": 0, "default_valued_updates": 0, "missing_answers": 0, "hash_calls": 0}
    def current(states_maps, par):
        return states_maps[par]

    for h in range(n_hist):
        lim = rng.choice([1, 2, 20, None])
        S = cls[lim]
        nops = rng.randint(3, 10 if ctx.quick else 30)
        ops = []
        states = []
        maps = []                      # the harness's own record of each state's explicit bindings (to build no-op updates)
        quiet = h % 3 == 0             # every third history: no hash()/repr()/== before the final == matrix
        for i in range(nops):
            if not states or rng.random() < 0.12:
                d = rand_dict(4)
                ops.append(("root", d))
                states.append(S(to_py(d), p))
                maps.append(dict(d))
            else:
                par = rng.randrange(len(states)) if rng.random() < 0.5 else len(states) - 1
                d = rand_dict(3)
                r2 = rng.random()
                if r2 < 0.3 and maps[par]:
                    # a NO-OP update: rebind 1-2 keys to the value they already have in the parent (siblings that denote
                    # the same map but store different keys)
                    ks = rng.sample(sorted(maps[par]), min(len(maps[par]), rng.randint(1, 2)))
                    d = [(k, maps[par][k]) for k in ks]
                elif r2 < 0.4:
                    d = []
                ops.append(("child", par, d))
                if states[par]._ancestors >= (lim or 0):
                    stats["condensing_children"] += 1
                states.append(states[par].make_child(to_py(d)))
                m2 = dict(maps[par]); m2.update(dict(d)); maps.append(m2)
                if rng.random() < 0.35 and maps[par]:
                    # a TWIN: a sibling from the same parent denoting the same map through a different update
                    # (the same bindings plus a re-binding of a key to the value it already has in the parent)
                    extra = [k for k in sorted(maps[par]) if k not in dict(d)]
                    if extra:
                        k = rng.choice(extra)
                        d2 = list(d) + [(k, maps[par][k])]
                        ops.append(("child", par, d2))
                        states.append(states[par].make_child(to_py(d2)))
                        m3 = dict(maps[par]); m3.update(dict(d2)); maps.append(m3)
            for (sym, arg), v in d:
                if (sym, v) in defaults_code:
                    stats["default_valued_updates"] += 1
            # implementation-only observations that mutate representation in place
            r = 1.0 if quiet else rng.random()
            if r < 0.25:
                hash(states[rng.randrange(len(states))])
                stats["hash_calls"] += 1
            elif r < 0.35:
                repr(states[rng.randrange(len(states))])
            elif r < 0.45 and len(states) > 1:
                states[rng.randrange(len(states))] == states[rng.randrange(len(states))]
        stats["ops"] += nops
        obs = []
        for s in states:
            row = []
            for k, fexp in keys:
                try:
                    row.append(vcode(s.get_value(fexp)))
                except UPStateMissingFluentError:
                    row.append(None)
                    stats["missing_answers"] += 1
            obs.append(row)
        # == between siblings FIRST, before anything has hashed (and thereby condensed) them: the answer must not depend
        # on whether hash()/repr() ran earlier; then the full matrix; a pair keeps the conjunction of all its answers
        first = {}
        for i in range(len(states)):
            for j in range(len(states)):
                if i != j and ops[i][0] == "child" and ops[j][0] == "child" and ops[i][1] == ops[j][1]:
                    first[(i, j)] = (states[i] == states[j])
        eqm = [[a == b for b in states] for a in states]
        for (i, j), v in first.items():
            if v != eqm[i][j]:
                stats["eq_answer_changed"] = stats.get("eq_answer_changed", 0) + 1
                eqm[i][j] = v
        hm = [[hash(a) == hash(b) for b in states] for a in states]
        raw.append({"limit": lim, "ops": ops, "obs": obs, "eq": eqm, "hasheq": hm})
        nontrivial.add(json.dumps([lim, ops], default=str))
        cases.append(ser_case(defaults_code, lim, ops, [k for k, _ in keys], obs, eqm, hm))

    bad = ctx.coq_failing(cases, "ok", imports=["UPV.Model.State", "UPV.Corr.Corr_C36"],
                          preamble="", shard=150 if ctx.quick else 250)
    for i in bad:
        c = raw[i]
        spec_obs, spec_eq = py_spec(defaults_code, [k for k, _ in keys], c["ops"])
        prop_fails = (spec_obs != c["obs"]) or (spec_eq != c["eq"]) or any(
            e and not hh for re_, rh in zip(c["eq"], c["hasheq"]) for e, hh in zip(re_, rh))
        tags = ["c36"]
        model = ctx.coq_show("(model_obs c, model_eq c)", imports=["UPV.Model.State", "UPV.Corr.Corr_C36"],
                             preamble="Definition c := %s.\n" % cases[i])
        ctx.fail("corr", "UPState history: implementation and model disagree (corr:C36:run_ops/get_value/state_eq)", tags,
                 {"case": c, "spec_obs": spec_obs, "spec_eq": spec_eq, "model": model,
                  "theorem_or_corr": "corr:C36:get_value/make_child/__eq__"}, prop_fails)
    if not ok_proofs:
        ctx.proof_broken()
    ctx.finish({
        "evaluations": len(cases),
        "distinct_nontrivial": len(nontrivial),
        "rule": "random branching histories of UPState()/make_child over 8 ground fluents (3 symbols with defaults), limits {1,2,20,None}, "
                "hash/repr/== interleaved; distinct = distinct (limit, op list); every history has >= 3 operations",
        "samples": raw[:2],
        "distribution": stats,
        "traces_validated_against_impl": len(cases),
    }, "proof", assumptions=["constants are modelled by integer codes", "dict arguments have unique keys (Python dicts)"])


def ser_dict(d):
    return glist([gpair(gpair(gn(k[0]), gn(k[1])), gz(v)) for k, v in d])


def ser_case(D, lim, ops, keys, obs, eqm, hm):
    gops = []
    for o in ops:
        if o[0] == "root":
            gops.append("OpRoot %s" % ser_dict(o[1]))
        else:
            gops.append("OpChild %s %s" % (gnat(o[1]), ser_dict(o[2])))
    return ("{| c_defaults := %s; c_limit := %s; c_ops := %s; c_keys := %s; c_obs := %s; c_eq := %s; c_hasheq := %s |}" % (
        glist([gpair(gn(a), gz(b)) for a, b in D]),
        gopt(None if lim is None else gnat(lim)),
        glist(gops),
        glist([gpair(gn(a), gn(b)) for a, b in keys]),
        glist([glist([gopt(None if v is None else gz(v)) for v in row]) for row in obs]),
        glist([glist([gbool(b) for b in row]) for row in eqm]),
        glist([glist([gbool(b) for b in row]) for row in hm])))


def py_spec(D, keys, ops):
    """The finite-map specification, computed independently in Python (used only to decide whether a
    model/implementation disagreement is also a failure of the PROPERTY)."""
    dd = dict(D)
    maps = []
    for o in ops:
        if o[0] == "root":
            maps.append(dict(o[1]))
        else:
            m = dict(maps[o[1]])
            m.update(dict(o[2]))
            maps.append(m)
    obs = [[m.get(k, dd.get(k[0])) for k in keys] for m in maps]
    allk = set(k for m in maps for k in m) | set(keys)
    eq = [[all(a.get(k, dd.get(k[0])) == b.get(k, dd.get(k[0])) for k in allk) for b in maps] for a in maps]
    return obs, eq
