"""C07 — Compilers preserve solvability and every original plan (completeness).

Theorems: coq/theories/Props/C07.v.  Tie: translation validation — same generator/runner as C06
(harness/compcheck.py); the Coq-verified `complete_search` enumerates every valid plan of the ORIGINAL problem up to the
tier's length with the reference semantics and propagates the set of compiled configurations reachable by compiled
plans that map back to the prefix (aux-closure with k auxiliary steps, k = 1 for compilers that add a goal action).
A witness (valid original plan without compiled counterpart) is re-validated with the real SequentialPlanValidator and
cross-checked by a brute-force search over compiled plans with the real validator.
"""
from itertools import product

from harness import compcheck as cc
from harness import layera

META = {
    "level": "translation_validation",
    "technique": "Coq-verified validator (exhaustive enumeration of valid original plans; propagation of compiled configuration sets through the real map-back table; proved: a true answer yields, for every valid original plan up to the bound, a valid compiled plan at most k steps longer that maps back to it modulo no-op steps) applied by vm_compute to the output of the real compilers",
    "text": "LAYER A (proved for ALL problems of the modelled fragment, Props/C07.v C07_LA_*): quant_complete (same plan), sir_complete / btr_complete (same plan; the one hypothesis on the initial state is that the moved constraints hold in it), cer_complete and dcr_complete (a compiled plan, not longer, mapping back to the original modulo no-op steps; bound k = 0, the fake-goal case k + 1 stays validated), each tied to the code by the structural correspondence of harness/layera.py (evidence keys layerA_*). LAYER B: complete_check_correct for all plans of any pair of problems; unsolvable_transfers (unsolvable compiled problem implies unsolvable original, up to the bound); complete_search_witness (a false answer names a valid original plan). The quantifier over plans is proved, the quantifier over problems is sampled.",
    "note": "level stays translation_validation: PROVED for all problems of the instantaneous fragment (Layer A, Props/C07.v + part files Props/C07_*.v) = QuantifiersRemover (when no action is left out for conflicting expanded effects; otherwise finding C07-qr-forall-syntactic-conflict-action-dropped), StateInvariantsRemover, BoundedTypesRemover, ConditionalEffectsRemover (given C37_conflict_drop_sound's conclusion; otherwise finding C07-cer-syntactic-conflict-variant-dropped), DisjunctiveConditionsRemover without and with the auxiliary goal action (bound k+1, C07_pipe.v), Grounder, NegativeConditionsRemover (C07_ncr.v), UsertypeFluentsRemover (C07_utfr.v), UndefinedInitialNumericRemover (C07_uinr.v; the unguarded shapes are recorded findings), pipelines of certified stages (C07_pipe.v: completeness composes, bounds add); TrajectoryConstraintsRemover: regression completeness and monitor completeness only (C07_tcr.v); VALIDATED ONLY = TCR at plan level, durative actions, the other pipelines. Hypotheses as listed in C06's note. Layer B: validated, not proved for all problems. Reading (DESIGN.md 6.00): 'maps back to the same sequence' is modulo original steps that change no ground fluent (documented: variants/groundings without effects are discarded); bound k+1 only for compilers that add a goal-achieving action (DisjunctiveConditionsRemover and pipelines containing it). A compiler that rejects a problem as unsolvable (TrajectoryConstraintsRemover: constraint violated initially) is checked by searching the original for a valid plan. Strict documented semantics on both sides; witnesses double-checked with the real validator. No axioms.",
}


def noop_flags(c, w):
    """which steps of the original plan w leave the state unchanged (real simulator)"""
    from unified_planning.engines.sequential_simulator import UPSequentialSimulator
    sim = UPSequentialSimulator(c.problem)
    st = sim.get_initial_state()
    flags = []
    for i in w:
        a, args = c.orig.insts[i]
        nxt = sim.apply(st, a, args)
        if nxt is None:
            return None
        flags.append(c.orig.ser.read_state(nxt) == c.orig.ser.read_state(st))
        st = nxt
    return flags


def brute_force_counterpart(c, w, k):
    """Is there a compiled plan (real validator) of length <= |w| + k whose image is w minus some no-op steps?
    Bounded search used only to double-check a Coq witness."""
    insts = c.comp.insts
    if not insts:
        return False
    if len(insts) ** (len(w) + k) > 6000:
        return None
    try:
        noop = noop_flags(c, w)
    except Exception:  # noqa
        return None
    if noop is None:
        return None

    def matches(image, i, j):
        if i == len(image) and j == len(w):
            return True
        if j == len(w):
            return False
        if i < len(image) and image[i] == w[j] and matches(image, i + 1, j + 1):
            return True
        return noop[j] and matches(image, i, j + 1)

    for L in range(0, len(w) + k + 1):
        for cand in product(range(len(insts)), repeat=L):
            image = [c.back[j] for j in cand if c.back[j] is not None]
            if not matches(image, 0, 0):
                continue
            ok, _ = cc.real_validate(c.comp.problem, c.comp.plan_obj(list(cand)))
            if ok:
                return list(cand)
    return False


def run(ctx):
    ok_proofs = ctx.check_props(extra=["theories/Corr/Corr_C06.v", "theories/Corr/Corr_LayerA.v"])
    per, n, max_insts = (20, 2, 12) if ctx.quick else (45, 3, 14)
    cases, gstats = cc.build_cases(ctx, per, max_insts)
    live = [c for c in cases if c.live]
    reports = cc.coq_reports(ctx, live, lambda c: cc.complete_term(c, c.spec["aux"], n), label="complete",
                             shard=8 if ctx.quick else 12, timeout=1500)
    # compilers that refused the problem as unsolvable: the original must have no valid plan (up to n)
    refused = [c for c in cases if c.raised is not None and "PROBLEM NOT SOLVABLE" in str(c.raised) and c.orig is not None
               and len(c.orig.insts) <= max_insts]
    if refused:
        def term(c):
            return "solvable_report T%do %d%%nat" % (c.idx, n)
        old = [c.render for c in refused]
        for c in refused:
            c.render = (lambda c=c: c.orig.render("%do" % c.idx))
        refused_reports = cc.coq_reports(ctx, refused, term, label="refused", shard=10)
    else:
        refused_reports = {}
    nontrivial = set()
    nfail = 0
    valid_plans_total = with_valid_plans = 0
    for c in refused:
        r = refused_reports[c.idx]
        if r[0] != 0:
            w = r[1:]
            rv, why = cc.real_validate(c.problem, c.orig.plan_obj(w))
            ctx.fail("oracle", "%s rejected the problem as unsolvable (%s) but the plan %s is valid" % (
                c.spec["id"], str(c.raised)[:80], c.orig.plan_json(w)),
                sorted(set(["c07", c.spec["id"], "rejected-as-unsolvable"] + c.spec["members"])),
                dict(cc.case_json(c), original_plan=c.orig.plan_json(w), real_validator_on_original=[rv, why]), True)
    for c in live:
        nvalid, r = reports[c.idx][0], reports[c.idx][1:]
        valid_plans_total += nvalid
        with_valid_plans += nvalid > 0
        if nvalid > 0 and c.orig.insts:
            nontrivial.add(c.idx)
        if r[0] == 0:
            continue
        nfail += 1
        w = r[1:]
        k = c.spec["aux"]
        rv_o, why_o = cc.real_validate(c.problem, c.orig.plan_obj(w))
        bf = brute_force_counterpart(c, w, k)
        confirmed = rv_o is True and bf is False
        tags = sorted(set(["c07", c.spec["id"]] + c.spec["members"])) + cc.shape_tags(c.problem) + cc.mirrored_tags(c)
        tags.append("confirmed-by-real-validator" if confirmed else
                    ("real-validator-finds-counterpart" if bf else "strict-semantics-only"))
        ctx.fail("oracle",
                 "%s: the plan %s is valid for the original problem but no valid compiled plan of length <= %d maps back to it"
                 % (c.spec["id"], c.orig.plan_json(w), len(w) + k),
                 tags,
                 dict(cc.case_json(c), original_plan=c.orig.plan_json(w), real_validator_on_original=[rv_o, why_o],
                      brute_force_counterpart_by_real_validator=(None if bf in (None, False) else c.comp.plan_json(bf)),
                      brute_force_status=("not-run" if bf is None else ("none-found" if bf is False else "found")),
                      coq_oracle="UPV.Compilers.SimCheck.complete_search (k=%d, n=%d)" % (k, n)),
                 True)
    # ------------------------------------------------------------------ Layer A: structural correspondence -------
    # (separate from the validation above; see harness/layera.py)
    failed_idx = set(c.idx for c in live if reports[c.idx][1] != 0)
    import time as _time0
    _t0la = _time0.time()
    la_cov = layera.run(ctx, cases, validator_failed=failed_idx)
    la_cov.setdefault("layerA_seconds", {})["layera"] = round(_time0.time() - _t0la, 1)
    # further per-compiler Layer A correspondences, one module per compiler (harness/layera_<x>.py: run(ctx, cases,
    # validator_failed) -> dict of evidence keys prefixed layerA_<x>_); a module that is absent is skipped
    import importlib
    for _m in layera.EXTRA_MODULES:
        try:
            _mod = importlib.import_module("harness." + _m)
        except ModuleNotFoundError:
            continue
        import time as _time
        _t = _time.time()
        la_cov.update(_mod.run(ctx, cases, validator_failed=failed_idx))
        la_cov.setdefault("layerA_seconds", {})[_m] = round(_time.time() - _t, 1)
    # ------------------------------------------------------------------ end of Layer A block ----------------------
    if not ok_proofs:
        ctx.proof_broken()
    dist = cc.distribution(cases)
    dist.update(gstats)
    dist["counterexamples"] = nfail
    dist["valid_original_plans_covered"] = valid_plans_total
    dist["problems_with_a_valid_original_plan"] = with_valid_plans
    dist["refused_as_unsolvable_checked"] = len(refused)
    samples = [dict(compiler=c.spec["id"], original_instances=len(c.orig.insts), compiled_instances=len(c.comp.insts),
                    aux_budget=c.spec["aux"], report=reports[c.idx]) for c in live[:4]]
    ctx.finish({
        "evaluations": len(live) + len(refused),
        "distinct_nontrivial": len(nontrivial),
        "rule": "one evaluation = one (original, compiled, map-back table) triple: every valid original plan up to length %d is enumerated in Coq and matched against the compiled problem; non-trivial = the original problem has at least one VALID plan within the bound (counted in Coq); distinct by generated problem" % n,
        "samples": samples,
        "distribution": dist,
        "plan_length": n,
        "exhaustive": False,
        **la_cov,
    }, "translation_validation",
        assumptions=["problems are sampled (generated inside each compiler's supported kind); original plans are covered exhaustively up to the length bound",
                     "'same sequence of action instances' is read modulo original steps that change no ground fluent"])
