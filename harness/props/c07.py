"""C07 — Compilers preserve solvability and every original plan (completeness).

Theorems: coq/theories/Props/C07.v.  Tie: translation validation — same generator/runner as C06
(harness/compcheck.py); the Coq-verified `complete_search` enumerates every valid plan of the ORIGINAL problem up to the
tier's length with the reference semantics and propagates the set of compiled configurations reachable by compiled
plans that map back to the prefix (aux-closure with k auxiliary steps, k = 1 for compilers that add a goal action).
A witness (valid original plan without compiled counterpart) is re-validated with the real SequentialPlanValidator and
cross-checked by a brute-force search over compiled plans with the real validator.
Besides the shared cases, histories of ONE compiler instance are run here (history_cases below): compile(P1), then
compile(P2) with P2 = P1 edited (effects / preconditions of a same-named action, objects, constraints); the second
result is judged against P2 by the same validator and compared with a fresh instance's result.
"""
from itertools import product

from harness import compcheck as cc
from harness import layera

META = {
    "level": "translation_validation",
    "technique": "Coq-verified validator (exhaustive enumeration of valid original plans; propagation of compiled configuration sets through the real map-back table; proved: a true answer yields, for every valid original plan up to the bound, a valid compiled plan at most k steps longer that maps back to it modulo no-op steps) applied by vm_compute to the output of the real compilers",
    "text": "LAYER A (proved for ALL problems of the modelled fragment, Props/C07.v and part files Props/C07_*.v, theorems C07_LA_*): quant_complete (same plan), sir_complete / btr_complete (same plan; the one hypothesis on the initial state is that the moved constraints hold in it), cer_complete and dcr_complete (a compiled plan, not longer, mapping back to the original modulo no-op steps; bound k = 0), dcrgoal_complete (bound k + 1), ground_complete, ncr_complete / utfr_complete / uinr_complete (same plan from related states), tcr regression / monitor completeness and the plan-level equations of all five operators (single constraint), pipe_pipeline_certified (completeness composes, bounds add), each tied to the code by the structural correspondences of harness/layera.py and harness/layera_<compiler>.py (evidence keys layerA_*). LAYER B: complete_check_correct for all plans of any pair of problems; unsolvable_transfers (unsolvable compiled problem implies unsolvable original, up to the bound); complete_search_witness (a false answer names a valid original plan). The quantifier over plans is proved, the quantifier over problems is sampled.",
    "note": "level stays translation_validation: PROVED for all problems of the instantaneous fragment (Layer A, Props/C07.v + part files Props/C07_*.v) = QuantifiersRemover (when no action is left out for conflicting expanded effects; otherwise finding C07-qr-forall-syntactic-conflict-action-dropped), StateInvariantsRemover, BoundedTypesRemover, ConditionalEffectsRemover (given C37_conflict_drop_sound's conclusion; otherwise finding C07-cer-syntactic-conflict-variant-dropped), DisjunctiveConditionsRemover without and with the auxiliary goal action (bound k+1, C07_pipe.v), Grounder, NegativeConditionsRemover (C07_ncr.v), UsertypeFluentsRemover (C07_utfr.v), UndefinedInitialNumericRemover (C07_uinr.v; the unguarded shapes are recorded findings), pipelines of certified stages (C07_pipe.v: completeness composes, bounds add); TrajectoryConstraintsRemover: regression and monitor completeness and the plan-level equations for a single constraint of each operator (C07_tcr.v); VALIDATED ONLY = TCR with several constraints, durative actions, the other pipelines. Hypotheses as listed in C06's note. Layer B: validated, not proved for all problems. Reading (DESIGN.md 6.00): 'maps back to the same sequence' is modulo original steps that change no ground fluent (documented: variants/groundings without effects are discarded); bound k+1 only for compilers that add a goal-achieving action (DisjunctiveConditionsRemover and pipelines containing it). A compiler that rejects a problem as unsolvable (TrajectoryConstraintsRemover: constraint violated initially) is checked by searching the original for a valid plan. Strict documented semantics on both sides; witnesses double-checked with the real validator. No axioms.",
}


def noop_flags(c, w):
    """which steps of the original plan w leave the state unchanged (real simulator)"""
    from unified_planning.engines.sequential_simulator import UPSequentialSimulator
    sim = UPSequentialSimulator(c.problem)
    st = sim.get_initial_state()
    flags = []
    for i in w:
        a, args = c.orig.insts[i]
        nxt = sim.apply(st, a, args)
        if nxt is None:
            return None
        flags.append(c.orig.ser.read_state(nxt) == c.orig.ser.read_state(st))
        st = nxt
    return flags


def brute_force_counterpart(c, w, k):
    """Is there a compiled plan (real validator) of length <= |w| + k whose image is w minus some no-op steps?
    Bounded search used only to double-check a Coq witness."""
    insts = c.comp.insts
    if not insts:
        return False
    if len(insts) ** (len(w) + k) > 6000:
        return None
    try:
        noop = noop_flags(c, w)
    except Exception:  # noqa
        return None
    if noop is None:
        return None

    def matches(image, i, j):
        if i == len(image) and j == len(w):
            return True
        if j == len(w):
            return False
        if i < len(image) and image[i] == w[j] and matches(image, i + 1, j + 1):
            return True
        return noop[j] and matches(image, i, j + 1)

    for L in range(0, len(w) + k + 1):
        for cand in product(range(len(insts)), repeat=L):
            image = [c.back[j] for j in cand if c.back[j] is not None]
            if not matches(image, 0, 0):
                continue
            ok, _ = cc.real_validate(c.comp.problem, c.comp.plan_obj(list(cand)))
            if ok:
                return list(cand)
    return False


# ------------------------------------------------------------------ histories: ONE compiler instance, compile(P1); compile(P2)
# P2 is P1 edited (the same Problem object edited in place, or an edited clone living in the same environment, so
# that the expressions of both problems are the same hash-consed nodes):
#   effect-added / effect-removed   an action keeps its name, its effects change (preferably an assignment to a fluent
#                                    that a trajectory constraint / goal reads)
#   action-replaced                  an action is replaced by a same-named action with other preconditions
#   object-added                     one more object of a declared type
#   constraint-changed               a trajectory constraint (or, without one, a goal) is replaced by one sharing a subformula
# The SECOND result is judged against P2 by the ordinary Coq completeness validator (and the "refused as unsolvable"
# search) and compared structurally with the result of a FRESH compiler instance on P2.
HIST_EDITS = ("effect-added", "effect-removed", "action-replaced", "object-added", "constraint-changed")


def _ground_atoms(e, out):
    """Boolean fluent expressions with constant arguments occurring in e (in order of appearance, no duplicates)"""
    if e.is_fluent_exp():
        if e.type.is_bool_type() and all(a.is_object_exp() or a.is_constant() for a in e.args) and e not in out:
            out.append(e)
        return
    for a in e.args:
        _ground_atoms(a, out)


def constraint_atoms(p):
    out = []
    for e in list(p.trajectory_constraints) + list(p.goals):
        _ground_atoms(e, out)
    return out


def problem_atoms(p):
    out = constraint_atoms(p)
    for a in p.actions:
        for e in getattr(a, "preconditions", []):
            _ground_atoms(e, out)
        for eff in getattr(a, "effects", []):
            _ground_atoms(eff.fluent, out)
            _ground_atoms(eff.condition, out)
    return out


def _put_effect(a, e):
    if e.is_increase():
        a.add_increase_effect(e.fluent, e.value, e.condition, forall=e.forall)
    elif e.is_decrease():
        a.add_decrease_effect(e.fluent, e.value, e.condition, forall=e.forall)
    else:
        a.add_effect(e.fluent, e.value, e.condition, forall=e.forall)


def _some_condition(gen, p, a, rng):
    em = p.environment.expression_manager
    if hasattr(gen, "gen_bool") and rng.random() < 0.5:
        return gen.gen_bool(1, list(a.parameters), ())
    atoms = problem_atoms(p)
    if not atoms:
        return None
    x = rng.choice(atoms)
    return x if rng.random() < 0.5 else em.Not(x)


def edit_second(gen, p, rng, kind):
    """edit the problem p (P1 itself or its clone) into P2; returns a description or None when the edit does not apply"""
    from unified_planning.model import InstantaneousAction, Object
    em = p.environment.expression_manager
    acts = [a for a in p.actions if isinstance(a, InstantaneousAction)]
    catoms = constraint_atoms(p)
    if kind == "effect-removed":
        cands = [a for a in acts if len(a.effects) >= 2]
        if not cands:
            kind = "effect-added"
        else:
            a = rng.choice(cands)
            effs = list(a.effects)
            pref = [i for i, e in enumerate(effs) if e.fluent in catoms]
            i = rng.choice(pref) if pref and rng.random() < 0.75 else rng.randrange(len(effs))
            a.clear_effects()
            for j, e in enumerate(effs):
                if j != i:
                    _put_effect(a, e)
            return "effect-removed:%s:%s" % (a.name, effs[i].fluent)
    if kind == "object-added":
        types = list(p.user_types)
        if types:
            t = rng.choice(types)
            nm = rng.choice([x for x in ["zz", "z_1", "a_b_c", "q0", "new_0"] if not p.has_name(x)])
            p.add_object(Object(nm, t, p.environment))
            return "object-added:%s:%s" % (nm, t.name)
        kind = "effect-added"
    if kind == "effect-added":
        if not acts:
            return None
        a = rng.choice(acts)
        free = [x for x in catoms if not any(e.fluent == x for e in a.effects)]
        if free and (rng.random() < 0.7 or not hasattr(gen, "add_random_effect")):
            x = rng.choice(free)
            v = rng.random() < 0.5
            a.add_effect(x, v)
            return "effect-added:%s:%s:=%s" % (a.name, x, v)
        if hasattr(gen, "add_random_effect"):
            for _ in range(8):
                try:
                    gen.add_random_effect(a, list(a.parameters))
                    return "effect-added:%s:%s" % (a.name, a.effects[-1].fluent)
                except Exception:  # noqa  (conflicting / ill-typed random effect: try another one)
                    pass
        return None
    if kind == "action-replaced":
        if not acts:
            return None
        a = rng.choice(acts)
        b = a.clone()
        old = list(a.preconditions)
        b.clear_preconditions()
        drop = rng.randrange(len(old)) if old and rng.random() < 0.6 else None
        for j, c in enumerate(old):
            if j != drop:
                b.add_precondition(c)
        added = None
        if drop is None or rng.random() < 0.5:
            added = _some_condition(gen, p, b, rng)
            if added is not None:
                b.add_precondition(added)
        if list(b.preconditions) == old:
            return None
        allacts = list(p.actions)
        p.clear_actions()
        for x in allacts:
            p.add_action(b if x is a else x)
        return "action-replaced:%s:dropped=%s:added=%s" % (a.name, None if drop is None else old[drop], added)
    # constraint-changed
    tcs = list(p.trajectory_constraints)
    tcs = [c for c in tcs if c.is_always() or c.is_sometime() or c.is_at_most_once() or c.is_sometime_before() or c.is_sometime_after()]
    if tcs and len(tcs) == len(p.trajectory_constraints):
        i = rng.randrange(len(tcs))
        c = tcs[i]
        phi = c.args[0]
        same_op = (em.Always if c.is_always() else em.Sometime if c.is_sometime() else em.AtMostOnce if c.is_at_most_once()
                   else em.SometimeBefore if c.is_sometime_before() else em.SometimeAfter)
        atoms = problem_atoms(p)
        alts = []
        if atoms:        # the same operator over an argument that keeps the old argument as a subformula
            x = rng.choice(atoms)
            lit = x if rng.random() < 0.5 else em.Not(x)
            alts += [lambda: same_op(em.Or(phi, lit), *c.args[1:]), lambda: same_op(em.And(phi, lit), *c.args[1:])]
        if c.is_always():
            alts += [lambda: em.Sometime(phi), lambda: em.AtMostOnce(phi)]
        elif c.is_sometime():
            alts += [lambda: em.AtMostOnce(phi), lambda: em.Always(phi)]
        elif c.is_at_most_once():
            alts += [lambda: em.Sometime(phi), lambda: em.Always(em.Not(phi))]
        elif c.is_sometime_before():
            alts += [lambda: em.SometimeAfter(phi, c.args[1]), lambda: em.SometimeBefore(c.args[1], phi), lambda: em.Sometime(phi)]
        else:
            alts += [lambda: em.SometimeBefore(phi, c.args[1]), lambda: em.SometimeAfter(c.args[1], phi), lambda: em.Sometime(c.args[1])]
        new = rng.choice(alts)()
        p.clear_trajectory_constraints()
        for j, x in enumerate(tcs):
            p.add_trajectory_constraint(new if j == i else x)
        return "constraint-changed:%s -> %s" % (c, new)
    goals = list(p.goals)
    extra = _some_condition(gen, p, acts[0], rng) if acts else None
    drop = rng.randrange(len(goals)) if len(goals) > 1 and (extra is None or rng.random() < 0.5) else None
    if drop is None and extra is None:
        return None
    p.clear_goals()
    for j, g in enumerate(goals):
        if j != drop:
            p.add_goal(g)
    if drop is None or rng.random() < 0.5:
        if extra is not None:
            p.add_goal(extra)
    return "goal-changed:dropped=%s:added=%s" % (None if drop is None else goals[drop], extra)


def tcr_history_sources(rng, n):
    """propositional toggle problems (every fluent has an _on and an _off action, some actions assign a second fluent)
    with one trajectory constraint of every operator over compound arguments: the problems in which the regression of
    a constraint through an action depends on ALL the effects of the action"""
    out = []
    ops = ["always", "amo", "sometime", "sb", "sa", "always", "sometime", "amo"]
    from unified_planning.engines.compilers import TrajectoryConstraintsRemover
    for i in range(n):
        op = ops[i % len(ops)]
        for attempt in range(6):       # prefer a first problem that the compiler does not refuse as unsolvable
            inits = {"a": rng.random() < 0.5, "b": rng.random() < 0.5, "c": rng.random() < 0.5}
            env, em, p, fl = cc._toggle_base("hist-traj-%s-%d" % (op, i), inits)
            for a in p.actions:
                if rng.random() < 0.4:
                    tgt = rng.choice([x for x in sorted(fl) if not a.name.startswith(x + "_")])
                    a.add_effect(fl[tgt], rng.random() < 0.5)
            phi, psi = cc._compound(em, fl, rng, False), cc._compound(em, fl, rng, False)
            p.add_trajectory_constraint(cc._traj(em, op, phi, psi))
            g = rng.choice(sorted(fl))
            p.add_goal(rng.choice([fl[g], em.Not(fl[g]), em.Or(fl[g], em.Not(fl[g]))]))
            try:
                TrajectoryConstraintsRemover().compile(p)
                break
            except Exception:  # noqa
                pass
        out.append(cc.HandGen(p, "hist-traj-%s" % op))
    return out


def compare_with_fresh(c, f):
    """the second result of the used compiler instance against the result of a fresh instance on the same problem"""
    if (c.raised is None) != (f.raised is None):
        return "the used instance %s, a fresh instance %s" % (
            "returned a result" if c.raised is None else "raised %s: %s" % (type(c.raised).__name__, str(c.raised)[:100]),
            "returned a result" if f.raised is None else "raised %s: %s" % (type(f.raised).__name__, str(f.raised)[:100]))
    if c.raised is not None:
        if type(c.raised) is not type(f.raised) or str(c.raised) != str(f.raised):
            return "the used instance raised %s: %s, a fresh instance %s: %s" % (
                type(c.raised).__name__, str(c.raised)[:100], type(f.raised).__name__, str(f.raised)[:100])
        return None
    if c.result is None or f.result is None or c.result.problem is None or f.result.problem is None:
        return None
    if c.result.problem != f.result.problem:
        return "the compiled problem of the used instance differs from the compiled problem of a fresh instance"
    if c.live and f.live and c.back != f.back:
        return "the map-back table of the used instance differs from the one of a fresh instance"
    return None


def history_cases(ctx, first_idx, per_spec, n_tcr, max_insts, stats):
    rng = ctx.rng
    out = []
    for si, spec in enumerate(cc.compiler_specs()):
        probe = spec["make"]()
        probe = probe._compilers[0] if spec["pipeline"] else probe
        tcr = spec["id"] == "trajectory-constraints-remover"
        sources = []
        if tcr:
            srcs = tcr_history_sources(rng, n_tcr)
            kinds = ["effect-added", "effect-removed", "effect-added", "action-replaced", "constraint-changed",
                     "effect-removed", "effect-added", "object-added"]
            sources += [(g, kinds[i % len(kinds)]) for i, g in enumerate(srcs)]
        for j in range(max(per_spec, len(HIST_EDITS)) if tcr else per_spec):
            sources.append((None, HIST_EDITS[(si + j) % len(HIST_EDITS)]))
        for gen, kind in sources:
            try:
                if gen is None:
                    gen = cc.generate(rng, spec)
                    if gen is None:
                        continue
                if not probe.supports(gen.problem.kind):
                    continue
                comp = spec["make"]()
                try:
                    comp.compile(gen.problem)
                except Exception:  # noqa  (the first compilation is an ordinary case: reported there / by C08)
                    stats["first_compilation_raised"] = stats.get("first_compilation_raised", 0) + 1
                in_place = rng.random() < 0.5
                p2 = gen.problem if in_place else gen.problem.clone()
                what = None
                for _ in range(4):
                    what = edit_second(gen, p2, rng, kind)
                    if what is not None:
                        break
                if what is None or not probe.supports(p2.kind):
                    stats["edit_not_applicable"] = stats.get("edit_not_applicable", 0) + 1
                    continue
            except Exception as e:  # noqa  (an edit that the API rejects: skip the history)
                stats["build_errors"] = stats.get("build_errors", 0) + 1
                stats["build_error_last"] = "%s: %s" % (type(e).__name__, str(e)[:120])
                continue
            g2 = cc.HandGen(p2, "history2:%s:%s:%s" % (getattr(gen, "label", "generated"), "in-place" if in_place else "clone", what))
            c = cc.Case(first_idx + len(out), spec, g2, compiler=comp).run(max(max_insts, 20))
            c.history_kind = what.split(":")[0]
            c.fresh = cc.Case(-1, spec, g2).run(max(max_insts, 20))
            c.fresh_diff = compare_with_fresh(c, c.fresh)
            stats["histories"] = stats.get("histories", 0) + 1
            stats.setdefault("by_edit", {})
            stats["by_edit"][c.history_kind] = stats["by_edit"].get(c.history_kind, 0) + 1
            stats.setdefault("by_compiler", {})
            stats["by_compiler"][spec["id"]] = stats["by_compiler"].get(spec["id"], 0) + 1
            out.append(c)
    return out


def run(ctx):
    ok_proofs = ctx.check_props(extra=["theories/Corr/Corr_C06.v", "theories/Corr/Corr_LayerA.v"])
    per, n, max_insts = (20, 2, 12) if ctx.quick else (45, 3, 14)
    cases, gstats = cc.build_cases(ctx, per, max_insts)
    import time as _timeh
    _th = _timeh.time()
    hstats = {}
    hcases = history_cases(ctx, len(cases), 3 if ctx.quick else 8, 16 if ctx.quick else 32, max_insts, hstats)
    hstats["seconds_build"] = round(_timeh.time() - _th, 1)
    layer_a_cases = cases                  # Layer A correspondences run on the ordinary cases only
    cases = cases + hcases
    live = [c for c in cases if c.live]
    def bound(c):        # a history whose result differs from a fresh compiler's is searched two steps deeper
        return n + 2 if getattr(c, "fresh_diff", None) else n

    reports = cc.coq_reports(ctx, live, lambda c: cc.complete_term(c, c.spec["aux"], bound(c)), label="complete",
                             shard=8 if ctx.quick else 12, timeout=1500)
    # compilers that refused the problem as unsolvable: the original must have no valid plan (up to n)
    refused = [c for c in cases if c.raised is not None and "PROBLEM NOT SOLVABLE" in str(c.raised) and c.orig is not None
               and len(c.orig.insts) <= max_insts]
    if refused:
        def term(c):
            return "solvable_report T%do %d%%nat" % (c.idx, n)
        old = [c.render for c in refused]
        for c in refused:
            c.render = (lambda c=c: c.orig.render("%do" % c.idx))
        refused_reports = cc.coq_reports(ctx, refused, term, label="refused", shard=10)
    else:
        refused_reports = {}
    nontrivial = set()
    nfail = 0
    valid_plans_total = with_valid_plans = 0
    for c in refused:
        r = refused_reports[c.idx]
        if r[0] != 0:
            w = r[1:]
            rv, why = cc.real_validate(c.problem, c.orig.plan_obj(w))
            ctx.fail("oracle", "%s rejected the problem as unsolvable (%s) but the plan %s is valid" % (
                c.spec["id"], str(c.raised)[:80], c.orig.plan_json(w)),
                sorted(set(["c07", c.spec["id"], "rejected-as-unsolvable"] + c.spec["members"])),
                dict(cc.case_json(c), original_plan=c.orig.plan_json(w), real_validator_on_original=[rv, why]), True)
    for c in live:
        nvalid, r = reports[c.idx][0], reports[c.idx][1:]
        valid_plans_total += nvalid
        with_valid_plans += nvalid > 0
        if nvalid > 0 and c.orig.insts:
            nontrivial.add(c.idx)
        if r[0] == 0:
            continue
        nfail += 1
        w = r[1:]
        k = c.spec["aux"]
        rv_o, why_o = cc.real_validate(c.problem, c.orig.plan_obj(w))
        bf = brute_force_counterpart(c, w, k)
        confirmed = rv_o is True and bf is False
        tags = sorted(set(["c07", c.spec["id"]] + c.spec["members"])) + cc.shape_tags(c.problem) + cc.mirrored_tags(c)
        tags.append("confirmed-by-real-validator" if confirmed else
                    ("real-validator-finds-counterpart" if bf else "strict-semantics-only"))
        extra = {}
        hist = ""
        if getattr(c, "history_kind", None) is not None:      # second compilation of one compiler instance
            tags += ["history-one-compiler-instance", "history-" + c.history_kind]
            hist = " [second compilation of ONE compiler instance, after the problem was edited (%s)%s]" % (
                c.history_kind, "; a FRESH compiler instance gives a different result on the same problem: " + c.fresh_diff
                if c.fresh_diff else "; a fresh compiler instance gives the same result")
            if c.fresh_diff:
                tags.append("used-compiler-differs-from-fresh")
            extra = dict(history=c.gen.label, differs_from_fresh_compiler=c.fresh_diff,
                         fresh_compiled_problem_text=(None if c.fresh.comp is None else str(c.fresh.comp.problem)))
        ctx.fail("oracle",
                 "%s: the plan %s is valid for the original problem but no valid compiled plan of length <= %d maps back to it"
                 % (c.spec["id"], c.orig.plan_json(w), len(w) + k) + hist,
                 tags,
                 dict(cc.case_json(c), **extra, original_plan=c.orig.plan_json(w), real_validator_on_original=[rv_o, why_o],
                      brute_force_counterpart_by_real_validator=(None if bf in (None, False) else c.comp.plan_json(bf)),
                      brute_force_status=("not-run" if bf is None else ("none-found" if bf is False else "found")),
                      coq_oracle="UPV.Compilers.SimCheck.complete_search (k=%d, n=%d)" % (k, bound(c))),
                 True)
    failed_idx = set(c.idx for c in live if reports[c.idx][1] != 0)
    # histories: a used compiler instance must give what a fresh one gives (cheap extra oracle; no failing plan known,
    # so it is reported as a broken tie unless the validator above / the refused search already reported the case)
    refused_failed = set(c.idx for c in refused if refused_reports[c.idx][0] != 0)
    ndiff = 0
    for c in hcases:
        if c.fresh_diff is None:
            continue
        ndiff += 1
        if c.idx in failed_idx or c.idx in refused_failed:
            continue
        ctx.fail("corr", "%s: second compilation of ONE compiler instance after the problem was edited (%s): %s; no original plan "
                 "without counterpart found up to length %d" % (c.spec["id"], c.history_kind, c.fresh_diff, bound(c)),
                 sorted(set(["c07", c.spec["id"], "history-one-compiler-instance", "history-" + c.history_kind,
                             "used-compiler-differs-from-fresh"] + c.spec["members"])),
                 dict(cc.case_json(c), history=c.gen.label,
                      fresh_compiled_problem_text=(None if c.fresh.comp is None else str(c.fresh.comp.problem))), False)
    hstats["differs_from_fresh"] = ndiff
    hstats["live"] = sum(1 for c in hcases if c.live)
    hstats["with_a_valid_original_plan"] = sum(1 for c in hcases if c.live and reports[c.idx][0] > 0)
    # ------------------------------------------------------------------ Layer A: structural correspondence -------
    # (separate from the validation above; see harness/layera.py)
    cases = layer_a_cases
    import time as _time0
    _t0la = _time0.time()
    la_cov = layera.run(ctx, cases, validator_failed=failed_idx)
    la_cov.setdefault("layerA_seconds", {})["layera"] = round(_time0.time() - _t0la, 1)
    # further per-compiler Layer A correspondences, one module per compiler (harness/layera_<x>.py: run(ctx, cases,
    # validator_failed) -> dict of evidence keys prefixed layerA_<x>_); a module that is absent is skipped
    import importlib
    for _m in layera.EXTRA_MODULES:
        try:
            _mod = importlib.import_module("harness." + _m)
        except ModuleNotFoundError:
            continue
        import time as _time
        _t = _time.time()
        la_cov.update(_mod.run(ctx, cases, validator_failed=failed_idx))
        la_cov.setdefault("layerA_seconds", {})[_m] = round(_time.time() - _t, 1)
    # ------------------------------------------------------------------ end of Layer A block ----------------------
    if not ok_proofs:
        ctx.proof_broken()
    dist = cc.distribution(cases)
    dist.update(gstats)
    dist["counterexamples"] = nfail
    dist["valid_original_plans_covered"] = valid_plans_total
    dist["problems_with_a_valid_original_plan"] = with_valid_plans
    dist["refused_as_unsolvable_checked"] = len(refused)
    dist["histories_compile_edit_compile"] = hstats
    samples = [dict(compiler=c.spec["id"], original_instances=len(c.orig.insts), compiled_instances=len(c.comp.insts),
                    aux_budget=c.spec["aux"], report=reports[c.idx]) for c in live[:4]]
    ctx.finish({
        "evaluations": len(live) + len(refused),
        "distinct_nontrivial": len(nontrivial),
        "rule": "one evaluation = one (original, compiled, map-back table) triple: every valid original plan up to length %d is enumerated in Coq and matched against the compiled problem; non-trivial = the original problem has at least one VALID plan within the bound (counted in Coq); distinct by generated problem" % n,
        "samples": samples,
        "distribution": dist,
        "plan_length": n,
        "exhaustive": False,
        **la_cov,
    }, "translation_validation",
        assumptions=["problems are sampled (generated inside each compiler's supported kind); original plans are covered exhaustively up to the length bound",
                     "'same sequence of action instances' is read modulo original steps that change no ground fluent"])
