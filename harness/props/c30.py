"""C30 — KS0 conformant-to-classical compilation is sound and complete.

Theorems: coq/theories/Props/C30.v (belief-space semantics over spec_step false, the verified checkers, the model of
the dominated-state reduction).  The KS0 translation itself is NOT modelled: it is validated per instance.

For every generated conformant problem (explicit possible initial states, or a ContingentProblem whose oneof / or /
unknown constraints are enumerated independently by the harness) the real Ks0Compiler is run; the original problem,
the possible initial states, the compiled problem and the plan-back table are serialised, and Coq decides
  soundness     every valid compiled plan of length <= n maps back to a plan that is executable from EVERY possible
                initial state and reaches the goals from each (product exploration; for every length when it closes),
  completeness  if the belief-space search finds a conformant plan of length <= n, the compiled problem is solvable
                (witness plan re-checked by valid_plan; "unsolvable" is exact: closure of the compiled state space),
  reduction     the model of _reduce_possible_initial_states_to_basis keeps the states the implementation kept, and
                neither the belief-space answer nor the classical answer changes when dominated states are dropped.
Every failure carries concrete plans, re-validated with the real SequentialPlanValidator / UPSequentialSimulator.
"""
import contextlib
import os
import hashlib
import json
import re
import warnings
from itertools import product

from harness.core import gn, gnat, glist, gpair, gopt, gbool, CoqError
from harness.gen.problems import SerProblem
from harness.ser import ser_value
from harness.c30_gen import KGen, SimOracle, lit_parts, independent_models, hand_corpus

META = {
    "level": "translation_validation",
    "technique": "Coq-verified checkers (belief-space semantics over the shared sequential semantics; breadth-first "
                 "product exploration proved exhaustive up to the bound and, when closed, for every plan length) run by "
                 "vm_compute on the output of the real Ks0Compiler; Coq proof of the dominated-state reduction on a "
                 "literal-level model of _get_relevance_relation / _reduce_possible_initial_states_to_basis",
    "text": "The KS0 translation (ks0_compiler.py, ~1000 lines, on top of three other compilers) is not modelled. For "
            "each generated Boolean conformant problem and set of possible initial states the compiled problem and "
            "its plan-back table are checked inside Coq: all valid compiled plans up to the bound map back to "
            "conformant plans (conformant_check, proved equivalent to validity from every possible initial state), "
            "and a conformant plan found by the proved-exhaustive belief-space search implies a solvable compiled "
            "problem. The basis reduction is proved sound for the model (dropping dominated states changes no "
            "plan's conformance) and the model is compared with the implementation on every instance.",
    "note": "Validated, not proved, for the translation: the guarantee is per generated instance and bound. Trusted: "
            "Coq kernel/vm_compute, the serialiser of problems/states/plan-back tables, the independent enumeration "
            "of contingent constraints in the harness. The reduction theorem is about the literal-level semantics of "
            "the prepared (ground, DNF-normalised) problem; its agreement with the shared semantics is checked per "
            "instance. No axioms.",
}

PREAMBLE = "Local Open Scope N_scope.\n"
IMPORTS = ["UPV.Core.Expr", "UPV.Core.Eval", "UPV.Core.Interp", "UPV.Planning.Problem", "UPV.Planning.Sem",
           "UPV.Model.Belief", "UPV.Corr.Corr_C30"]


# ---------------------------------------------------------------------- running the real compiler
@contextlib.contextmanager
def ks0_hooks(disable_reduction=False):
    """Record what the compiler's internal stages computed (and optionally switch the reduction off)."""
    from unified_planning.engines.compilers.ks0_compiler import Ks0Compiler
    rec = {"reduce": [], "contingent": []}
    orig_reduce = Ks0Compiler.__dict__["_reduce_possible_initial_states_to_basis"]
    orig_cont = Ks0Compiler.__dict__["_conformant_problem_from_contingent"]

    def reduce_hook(cls, problem, prepared_problem, states):
        out = states if disable_reduction else orig_reduce.__func__(cls, problem, prepared_problem, states)
        rec["reduce"].append((problem, prepared_problem, tuple(states), tuple(out)))
        return out

    def cont_hook(problem):
        out = orig_cont.__func__(problem)
        rec["contingent"].append(out)
        return out

    Ks0Compiler._reduce_possible_initial_states_to_basis = classmethod(reduce_hook)
    Ks0Compiler._conformant_problem_from_contingent = staticmethod(cont_hook)
    try:
        yield rec
    finally:
        Ks0Compiler._reduce_possible_initial_states_to_basis = orig_reduce
        Ks0Compiler._conformant_problem_from_contingent = orig_cont


def run_compiler(gen, bits, disable_reduction=False):
    from unified_planning.engines.compilers.ks0_compiler import Ks0Compiler
    from unified_planning.engines import CompilationKind
    with ks0_hooks(disable_reduction) as rec:
        if gen.contingent:
            comp = Ks0Compiler()
        else:
            comp = Ks0Compiler(possible_initial_states=[gen.state_of(b) for b in bits])
        res = comp.compile(gen.problem, CompilationKind.CONFORMANT_TO_CLASSICAL)
    return res, rec


def ground_fluent_exps(problem):
    em = problem.environment.expression_manager
    out = []
    for f in problem.fluents:
        for args in product(*[list(problem.objects(pp.type)) for pp in f.signature]):
            out.append(em.FluentExp(f, tuple(em.ObjectExp(o) for o in args)))
    return out


def arg_value(x):
    if x.is_bool_constant():
        return x.bool_constant_value()
    return x.object()


class CompactSer(SerProblem):
    """SerProblem with the short constructors of Corr_C30.v for the shapes the compiled problems consist of
    (the generated files open N_scope, so bare numerals are of type N)"""

    def cx(self, e):
        from harness.ser import ser_expr
        n = self.names
        if e.is_fluent_exp() and all(a.is_object_exp() for a in e.args):
            return "(fl %d [%s])" % (n.fl(e.fluent()), "; ".join(str(n.obj(a.object())) for a in e.args))
        if e.is_not() and e.arg(0).is_fluent_exp() and all(a.is_object_exp() for a in e.arg(0).args):
            x = e.arg(0)
            return "(nfl %d [%s])" % (n.fl(x.fluent()), "; ".join(str(n.obj(a.object())) for a in x.args))
        if e.is_and():
            return "(EAnd %s)" % glist([self.cx(a) for a in e.args])
        if e.is_true():
            return "tt"
        return ser_expr(e, n)

    def effect(self, e):
        n = self.names
        if (e.is_assignment() and not e.forall and e.value.is_bool_constant() and e.fluent.type.is_bool_type()
                and all(a.is_object_exp() for a in e.fluent.args)):
            return "(ko %d [%s] %s %s)" % (n.fl(e.fluent.fluent()), "; ".join(str(n.obj(a.object())) for a in e.fluent.args),
                                           gbool(e.value.bool_constant_value()), self.cx(e.condition))
        return SerProblem.effect(self, e)

    def action(self, a):
        if len(a.parameters) == 0:
            return "(ka %s %s)" % (glist([self.cx(c) for c in a.preconditions]), glist([self.effect(e) for e in a.effects]))
        return SerProblem.action(self, a)

    def render(self):
        n = self.names
        p = self.problem
        objs = glist([gpair(gn(n.ty(t)), glist([gn(n.obj(o)) for o in p.objects(t)])) for t in self.types])
        fls = glist(["(fb %s %s)" % (gn(n.fl(f)), glist([gn(n.ty(pp.type)) for pp in f.signature])) for f in self.fluents])
        acts = glist([gpair(gn(n.act(a)), self.action(a)) for a in self.actions])
        goals = glist([self.cx(g) for g in p.goals])
        return ("{| p_objs := %s; p_ifun := []; p_fluents := %s;\n p_actions := %s;\n p_goals := %s; p_invs := [] |}"
                % (objs, fls, acts, goals))


class Compiled:
    """The observable result of one compilation: compiled problem, its initial state, the plan-back table."""

    def __init__(self, gen, res):
        from unified_planning.plans import SequentialPlan, ActionInstance
        from unified_planning.engines.sequential_simulator import UPSequentialSimulator
        self.res = res
        self.cp = res.problem
        self.ser = CompactSer(self.cp)
        self.cacts = list(self.cp.actions)
        self.back = []
        by_name = {a.name: a for a in gen.actions}
        for ca in self.cacts:
            pl = res.plan_back_conversion(SequentialPlan([ActionInstance(ca)], self.cp.environment))
            if len(pl.actions) == 0:
                self.back.append(None)
            else:
                assert len(pl.actions) == 1
                ai = pl.actions[0]
                self.back.append((by_name[ai.action.name], tuple(ai.actual_parameters)))
        with warnings.catch_warnings():
            warnings.simplefilter("ignore")
            self.sim = UPSequentialSimulator(self.cp, error_on_failed_checks=False)
        self.c0 = self.ser.read_state(self.sim.get_initial_state())
        self.gfl = ground_fluent_exps(self.cp)

    def render(self):
        return self.ser.render()

    def ser_c0(self):
        return self.ser.ser_state(self.c0)

    def ser_cacts(self):
        return glist([gpair(gn(self.ser.names.act(a)), "[]") for a in self.cacts])


def ser_step(ser, a, args):
    return gpair(gn(ser.names.act(a)), glist([ser_value(arg_value(x), ser.names) for x in args]))


# ---------------------------------------------------------------------- one instance
class Instance:
    def __init__(self, idx, gen, n, m, d):
        self.idx = idx
        self.gen = gen
        self.n, self.m, self.d = n, m, d
        self.plain = gen.plain
        self.oser = CompactSer(self.plain)
        self.insts = gen.ground_instances()
        self.bits = list(gen.bits)                      # possible initial states, as the harness knows them
        self.dedup = list(dict.fromkeys(self.bits))
        self.comp = None
        self.rec = None
        self.red_text = None          # Gallina rpart, when the reduction looked at >= 2 states
        self.basis = None
        self.full = None

    def ser_bits(self, b):
        return self.oser.ser_state(list(b))

    def kcase(self):
        c = self.comp
        back = glist([gpair(gpair(gn(c.ser.names.act(ca)), "[]"),
                            gopt(None if o is None else ser_step(self.oser, o[0], o[1])))
                      for ca, o in zip(c.cacts, c.back)])
        return ("{| k_P := %s;\n k_insts := %s;\n k_inits := %s;\n k_CP := %s;\n k_c0 := %s;\n k_cacts := %s;\n"
                " k_back := %s;\n k_n := %s; k_d := %s; k_m := %s;\n k_red := %s |}" % (
                    self.oser.render(), glist([ser_step(self.oser, a, args) for a, args in self.insts]),
                    glist([self.ser_bits(b) for b in self.bits]), c.render(), c.ser_c0(), c.ser_cacts(), back,
                    gnat(self.n), gnat(self.d), gnat(self.m), gopt(self.red_text)))

    def describe(self):
        return {"label": getattr(self.gen, "label", "generated"), "problem": str(self.gen.problem), "possible_initial_states": [bits_json(self.gen, b) for b in self.bits],
                "contingent": self.gen.contingent,
                "constraints": [(k, [str(x) for x in ls]) for k, ls in getattr(self.gen, "constraints", [])]}


def bits_json(gen, b):
    return {str(fe): bool(v) for fe, v in zip(gen.gfl, b)}


def prepared_to_nprob(prepared):
    """_PreparedNormalizedProblem -> Gallina nprob; atoms are numbered by position in ground_fluent_expressions"""
    atom = {fe: i for i, fe in enumerate(prepared.ground_fluent_expressions)}

    def lit(l):
        a, neg = lit_parts(l)
        return gpair(gn(atom[a]), gbool(not neg))
    acts = []
    for pa in prepared.prepared_actions:
        rules = glist(["(nr %s %s)" % (glist([lit(c) for c in r.condition_literals]), lit(r.target_literal))
                       for r in pa.effect_rules])
        acts.append("(na %s %s)" % (glist([lit(c) for c in pa.precondition_literals]), rules))
    text = "{| np_atoms := %s; np_acts := %s; np_goal := %s |}" % (
        glist([gn(i) for i in range(len(atom))]), glist(acts), glist([lit(g) for g in prepared.goal_literals]))
    return text, atom, lit


def state_index(states_all, st, gfl):
    sig = tuple(st.get_value(fe).bool_constant_value() for fe in gfl)
    return sig


# ---------------------------------------------------------------------- generation
def syntactic_atoms_in_conditions(gen):
    """fluent symbols that occur in some precondition, effect condition or goal"""
    seen = set()

    def walk(e):
        stack = [e]
        while stack:
            x = stack.pop()
            if x.is_fluent_exp():
                seen.add(x.fluent())
            stack.extend(x.args)
    for a in gen.actions:
        for c in a.preconditions:
            walk(c)
        for e in a.effects:
            walk(e.condition)
    for g in gen.problem.goals:
        walk(g)
    return seen


def add_dominated_state(gen, rng):
    """deliberately dominated state: a copy of a possible state that differs only on a fluent no condition reads"""
    used = syntactic_atoms_in_conditions(gen)
    free = [i for i, fe in enumerate(gen.gfl) if fe.fluent() not in used]
    if not free or len(gen.bits) >= 4:
        return False
    src = list(rng.choice(gen.bits))
    i = rng.choice(free)
    src[i] = not src[i]
    pos = rng.randrange(len(gen.bits) + 1)
    gen.bits.insert(pos, tuple(src))
    return True


def make_instance(rng, idx, contingent, n, m, d, stats):
    """generate until an instance is accepted; acceptance is biased towards instances with longer conformant plans"""
    from unified_planning.model import Problem
    family = "neg" if (idx % 10 in (2, 6, 9) or idx % 20 == 14) else None     # 7 of 20 quick problems (2 contingent)
    if idx % 10 == 3 or idx % 20 in (7, 11):
        family = "relost"                                                       # 4 of 20 (1 contingent)
    if idx % 20 in (4, 8, 15):
        family = "altchain"                                                     # 3 of 20 (1 contingent)
    while True:
        gen = KGen(rng, contingent=contingent, family=family)
        stats["generated"] += 1
        if contingent:
            plain = Problem("k", gen.env)
            for f in gen.fluents:
                plain.add_fluent(f, default_initial_value=False)
            plain.add_objects(gen.problem.all_objects)
            for a in gen.actions:
                plain.add_action(a)
            for g in gen.problem.goals:
                plain.add_goal(g)
            gen.plain = plain
        else:
            gen.plain = gen.problem
            if rng.random() < 0.5 and add_dominated_state(gen, rng):
                gen.deliberate = True
        with warnings.catch_warnings():
            warnings.simplefilter("ignore")
            orc = SimOracle(gen.plain, gen.gfl)
            plan = orc.belief_search([gen.state_of(b) for b in gen.bits], gen.ground_instances(), n)
        L = None if plan is None else len(plan)
        want = idx % 5
        if family == "relost":
            keep = 1.0 if (L or 0) >= 2 else 0.0        # the family is about plans that lose and re-establish the literal
        elif family is not None:
            keep = 1.0
        elif want in (0, 3):                 # a conformant plan of length >= 2
            keep = 1.0 if (L or 0) >= 2 else 0.0
        elif want == 1:                    # the longer the better
            keep = 1.0 if (L or 0) >= 3 else (0.1 if L == 2 else 0.0)
        elif want == 2:                    # anything, mildly biased
            keep = {None: 0.15, 0: 0.05, 1: 0.3}.get(L, 1.0)
        else:                              # no conformant plan within the bound, or a one-step plan
            keep = 1.0 if L is None else (0.5 if L == 1 else 0.0)
        if rng.random() < keep:
            if family is not None:
                stats["family_" + family] = stats.get("family_" + family, 0) + 1
            inst = Instance(idx, gen, n, m, d)
            inst.oracle = orc
            inst.py_plan_len = L
            return inst


# ---------------------------------------------------------------------- re-validation on the real engines
def revalidate_unsound(inst, ids):
    """ids: positions in the compiled action list.  Returns (property_fails, details)."""
    from unified_planning.plans import SequentialPlan, ActionInstance
    from unified_planning.engines.plan_validator import SequentialPlanValidator
    from unified_planning.engines.results import ValidationResultStatus
    c = inst.comp
    if any(i >= len(c.cacts) for i in ids):
        return False, {"error": "witness outside the action list"}
    plan = SequentialPlan([ActionInstance(c.cacts[i]) for i in ids], c.cp.environment)
    with warnings.catch_warnings():
        warnings.simplefilter("ignore")
        vres = SequentialPlanValidator(environment=c.cp.environment).validate(c.cp, plan)
    valid = vres.status == ValidationResultStatus.VALID
    mapped = c.res.plan_back_conversion(plan)
    mplan = [(ai.action, tuple(ai.actual_parameters)) for ai in mapped.actions]
    by_name = {a.name: a for a in inst.gen.actions}
    mplan = [(by_name[a.name], args) for a, args in mplan]
    ok, why = inst.oracle.conformant([inst.gen.state_of(b) for b in inst.bits], mplan)
    det = {"compiled_plan": [c.cacts[i].name for i in ids], "validator_says_valid": valid,
           "mapped_back_plan": [(a.name, [str(x) for x in args]) for a, args in mplan],
           "per_initial_state": list(zip([bits_json(inst.gen, b) for b in inst.bits], why))}
    return valid and not ok, det


def revalidate_incomplete(inst, ids):
    """ids: positions in the original instance list (a conformant plan).  Exact search of the compiled problem with
    the real simulator."""
    if any(i >= len(inst.insts) for i in ids):
        return False, {"error": "witness outside the instance list"}
    plan = [inst.insts[i] for i in ids]
    ok, why = inst.oracle.conformant([inst.gen.state_of(b) for b in inst.bits], plan)
    c = inst.comp
    with warnings.catch_warnings():
        warnings.simplefilter("ignore")
        corc = SimOracle(c.cp, c.gfl)
        kplan, closed = corc.classical_search(corc.sim.get_initial_state(), [(a, ()) for a in c.cacts], 60000)
    det = {"conformant_plan": [(a.name, [str(x) for x in args]) for a, args in plan], "per_initial_state": why,
           "compiled_search_exact": closed, "compiled_plan_found": None if kplan is None else [a.name for a, _ in kplan]}
    return ok and closed and kplan is None, det


def diagnose_incomplete(inst):
    """Is the conformant plan already lost by the normalisation (DNF split of disjunctive preconditions / goals into
    separate actions), i.e. before the K_S0 translation proper?  Exact belief-space search of the normalised problem."""
    if not inst.rec["reduce"]:
        return ["no-normalized-problem"]
    nproblem, prepared, nstates, _kept = inst.rec["reduce"][0]
    with warnings.catch_warnings():
        warnings.simplefilter("ignore")
        norc = SimOracle(nproblem, list(prepared.ground_fluent_expressions))
        plan = norc.belief_search(list(nstates), [(a, ()) for a in nproblem.actions], 60)
    tags = []
    if plan is None and norc.last_closed:
        tags.append("normalized-problem-not-conformant-solvable")      # exact: the whole belief space was explored
    elif plan is None:
        tags.append("normalized-problem-undecided")
    else:
        tags.append("normalized-problem-conformant-solvable")
    names = [a.name for a in nproblem.actions]
    if any("fake_action" in x for x in names):
        tags.append("split-goal")
    backs = [o for o in inst.comp.back if o is not None]
    if len(set((a.name, args) for a, args in backs)) < len(backs):
        tags.append("split-action")
    if "split-goal" in tags or "split-action" in tags:
        tags.append("dnf-split")
    return tags


# ---------------------------------------------------------------------- the check
def run(ctx):
    import unified_planning as up
    import time
    t_start = time.time()
    ok_proofs = ctx.check_props(extra=["theories/Corr/Corr_C30.v"])
    t_proofs = time.time()
    rng = ctx.rng
    nprob = int(os.environ.get("C30_NPROB", "0")) or (20 if ctx.quick else 200)
    n = 3 if ctx.quick else 5
    m = 40
    d = 8 if ctx.quick else 12
    stats = {"generated": 0, "hand_written": 0, "instances": 0, "contingent": 0, "explicit": 0, "rejected": 0, "rejected_msgs": {},
             "n_initial_states": {}, "py_conformant_len": {}, "compiled_actions": 0, "merge_or_aux_actions": 0,
             "deliberate_dominated": 0, "reduction_cases": 0, "reduction_dropped": 0, "sound_closed": 0,
             "conformant_exists": 0, "compiled_solvable": 0, "compiled_unsolvable_exact": 0,
             "completeness_undecided": 0, "product_nodes_total": 0, "contingent_enumerations_compared": 0,
             "ground_fluents": {}, "constraint_shapes": {}}
    insts, kcases = [], []
    todo = [("hand", g) for g in hand_corpus()] + [("gen", i) for i in range(nprob)]
    for kind, what in todo:
        if kind == "hand":
            gen = what
            with warnings.catch_warnings():
                warnings.simplefilter("ignore")
                orc = SimOracle(gen.plain, gen.gfl)
                plan = orc.belief_search([gen.state_of(b) for b in gen.bits], gen.ground_instances(), n)
            inst = Instance(-1, gen, n, m, d)
            inst.oracle, inst.py_plan_len = orc, (None if plan is None else len(plan))
            contingent = False
            stats["hand_written"] += 1
        else:
            i = what
            contingent = (i % 3 == 2)
            inst = make_instance(rng, i, contingent, n, m, d, stats)
        gen = inst.gen
        try:
            res, rec = run_compiler(gen, inst.bits)
        except up.exceptions.UPUsageError as e:
            stats["rejected"] += 1
            key = re.sub(r"`[^`]*`", "`..`", str(e))[:90]
            stats["rejected_msgs"][key] = stats["rejected_msgs"].get(key, 0) + 1
            if inst.py_plan_len is not None:
                ctx.fail("oracle", "Ks0Compiler rejects a problem of its supported kind that has a conformant plan: %s" % e,
                         ["c30", "rejected-solvable", key[:40]], dict(inst.describe(), error=str(e)), True)
            continue
        except Exception as e:  # noqa
            ctx.fail("impl-exception", "Ks0Compiler.compile raised %s: %s" % (type(e).__name__, str(e)[:200]),
                     ["c30", "compile-raises", type(e).__name__], dict(inst.describe(), error=repr(e)), True)
            continue
        inst.comp = Compiled(gen, res)
        inst.rec = rec
        stats["instances"] += 1
        stats["contingent" if contingent else "explicit"] += 1
        stats["deliberate_dominated"] += bool(getattr(gen, "deliberate", False))
        k = str(len(inst.dedup))
        stats["n_initial_states"][k] = stats["n_initial_states"].get(k, 0) + 1
        k = str(len(gen.gfl))
        stats["ground_fluents"][k] = stats["ground_fluents"].get(k, 0) + 1
        k = str(inst.py_plan_len)
        stats["py_conformant_len"][k] = stats["py_conformant_len"].get(k, 0) + 1
        stats["compiled_actions"] += len(inst.comp.cacts)
        stats["merge_or_aux_actions"] += sum(1 for o in inst.comp.back if o is None)
        # contingent: the compiler's enumeration of the constraints vs. the harness's own
        if contingent:
            stats["contingent_enumerations_compared"] += 1
            _cp, cstates = rec["contingent"][0]
            theirs = sorted(set(tuple(s.get_value(fe).bool_constant_value() for fe in gen.gfl) for s in cstates))
            ours = sorted(set(inst.bits))
            if theirs != ours:
                ctx.fail("oracle", "possible initial states derived from oneof/or/unknown constraints differ from the models of the constraints",
                         ["c30", "contingent-enumeration"],
                         dict(inst.describe(), compiler_states=[bits_json(gen, b) for b in theirs],
                              models_of_constraints=[bits_json(gen, b) for b in ours]), True)
        # reduction part: whenever the reduction had >= 2 states to look at
        if rec["reduce"] and len(rec["reduce"][0][2]) >= 2:
            full = None
            if len(rec["reduce"][0][3]) < len(rec["reduce"][0][2]):
                try:
                    res_full, _rec_full = run_compiler(gen, inst.bits, disable_reduction=True)
                except Exception as e:  # noqa
                    ctx.fail("impl-exception", "compilation without the reduction raised %r" % (e,), ["c30", "compile-raises"],
                             inst.describe(), False)
                    continue
                full = Compiled(gen, res_full)
            nproblem, prepared, nstates, kept = rec["reduce"][0]
            nptext, atom, lit = prepared_to_nprob(prepared)
            ngfl = list(prepared.ground_fluent_expressions)
            trues = [[atom[fe] for fe in ngfl if s.get_value(fe).bool_constant_value()] for s in nstates]
            basis = [[id(x) for x in nstates].index(id(s)) for s in kept]
            # the normalized states in terms of the original ground fluents (matched by name: the compiler's own order
            # of the states need not be the harness's)
            by_name = {str(fe): fe for fe in ngfl}
            all_bits = [tuple(s.get_value(by_name[str(fe)]).bool_constant_value() for fe in gen.gfl) for s in nstates]
            if sorted(all_bits) != sorted(inst.dedup):
                ctx.fail("oracle", "the states handed to the reduction are not the (de-duplicated) possible initial states",
                         ["c30", "rebuilt-states-differ"], dict(inst.describe(), rebuilt=[bits_json(gen, b) for b in all_bits]), True)
            kept_bits = [all_bits[j] for j in basis]
            inst.all_bits = all_bits
            inst.red_text = (
                "{| r_NP := %s;\n r_states := %s; r_basis := %s; r_targets := %s;\n r_all := %s;\n r_kept := %s;\n"
                " r_full := %s |}" % (
                    nptext, glist([glist([gn(a) for a in t]) for t in trues]), glist([gnat(j) for j in basis]),
                    glist([lit(t) for t in prepared.merge_targets]),
                    glist([inst.ser_bits(b) for b in all_bits]), glist([inst.ser_bits(b) for b in kept_bits]),
                    gopt(None if full is None else "(%s,\n %s, %s)" % (full.render(), full.ser_c0(), full.ser_cacts()))))
            inst.basis, inst.full = basis, full
            stats["reduction_cases"] += 1
            stats["reduction_dropped"] += len(basis) < len(nstates)
        insts.append(inst)
        kcases.append(inst.kcase())
    # contingent constraints only (cheap, no Coq): the compiler's enumeration vs. the models of the constraints
    for _ in range(40 if ctx.quick else 400):
        gen = KGen(rng, contingent=True)
        try:
            _res, rec = run_compiler(gen, gen.bits)
        except up.exceptions.UPUsageError:
            continue
        except Exception as e:  # noqa
            ctx.fail("impl-exception", "Ks0Compiler.compile raised %s: %s" % (type(e).__name__, str(e)[:200]),
                     ["c30", "compile-raises", type(e).__name__], {"problem": str(gen.problem), "error": repr(e)}, True)
            continue
        stats["contingent_enumerations_compared"] += 1
        key = "+".join(sorted(k for k, _ in gen.constraints))
        stats["constraint_shapes"][key] = stats["constraint_shapes"].get(key, 0) + 1
        _cp, cstates = rec["contingent"][0]
        theirs = sorted(set(tuple(s.get_value(fe).bool_constant_value() for fe in gen.gfl) for s in cstates))
        ours = sorted(set(gen.bits))
        if theirs != ours:
            ctx.fail("oracle", "possible initial states derived from oneof/or/unknown constraints differ from the models of the constraints",
                     ["c30", "contingent-enumeration"],
                     {"problem": str(gen.problem), "constraints": [(k, [str(x) for x in ls]) for k, ls in gen.constraints],
                      "compiler_states": [bits_json(gen, b) for b in theirs],
                      "models_of_constraints": [bits_json(gen, b) for b in ours]}, True)
    t_gen = time.time()
    shard = 6 if ctx.quick else 8
    codes = ctx.coq_codes(kcases, "code", imports=IMPORTS, preamble=PREAMBLE, shard=shard, timeout=1700,
                          label="kcases") if kcases else []
    t_coq = time.time()
    stats["seconds"] = {"proofs": round(t_proofs - t_start, 1), "generation_and_compilation": round(t_gen - t_proofs, 1),
                        "coq_checkers": round(t_coq - t_gen, 1)}
    kcodes = [c % (1 << 40) for c in codes]
    rcodes = [c >> 40 for c in codes]
    nontrivial = set()
    samples = []
    for inst, case, code in zip(insts, kcases, kcodes):
        flags, nodes = code % 256, code // 256
        stats["product_nodes_total"] += nodes
        stats["sound_closed"] += bool(flags & 16)
        stats["conformant_exists"] += bool(flags & 32)
        stats["compiled_solvable"] += bool(flags & 64)
        stats["compiled_unsolvable_exact"] += bool(flags & 128)
        stats["completeness_undecided"] += bool(flags & 8)
        if nodes >= 6:
            nontrivial.add(hashlib.sha1(case.encode()).hexdigest())
        if len(samples) < 2:
            samples.append(dict(inst.describe(), code_flags=flags, product_nodes=nodes,
                                compiled_actions=[a.name for a in inst.comp.cacts]))
        kind_tag = "contingent" if inst.gen.contingent else "explicit-states"
        pre = PREAMBLE + "Definition c : kcase := %s.\n" % case
        if flags & 4:
            ctx.fail("corr", "case outside the checker's model (a key outside the declared ground fluents)",
                     ["c30", "outside-model"], inst.describe(), False)
        if flags & 1:
            w = ctx.coq_show("witness_unsound c", imports=IMPORTS, preamble=pre)
            ids = parse_ids(w)
            pf, det = (False, {"error": "no witness from the model"}) if ids is None else revalidate_unsound(inst, ids)
            ctx.fail("oracle" if pf else "corr",
                     "a valid plan of the compiled problem maps back to a plan that is not conformant (theorem C30_sound_check_correct; checker sound_check)",
                     ["c30", "soundness", kind_tag], dict(inst.describe(), witness=det, coq_witness=w), pf)
        if flags & 2:
            # re-validate on the real engines first: a conformant plan found with the real simulator + an exact search of the
            # compiled problem; Coq's own witness is only fetched when the implementation-side search does not confirm
            with warnings.catch_warnings():
                warnings.simplefilter("ignore")
                pyplan = inst.oracle.belief_search([inst.gen.state_of(b) for b in inst.bits], inst.insts, inst.n)
            w = None
            if pyplan is not None:
                ids = [inst.insts.index(st) for st in pyplan]
            else:
                w = ctx.coq_show("witness_conformant c", imports=IMPORTS, preamble=pre)
                ids = parse_ids(w)
            pf, det = (False, {"error": "no witness from the model"}) if ids is None else revalidate_incomplete(inst, ids)
            tags = ["c30", "completeness", kind_tag] + diagnose_incomplete(inst)
            ctx.fail("oracle" if pf else "corr",
                     "a conformant plan exists but the compiled problem is unsolvable (checkers exists_conformant_plan / unsolvable_closed)",
                     tags, dict(inst.describe(), witness=det, coq_witness=w, diagnosis=tags[3:]), pf)
    for inst, case, code in zip(insts, kcases, rcodes):
        basis, full = inst.basis, inst.full
        if code & 3:
            pre = PREAMBLE + "Definition c : kcase := %s.\n" % case
            w = ctx.coq_show("match k_red c with Some r => Some (model_basis r, merge_targets (r_NP r)) | None => None end",
                             imports=IMPORTS, preamble=pre)
            ctx.fail("corr", "model of _reduce_possible_initial_states_to_basis / merge targets differs from the implementation (corr:C30:basis_indices)",
                     ["c30", "reduction-model-drift"], dict(inst.describe(), implementation_basis=basis, model=w), False)
        if code & 4:
            ctx.fail("oracle", "dropping the states the reduction calls dominated changes the belief-space answer (conformant plan within the bound)",
                     ["c30", "reduction", "belief-answer-changes"],
                     dict(inst.describe(), kept=[bits_json(inst.gen, inst.all_bits[j]) for j in basis]), True)
        if code & 8:
            ctx.fail("oracle", "the compiled problem's solvability differs with and without the dominated-state reduction",
                     ["c30", "reduction", "classical-answer-changes"],
                     dict(inst.describe(), kept=[bits_json(inst.gen, inst.all_bits[j]) for j in basis],
                          compiled_actions_without_reduction=[a.name for a in (full.cacts if full else [])]), True)
    if not ok_proofs:
        ctx.proof_broken()
    ctx.finish({
        "evaluations": len(kcases) + stats["reduction_cases"],
        "distinct_nontrivial": len(nontrivial),
        "rule": "one evaluation = one (problem, possible initial states) pair checked for soundness and completeness, or one "
                "reduction comparison; non-trivial = the explored product graph (compiled state x belief state) has >= 6 "
                "nodes, i.e. >= 5 edges and a reachable non-initial compiled state; distinct by the serialised case",
        "samples": samples,
        "distribution": stats,
        "bounds": {"belief_search_plan_length": n, "soundness_plan_length": d, "closure_rounds": m,
                   "note": "soundness holds for every plan length on the instances counted in sound_closed"},
        "traces_validated_against_impl": len(kcases),
    }, "translation_validation",
        assumptions=["at most one effect per ground fluent per ground action instance (the property's quantifier)",
                     "possible initial states are total Boolean states",
                     "soundness is checked for all compiled plans up to the bound (every length when the product closes)"])


def parse_ids(text):
    if "Some" not in text:
        return None
    seg = text.split("=", 1)[1].rsplit(":", 1)[0]
    return [int(x) for x in re.findall(r"\d+", seg.replace("%N", ""))]
