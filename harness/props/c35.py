"""C35 — Simulated execution environment is faithful to its contingent problem.

Theorems: coq/theories/Props/C35.v (about coq/theories/Model/ExecEnv.v, which mirrors the repaired
unified_planning/model/contingent/execution_environment.py + contingent_problem.py).
Tie: correspondence + direct oracles.  Generated contingent problems (real API: ContingentProblem(initial_defaults=...),
add_fluent(default_initial_value=...), set_initial_value, add_unknown/oneof/or_initial_constraint, SensingAction with
parameterised observed fluents and sometimes effects, ordinary actions of the C01 grammar) x several random seeds x random
action sequences of length <= 6 are run through the real SimulatedExecutionEnvironment; Coq recomputes, per case,
  * declared initial values of the non-hidden ground fluents (declared_init) and the oneof/or constraints on the observed
    initial state with the expression evaluator (property clauses 1-2),
  * the model of the environment (init_state with the observed oracle answer, env_apply = sim_apply, observations on the
    new state, is_goal) against every observed outcome.
Independent Python oracles (written from the property text: problem.initial_value, literal counting, a separate
UPSequentialSimulator on the contingent problem itself, state lookups, "no state chosen only if no assignment satisfies
the constraints") decide whether a disagreement is a failure of the PROPERTY on the implementation.
The model is a function of the problem and the oracle's answer ONLY; the implementation lives in a process.  Besides the
stand-alone problems (one fresh Environment each) the check therefore runs HISTORIES (GenHistory): sequences of problems
built over one World (one Environment, the same Fluent objects, so the same fluent expressions; sometimes two Environments
with the same names, interleaved), environments created problem after problem, the hidden set shrinking and growing in
between, an earlier problem run again at the end - each environment judged exactly as a stand-alone one.
"""
import json
import random as pyrandom
import warnings
from collections import OrderedDict
from fractions import Fraction
from types import SimpleNamespace

from harness.core import gn, glist, gbool, gopt, gpair
from harness.gen.problems import GenProblem, SerProblem, NAME_POOL_OBJ
from harness.ser import ser_expr, ser_value
from harness.simexplore import arg_value

META = {
    "level": "proof",
    "technique": "Coq proof (initial values of the deterministic clone = declared values at the three levels, hidden values = oracle answer, state constraints <-> assignment constraints, apply/run = sim_apply/run by induction over the action sequence, observations = values in the successor state) + model/implementation correspondence and per-run validation of the oracle's answer by vm_compute",
    "text": "Theorems about a Gallina model of SimulatedExecutionEnvironment (clone, initial state, apply, observations, is_goal_reached) for all contingent problems, all oracle answers and all action sequences; the model, the declared-value lookup and the constraint check are compared with the real environment on generated problems x seeds x action sequences (stand-alone problems and histories of problems sharing fluent objects within one process), and every step is cross-checked against a separate real UPSequentialSimulator.",
    "note": "Trusted: Coq kernel/vm_compute, harness serialiser. pysmt model enumeration + random.choice is an oracle (Section variable pick); that its answer satisfies every oneof/or constraint is checked per run inside Coq. Model mirrors the repaired code (4 fix commits in /repo: per-fluent default, negated-only hidden literal, sensing-action effects, trajectory constraints). max_constraints is left at its default (None). Observed fluents have parameters/constants as arguments. Every non-Boolean fluent has a declared value (an undeclared one would start as the ill-typed constant false). The simulator's known deviation C01-grounding-syntactic-conflict is inherited from the real simulator and not re-reported.",
}

IMPORTS = ["UPV.Core.Expr", "UPV.Core.Eval", "UPV.Core.Interp", "UPV.Planning.Problem", "UPV.Planning.Sem",
           "UPV.Model.ExecEnv", "UPV.Corr.Corr_C01", "UPV.Corr.Corr_C35"]


# ---------------------------------------------------------------------------------------------- generator
class GenContingent(GenProblem):
    """Contingent problems over the C01 grammar (harness/gen/problems.py): same expression / effect generators, but the
    problem is a ContingentProblem with per-type defaults, per-fluent defaults, explicit values, hidden literals with
    unknown / oneof / or constraints, sensing actions."""

    def __init__(self, rng, hand=None, world=None, hide=None, name="g"):  # noqa: super().__init__ deliberately not called (it builds a plain Problem)
        """world: a World (shared Environment, types, objects and Fluent OBJECTS) when the problem is one step of a
        HISTORY of problems; hide: callback bool_atoms -> the atoms to hide at this step (history driver).  With
        world=None the random stream is exactly the one of the stand-alone problems."""
        import unified_planning as up
        from unified_planning.environment import Environment
        from unified_planning.model import Fluent, Object, InstantaneousAction, Variable
        from unified_planning.model.contingent import ContingentProblem, SensingAction
        self.up = up
        self.rng = rng
        self.k = dict(bool_only=False, invariants=True, bounded=True, undefined=False, ifuns=False, forall=True,
                      conditional=True, incdec=True, quantifiers=True, obj_fluents=True, num_params=True,
                      max_actions=2, metrics=False, static_rel=False)
        k = self.k
        self.world = world
        self.env = Environment() if world is None else world.env
        env = self.env
        tm = env.type_manager
        self.em = env.expression_manager
        em = self.em
        self.Variable = Variable
        self.nvars = 0
        self.ifuns = []
        self.metric = None
        B = tm.BoolType()
        self.T0 = tm.UserType("T0")
        self.T1 = tm.UserType("T1", self.T0)
        if world is None:
            names = rng.sample(NAME_POOL_OBJ, 4)
            n0, n1 = rng.randint(1, 2), rng.randint(1, 2)
            self.objs0 = [Object(names[i], self.T0, env) for i in range(n0)]
            self.objs1 = [Object(names[2 + i], self.T1, env) for i in range(n1)]
            allo = self.objs0 + self.objs1
            rng.shuffle(allo)
        else:
            self.objs0, self.objs1, allo = list(world.objs0), list(world.objs1), list(world.allo)
        # ---------------- per-type defaults (ContingentProblem(initial_defaults=...))
        I03, Im12, I, R0, R = tm.IntType(0, 3), tm.IntType(-1, 2), tm.IntType(), tm.RealType(Fraction(-1, 2), 3), tm.RealType()
        self.tdefaults = OrderedDict()
        if rng.random() < 0.7:
            self.tdefaults[B] = rng.random() < 0.5
        if rng.random() < 0.5:
            self.tdefaults[I03] = rng.randint(0, 3)
        if rng.random() < 0.4:
            self.tdefaults[I] = rng.randint(-2, 3)
        if rng.random() < 0.3:
            self.tdefaults[R] = Fraction(rng.randint(-3, 5), 2)
        if rng.random() < 0.4:
            self.tdefaults[self.T0] = rng.choice(allo)
        if rng.random() < 0.3:
            self.tdefaults[self.T1] = rng.choice(self.objs1)
        self.problem = ContingentProblem(name, env, initial_defaults=dict(self.tdefaults))
        p = self.problem
        p.add_objects(allo)
        # ---------------- fluents with per-fluent defaults
        self.fluents = []
        self.fdefaults = OrderedDict()
        cands = fluent_candidates(tm, self.T0, self.T1)
        if world is None:
            chosen = cands[:2] + rng.sample(cands[2:], rng.randint(1, 4))
        else:
            chosen = world.chosen
        for fname, ty, sig in chosen:
            if world is None:
                f = Fluent(fname, ty, OrderedDict(("x%d" % i, t) for i, t in enumerate(sig)), env)
            else:
                f = world.fluent(fname)       # the SAME Fluent object in every problem of the history
            give = rng.random() < 0.45
            if not ty.is_bool_type() and ty not in self.tdefaults:
                give = True      # every non-Boolean fluent has a declared value
            if give:
                d = self.rand_const_in(ty, allo)
                p.add_fluent(f, default_initial_value=d)
                self.fdefaults[f] = d
            else:
                p.add_fluent(f)
            self.fluents.append(f)
        for f, args in self.ground_fluents():
            if rng.random() < 0.4:
                p.set_initial_value(em.FluentExp(f, tuple(em.ObjectExp(o) for o in args)), self.rand_const(f.type))
        # ---------------- hidden literals and constraints
        bool_atoms = [em.FluentExp(f, tuple(em.ObjectExp(o) for o in args)) for f, args in self.ground_fluents()
                      if f.type.is_bool_type()]
        self.constraints = []
        if hide is not None or rng.random() < 0.9:
            if hide is None:
                atoms = rng.sample(bool_atoms, min(len(bool_atoms), rng.randint(1, 4)))
            else:
                atoms = hide(bool_atoms)
            for _ in range(6):
                plan = []
                for _ in range(rng.randint(1, 3)):
                    r = rng.random()
                    if r < 0.3:
                        plan.append(("unknown", [rng.choice(atoms)]))
                    else:
                        lits = [x if rng.random() < 0.7 else em.Not(x)
                                for x in rng.sample(atoms, min(len(atoms), rng.randint(1, 3)))]
                        plan.append(("oneof" if r < 0.65 else "or", lits))
                # mostly satisfiable constraint sets; an unsatisfiable one is kept now and then (the constructor raises)
                if plan_satisfiable(plan, atoms) or rng.random() < 0.08:
                    break
            if hide is not None:
                # a step of a history hides (nearly) all the atoms the driver asked for: the ones no oneof/or uses are unknown
                used = set(lit_parts(x)[1] for _, lits in plan for x in lits)
                plan += [("unknown", [x]) for x in atoms if x not in used and rng.random() < 0.85]
            for kind, lits in plan:
                if kind == "unknown":
                    p.add_unknown_initial_constraint(lits[0])
                elif kind == "oneof":
                    p.add_oneof_initial_constraint(lits)
                else:
                    p.add_or_initial_constraint(lits)
                self.constraints.append((kind, [str(x) for x in lits]))
        # ---------------- actions
        self.actions = []

        def ptypes():
            out = []
            for _ in range(rng.randint(0, 2)):
                r = rng.random()
                if r < 0.45:
                    out.append(self.T0)
                elif r < 0.8:
                    out.append(self.T1)
                elif r < 0.9:
                    out.append(tm.IntType(0, 2))
                else:
                    out.append(B)
            return OrderedDict(("p%d" % i, t) for i, t in enumerate(out))

        def effects(a, lo, hi):
            neff, tries = rng.randint(lo, hi), 0
            while neff > 0 and tries < 12:
                tries += 1
                try:
                    self.add_random_effect(a, list(a.parameters))
                    neff -= 1
                except (up.exceptions.UPConflictingEffectsException, up.exceptions.UPTypeError,
                        up.exceptions.UPUsageError, AssertionError):
                    pass

        for ai in range(rng.randint(1, 2)):
            a = InstantaneousAction("act%d" % ai, ptypes(), env)
            if rng.random() < 0.5:
                a.add_precondition(self.gen_bool(2, list(a.parameters), ()))
            effects(a, 1, 3)
            if not a.effects:
                a.add_effect(em.FluentExp(self.fluents[0]), True)
            p.add_action(a)
            self.actions.append(a)
        for si in range(rng.randint(1, 2)):
            s = SensingAction("sense%d" % si, ptypes(), env)
            if rng.random() < 0.4:
                s.add_precondition(self.gen_bool(1, list(s.parameters), ()))
            for _ in range(rng.randint(1, 3)):
                f = rng.choice(self.fluents)
                args = []
                for pp in f.signature:
                    c = [em.ParameterExp(q) for q in s.parameters
                         if q.type.is_user_type() and self.compatible(q.type, pp.type)]
                    if c and rng.random() < 0.75:
                        args.append(rng.choice(c))
                    else:
                        args.append(em.ObjectExp(rng.choice(self.objects_of(pp.type))))
                s.add_observed_fluent(em.FluentExp(f, tuple(args)))
            if rng.random() < 0.4:
                effects(s, 1, 2)
            p.add_action(s)
            self.actions.append(s)
        for _ in range(rng.randint(1, 2)):
            p.add_goal(self.gen_bool(2, [], ()))
        if rng.random() < 0.25:
            from unified_planning.model.contingent.execution_environment import SimulatedExecutionEnvironment
            for _ in range(4):
                inv = self.gen_bool(1, [], ())
                if inv.simplify().is_constant():
                    continue
                p.add_state_invariant(inv)
                # prefer invariants that some initial state satisfies (otherwise every constructor call raises)
                try:
                    with warnings.catch_warnings():
                        warnings.simplefilter("ignore")
                        pyrandom.seed(35)     # the constructor draws from the global random: keep the generator reproducible
                        SimulatedExecutionEnvironment(p)
                    break
                except up.exceptions.UPProblemDefinitionError:
                    if rng.random() < 0.15:
                        break
                    p.clear_trajectory_constraints()
                except Exception:  # noqa: no model (IndexError) or a crash: run_case observes and reports it
                    break

    def rand_const_in(self, ty, allo):
        if ty.is_user_type():
            return self.rng.choice([o for o in allo if self.compatible(o.type, ty)])
        return self.rand_const(ty)


def plan_satisfiable(plan, atoms):
    from itertools import product
    for bits in product([False, True], repeat=len(atoms)):
        val = dict(zip(atoms, bits))

        def lt(x):
            return (not val[x.arg(0)]) if x.is_not() else val[x]
        if all(kind == "unknown" or (sum(1 for x in lits if lt(x)) == 1 if kind == "oneof" else any(lt(x) for x in lits))
               for kind, lits in plan):
            return True
    return False


def fluent_candidates(tm, T0, T1):
    B = tm.BoolType()
    I03, Im12, I, R0, R = tm.IntType(0, 3), tm.IntType(-1, 2), tm.IntType(), tm.RealType(Fraction(-1, 2), 3), tm.RealType()
    return [("b0", B, []), ("b1", B, [T0]), ("b2", B, [T1]), ("b3", B, []),
            ("i0", I03, []), ("i1", Im12, [T0]), ("i2", I, []), ("r0", R0, []), ("r1", R, [T1]),
            ("o0", T0, []), ("o1", T1, [T0])]


# ---------------------------------------------------------------------------------------------- histories
class World:
    """One Environment with the types, objects and Fluent OBJECTS that every problem of a history is built from (a
    benchmark generator / an experiment script builds its problems like this, in the global environment).  `like`: a
    second world with the very same names in ANOTHER Environment."""

    def __init__(self, rng, like=None):
        from unified_planning.environment import Environment
        from unified_planning.model import Fluent, Object
        self.env = Environment()
        tm = self.env.type_manager
        self.T0 = tm.UserType("T0")
        self.T1 = tm.UserType("T1", self.T0)
        if like is None:
            names = rng.sample(NAME_POOL_OBJ, 4)
            n0, n1 = rng.randint(1, 2), rng.randint(1, 2)
            self.onames0, self.onames1 = names[:n0], names[2:2 + n1]
            order = list(range(n0 + n1))
            rng.shuffle(order)
            self.order = order
            cands = fluent_candidates(tm, self.T0, self.T1)
            # all four Boolean fluents (5..8 ground atoms that can be hidden) + some of the others
            self.chosen_names = [c[0] for c in cands[:4]] + [c[0] for c in rng.sample(cands[4:], rng.randint(1, 2))]
        else:
            self.onames0, self.onames1, self.order, self.chosen_names = like.onames0, like.onames1, like.order, like.chosen_names
        self.objs0 = [Object(x, self.T0, self.env) for x in self.onames0]
        self.objs1 = [Object(x, self.T1, self.env) for x in self.onames1]
        both = self.objs0 + self.objs1
        self.allo = [both[i] for i in self.order]
        cands = dict((c[0], c) for c in fluent_candidates(tm, self.T0, self.T1))
        self.chosen = [cands[x] for x in self.chosen_names]
        self._fluents = dict((name, Fluent(name, ty, OrderedDict(("x%d" % i, t) for i, t in enumerate(sig)), self.env))
                             for name, ty, sig in self.chosen)
        self.hidden_now = []      # atoms (FNodes of this world's Environment) hidden by the latest problem
        self.hidden_ever = set()

    def fluent(self, name):
        return self._fluents[name]


class GenHistory:
    """A HISTORY: a sequence of contingent problems created one after the other in one process over a shared World
    (same Environment, same Fluent objects, hence the same fluent expressions), for each of which environments are
    created before the next problem is.  Between consecutive problems the set of hidden atoms shrinks AND grows: some
    hidden atom becomes known (it drops out of every constraint; it may get an explicit value), some atom that was not
    hidden appears under the new constraints, the rest stays hidden.  Everything else (defaults, explicit values,
    constraints, actions, goals) is drawn afresh per problem by GenContingent.  With two worlds, the steps alternate at
    random between two Environments that declare the same names."""

    def __init__(self, rng, hid, length, two_worlds):
        self.rng = rng
        self.hid = hid
        self.worlds = [World(rng)]
        if two_worlds:
            self.worlds.append(World(rng, like=self.worlds[0]))
        self.steps = []           # (gen, world index, hidden atoms as strings)
        for i in range(length):
            wi = rng.randrange(len(self.worlds))
            w = self.worlds[wi]
            gen = GenContingent(rng, world=w, hide=lambda atoms, w=w: self.next_hidden(w, atoms), name="h%d_%d" % (hid, i))
            now = sorted(set(lit_parts(x)[1] for x in gen.problem.hidden_fluents), key=str)
            w.hidden_now = now
            w.hidden_ever.update(now)
            gen.label = "history %d step %d" % (hid, i)
            gen.history = self
            gen.step = i
            self.steps.append((gen, wi, [str(x) for x in now]))

    def next_hidden(self, w, atoms):
        rng = self.rng
        prev = [x for x in w.hidden_now if x in atoms]
        if not prev:
            return rng.sample(atoms, min(len(atoms), rng.randint(2, 4)))
        # shrink: at least one hidden atom becomes known (unless only one was hidden) ...
        keep = rng.sample(prev, rng.randint(1, max(1, len(prev) - 1)))
        # ... and grow: 1-2 atoms that were not hidden in the previous problem (never hidden before, when there are any)
        rest = [x for x in atoms if x not in prev]
        fresh = [x for x in rest if x not in w.hidden_ever]
        pool = fresh if fresh and rng.random() < 0.7 else rest
        new = rng.sample(pool, min(len(pool), rng.randint(1, 2)))
        out = (keep + new)[:5]
        rng.shuffle(out)
        return out

    def describe(self, upto):
        return [{"step": i, "problem": g.problem.name, "environment": "E%d" % wi, "hidden_atoms": hs}
                for i, (g, wi, hs) in enumerate(self.steps[:upto + 1])]


def hand_problems():
    """Hand-written corner cases: the four repaired defects, each in its smallest form."""
    from unified_planning.environment import Environment
    from unified_planning.model import Fluent, Object, InstantaneousAction
    from unified_planning.model.contingent import ContingentProblem, SensingAction
    out = []
    for label in ("per-fluent-default", "negated-only-literal", "sensing-effects", "state-invariant", "unsat"):
        env = Environment()
        tm, em = env.type_manager, env.expression_manager
        B, T = tm.BoolType(), tm.UserType("T")
        o1, o2 = Object("o1", T, env), Object("o2", T, env)
        tdef = OrderedDict([(B, False), (tm.IntType(0, 5), 1)])
        p = ContingentProblem(label, env, initial_defaults=dict(tdef))
        p.add_objects([o1, o2])
        f, g, n = Fluent("f", B, environment=env), Fluent("g", B, environment=env), Fluent("n", tm.IntType(0, 5), environment=env)
        h = Fluent("h", B, OrderedDict([("x", T)]), env)
        p.add_fluent(f, default_initial_value=True)
        p.add_fluent(g)
        p.add_fluent(n, default_initial_value=3)
        p.add_fluent(h)
        fdef = OrderedDict([(f, True), (n, 3)])
        if label == "negated-only-literal":
            p.add_oneof_initial_constraint([em.Not(h(o1)), h(o2)])
            p.set_initial_value(h(o1), True)
        elif label == "unsat":
            p.add_oneof_initial_constraint([h(o1), h(o2)])
            p.add_or_initial_constraint([em.Not(h(o1))])
            p.add_or_initial_constraint([em.Not(h(o2))])
        else:
            p.add_oneof_initial_constraint([h(o1), h(o2)])
            p.add_unknown_initial_constraint(g)
        s = SensingAction("sense", OrderedDict([("p", T)]), env)
        s.add_observed_fluent(h(s.parameter("p")))
        s.add_observed_fluent(em.FluentExp(g))
        s.add_observed_fluent(em.FluentExp(n))
        if label == "sensing-effects":
            s.add_effect(g, em.Not(g))
            s.add_increase_effect(n, 1)
        a = InstantaneousAction("flip", _env=env)
        a.add_precondition(em.FluentExp(f))
        a.add_effect(f, False)
        a.add_increase_effect(n, 2)
        p.add_action(a)
        p.add_action(s)
        p.add_goal(em.And(em.Not(f), g))
        if label == "state-invariant":
            p.add_state_invariant(em.Or(f, em.Not(h(o1))))
        gen = SimpleNamespace(problem=p, actions=[a, s], tdefaults=tdef, fdefaults=fdef, em=em, label=label,
                              constraints=[label])
        gen.ground_instances = lambda a=a, s=s, em=em, o1=o1, o2=o2: [(a, ()), (s, (em.ObjectExp(o1),)), (s, (em.ObjectExp(o2),))]
        out.append(gen)
    return out


# ---------------------------------------------------------------------------------------------- serialisation
def lit_parts(x):
    pos = not x.is_not()
    fe = x if pos else x.arg(0)
    return pos, fe


def ser_key(ser, fe):
    n = ser.names
    return "(%s, %s)" % (gn(n.fl(fe.fluent())), glist([ser_value(a, n) for a in fe.args]))


def ser_lit(ser, x):
    pos, fe = lit_parts(x)
    return "{| l_pos := %s; l_key := %s |}" % (gbool(pos), ser_key(ser, fe))


def render_cproblem(gen, ser):
    from unified_planning.model.contingent import SensingAction
    p, n = gen.problem, ser.names
    base = ser.render()
    observed = []
    for a in p.actions:
        if isinstance(a, SensingAction):
            observed.append(gpair(gn(n.act(a)), glist([
                gpair(gn(n.fl(o.fluent())), glist([ser_expr(x, n) for x in o.args])) for o in a.observed_fluents])))
    explicit = glist(["(%s, %s, %s)" % (gn(n.fl(fe.fluent())), glist([ser_value(a, n) for a in fe.args]), ser_value(v, n))
                      for fe, v in p.explicit_initial_values.items()])
    fdef = glist([gpair(gn(n.fl(f)), ser_value(pyval(v), n)) for f, v in gen.fdefaults.items()])
    # type objects are interned by the TypeManager: number them (IntType() and RealType() are different dict keys)
    tids = {}
    for t in [f.type for f in p.fluents] + list(gen.tdefaults):
        tids.setdefault(t, len(tids))
    ftypes = glist([gpair(gn(n.fl(f)), gn(tids[f.type])) for f in p.fluents])
    tdef = glist([gpair(gn(tids[t]), ser_value(pyval(v), n)) for t, v in gen.tdefaults.items()])
    hidden = glist([ser_lit(ser, x) for x in p.hidden_fluents])
    oneof = glist([glist([ser_lit(ser, x) for x in c]) for c in p.oneof_constraints])
    orc = glist([glist([ser_lit(ser, x) for x in c]) for c in p.or_constraints])
    return ("{| cp_base := %s; cp_observed := %s; cp_explicit := %s; cp_fdefault := %s; cp_ftype := %s; "
            "cp_tdefault := %s; cp_hidden := %s; cp_oneof := %s; cp_or := %s |}" % (
                base, glist(observed), explicit, fdef, ftypes, tdef, hidden, oneof, orc))


def pyval(v):
    if isinstance(v, bool) or not isinstance(v, int):
        return v
    return Fraction(v)


def const_py(v):
    if v is None:
        return None
    if v.is_bool_constant():
        return v.bool_constant_value()
    if v.is_object_exp():
        return v.object()
    return Fraction(v.constant_value())


def ser_obs_rows(ser, rows):
    return glist([gpair(ser_key(ser, fe), gopt(None if v is None else ser_value(v, ser.names))) for fe, v in rows])


def ser_case(ser, rec):
    n = ser.names
    steps = []
    for st in rec["steps"]:
        res = None
        if st["state"] is not None:
            res = gpair(ser.ser_obs(st["state"]), ser_obs_rows(ser, st["obs"]))
        steps.append("{| st_act := %s; st_args := %s; st_res := %s; st_goal := %s |}" % (
            gn(n.act(st["action"])), glist([ser_value(arg_value(x), n) for x in st["args"]]), gopt(res), gbool(bool(st["goal"]))))
    return "{| c_init := %s; c_raise := %s; c_goal0 := %s; c_steps := %s |}" % (
        gopt(None if rec["init"] is None else ser.ser_obs(rec["init"])), gn(rec["raise"]), gbool(bool(rec["goal0"])), glist(steps))


# ---------------------------------------------------------------------------------------------- running the implementation
def run_case(gen, ser, seed, seq_rng, maxlen):
    """Build the environment under random.seed(seed), drive a random action sequence; record everything observed and
    evaluate the independent Python oracles.  Returns the record."""
    import unified_planning as up
    from unified_planning.exceptions import UPUsageError, UPProblemDefinitionError
    from unified_planning.model import UPState
    from unified_planning.model.contingent import SensingAction
    from unified_planning.model.contingent.execution_environment import SimulatedExecutionEnvironment
    p = gen.problem
    em = p.environment.expression_manager
    rec = {"seed": seed, "init": None, "raise": 0, "goal0": False, "steps": [], "exc": None, "py": []}
    pyrandom.seed(seed)
    try:
        env = SimulatedExecutionEnvironment(p)
    except IndexError:
        rec["raise"] = 1
        # ---- oracle (e): "picks a hidden initial state": no state is chosen only when no assignment of the hidden atoms
        # satisfies the constraints (plain enumeration, independent of pysmt and of the Coq model)
        hatoms = sorted(set(lit_parts(x)[1] for x in p.hidden_fluents), key=str)
        cplan = [("oneof", list(c)) for c in p.oneof_constraints] + [("or", list(c)) for c in p.or_constraints]
        if len(hatoms) <= 12 and plan_satisfiable(cplan, hatoms):
            rec["py"].append("no-hidden-state-chosen:IndexError although the oneof/or constraints are satisfiable")
        return rec
    except UPProblemDefinitionError:
        rec["raise"] = 2
        return rec
    except Exception as e:  # noqa
        rec["raise"] = 3
        rec["exc"] = "constructor:%s:%s" % (type(e).__name__, str(e)[:100])
        return rec
    init = ser.read_state(env._state)
    rec["init"] = init
    keys = [ser.fexp(f, args) for f, args in ser.gfluents]
    cur = dict(zip(keys, init))
    # ---- oracle (a): declared values of non-hidden ground fluents
    hidden_atoms = set(lit_parts(x)[1] for x in p.hidden_fluents)
    for fe in keys:
        if fe in hidden_atoms:
            continue
        d = const_py(p.initial_value(fe))
        if d is not None and cur[fe] != d:
            rec["py"].append("declared:%s declared=%s got=%s" % (fe, d, cur[fe]))
    # ---- oracle (b): constraints on the chosen state
    def lit_true(x):
        pos, fe = lit_parts(x)
        return (cur.get(fe) is True) if pos else (cur.get(fe) is False)
    for c in p.oneof_constraints:
        if sum(1 for x in c if lit_true(x)) != 1:
            rec["py"].append("oneof:%s" % [str(x) for x in c])
    for c in p.or_constraints:
        if not any(lit_true(x) for x in c):
            rec["py"].append("or:%s" % [str(x) for x in c])
    # ---- oracle (c): a separate real simulator on the contingent problem itself
    sim = gen_sim(gen)

    def as_state(vals):
        d = {}
        for fe, v in zip(keys, vals):
            if v is not None:
                d[fe] = em.ObjectExp(v) if not isinstance(v, (bool, int, Fraction)) else (
                    em.Bool(v) if isinstance(v, bool) else (em.Int(int(v)) if Fraction(v).denominator == 1 and fe.type.is_int_type() else em.Real(Fraction(v))))
        return UPState(d, p)

    try:
        rec["goal0"] = bool(env.is_goal_reached())
        if rec["goal0"] != bool(sim.is_goal(as_state(init))):
            rec["py"].append("goal0")
    except Exception as e:  # noqa
        rec["exc"] = "is_goal_reached:%s:%s" % (type(e).__name__, str(e)[:100])
    insts = gen.ground_instances()
    prev = init
    for _ in range(seq_rng.randint(1, maxlen)):
        a, args = seq_rng.choice(insts)
        st = {"action": a, "args": args, "state": None, "obs": [], "goal": False, "raised": None}
        try:
            out = env.apply(a(*args))
            st["state"] = ser.read_state(env._state)
            st["obs"] = [(k, const_py(v)) for k, v in out.items()]
        except UPUsageError:
            pass
        except Exception as e:  # noqa
            st["raised"] = "apply:%s:%s" % (type(e).__name__, str(e)[:100])
            rec["exc"] = rec["exc"] or st["raised"]
        after_env = ser.read_state(env._state)
        if st["state"] is None and after_env != prev:
            rec["py"].append("state-changed-by-failed-apply:%s" % a.name)
        try:
            st["goal"] = bool(env.is_goal_reached())
        except Exception as e:  # noqa
            rec["exc"] = rec["exc"] or "is_goal_reached:%s:%s" % (type(e).__name__, str(e)[:100])
        # simulator oracle on the previous state
        try:
            nxt = sim.apply(as_state(prev), a, args)
            exp = None if nxt is None else ser.read_state(nxt)
        except Exception as e:  # noqa
            exp = "sim-raised:%s" % type(e).__name__
        st["sim"] = exp
        if exp != st["state"] and not (isinstance(exp, str)):
            rec["py"].append("step:%s%s env=%s sim=%s" % (a.name, [str(x) for x in args], st["state"], exp))
        if st["state"] is not None:
            # oracle (d): observations = current values of the sensed fluents
            cur2 = dict(zip(keys, st["state"]))
            expobs = OrderedDict()
            if isinstance(a, SensingAction):
                subs = dict(zip([pp.name for pp in a.parameters], args))
                for o in a.observed_fluents:
                    oargs = tuple(subs[x.parameter().name] if x.is_parameter_exp() else x for x in o.args)
                    fe = em.FluentExp(o.fluent(), oargs)
                    expobs[fe] = cur2.get(fe)
            if list(expobs.items()) != st["obs"]:
                rec["py"].append("obs:%s got=%s expected=%s" % (a.name, [(str(k), str(v)) for k, v in st["obs"]],
                                                                 [(str(k), str(v)) for k, v in expobs.items()]))
            try:
                if st["goal"] != bool(sim.is_goal(as_state(st["state"]))):
                    rec["py"].append("goal-after:%s" % a.name)
            except Exception:  # noqa
                pass
            prev = st["state"]
        rec["steps"].append(st)
    return rec


_SIMS = {}


def gen_sim(gen):
    from unified_planning.engines.sequential_simulator import UPSequentialSimulator
    if id(gen) not in _SIMS:
        _SIMS[id(gen)] = UPSequentialSimulator(gen.problem, False)
    return _SIMS[id(gen)]


def rec_json(gen, ser, rec):
    return {"seed": rec["seed"], "constructor": {0: "ok", 1: "IndexError", 2: "UPProblemDefinitionError", 3: rec["exc"]}[rec["raise"]],
            "initial_state": None if rec["init"] is None else ser.json_state(rec["init"]),
            "steps": [{"action": st["action"].name, "args": [str(x) for x in st["args"]],
                       "applied": st["state"] is not None,
                       "state": None if st["state"] is None else ser.json_state(st["state"]),
                       "observations": {str(k): str(v) for k, v in st["obs"]}, "goal": st["goal"],
                       "simulator": st.get("sim") if not isinstance(st.get("sim"), list) else ser.json_state(st["sim"])}
                      for st in rec["steps"]],
            "python_oracle": rec["py"], "exception": rec["exc"]}


def inherited_sim_deviation(gen, rec, ser):
    """True when some step's disagreement with the Coq model is the simulator's recorded deviation
    C01-grounding-syntactic-conflict (the real simulator, hence the environment, rejects an action whose effects get
    the same ground target with syntactically different values)."""
    from harness.props import c01
    ex = SimpleNamespace(gen=gen, ser=ser)
    for st in rec["steps"]:
        if st["state"] is None and st["raised"] is None:
            r = {"action": st["action"], "args": st["args"], "apply": None, "raised": None}
            try:
                if c01.grounding_rejects_equal_assignments(ex, r):
                    return True
            except Exception:  # noqa
                pass
    return False


def history_payload(gen, rec):
    """for a problem that is a step of a history: the problems (and their hidden atoms) for which environments were created
    earlier in the process, in order"""
    if not hasattr(gen, "history"):
        return {}
    h = gen.history
    desc = h.describe(gen.step)
    if rec.get("revisit"):
        desc = h.describe(len(h.steps)) + [dict(desc[-1], again=True)]
    return {"history": desc,
            "history_note": "environments were created for these problems, in this order, in one process (steps of one history "
                            "share Fluent objects per Environment E<i>); the failing environment belongs to the last one listed"}


# ---------------------------------------------------------------------------------------------- the check
def run(ctx):
    warnings.simplefilter("ignore")
    ok_proofs = ctx.check_props(extra=["theories/Corr/Corr_C35.v"])
    rng = ctx.rng
    nprob, nseeds, maxlen = (40, 8, 6) if ctx.quick else (400, 10, 6)
    gens = hand_problems() + [GenContingent(rng) for _ in range(nprob)]
    pre, cases, owners, pcases = [], [], [], []
    stats = {"problems": len(gens), "hand_problems": 5, "cases": 0, "constructor_ok": 0, "constructor_no_model": 0,
             "constructor_invariant": 0, "steps": 0, "applied": 0, "not_applicable": 0, "sensing_applied": 0,
             "observation_rows": 0, "goal_true": 0, "hidden_atoms": {}, "constraints": {}, "per_fluent_default_over_type_default": 0,
             "type_default_only": 0, "undeclared_bool": 0, "negated_only_hidden": 0, "explicit_on_hidden": 0,
             "sensing_with_effects": 0, "with_invariant": 0, "distinct_hidden_states": 0, "inherited_c01_grounding_conflict": 0}
    nontrivial = set()
    from unified_planning.model.contingent import SensingAction
    sers = []

    def add_problem(gen):
        """problem-level part: Gallina definition, fluents_defaults / initial_value observation, input statistics"""
        pi = len(sers)
        p = gen.problem
        ser = SerProblem(p)
        sers.append(ser)
        pre.append("Definition P%d : cproblem := %s." % (pi, render_cproblem(gen, ser)))
        n = ser.names
        # problem-level observation: fluents_defaults and initial_value of the real problem
        pcases.append("(P%d, {| pc_fdefaults := %s; pc_declared := %s |})" % (
            pi,
            glist([gpair(gn(n.fl(f)), gopt(None if p.fluents_defaults.get(f) is None else ser_value(p.fluents_defaults[f], n)))
                   for f in p.fluents]),
            ser.ser_obs([const_py(p.initial_value(ser.fexp(f, args))) for f, args in ser.gfluents])))
        atoms = set(lit_parts(x)[1] for x in p.hidden_fluents)
        stats["hidden_atoms"][len(atoms)] = stats["hidden_atoms"].get(len(atoms), 0) + 1
        for c in gen.constraints:
            kk = c if isinstance(c, str) else c[0]
            stats["constraints"][kk] = stats["constraints"].get(kk, 0) + 1
        for f in p.fluents:
            if f in gen.fdefaults and f.type in gen.tdefaults:
                stats["per_fluent_default_over_type_default"] += 1
            elif f.type in gen.tdefaults:
                stats["type_default_only"] += 1
            elif f not in gen.fdefaults:
                stats["undeclared_bool"] += 1
        stats["negated_only_hidden"] += sum(1 for a in atoms if a not in p.hidden_fluents)
        stats["explicit_on_hidden"] += sum(1 for a in atoms if a in p.explicit_initial_values)
        stats["sensing_with_effects"] += sum(1 for a in p.actions if isinstance(a, SensingAction) and a.effects)
        stats["with_invariant"] += 1 if p.state_invariants else 0
        return pi

    def add_cases(pi, gen, nseeds, revisit=False):
        """environments for problem pi, one per seed, created NOW (in this order within the process)"""
        p, ser = gen.problem, sers[pi]
        atoms = set(lit_parts(x)[1] for x in p.hidden_fluents)
        seen_hidden = set()
        for si in range(nseeds):
            seed = rng.randrange(1 << 30)
            rec = run_case(gen, ser, seed, rng, maxlen)
            rec["revisit"] = revisit
            stats["cases"] += 1
            stats["constructor_ok"] += rec["raise"] == 0
            stats["constructor_no_model"] += rec["raise"] == 1
            stats["constructor_invariant"] += rec["raise"] == 2
            if rec["init"] is not None:
                keys = [ser.fexp(f, args) for f, args in ser.gfluents]
                seen_hidden.add(tuple(v for k, v in zip(keys, rec["init"]) if k in atoms))
            for st in rec["steps"]:
                stats["steps"] += 1
                if st["state"] is not None:
                    stats["applied"] += 1
                    stats["sensing_applied"] += isinstance(st["action"], SensingAction)
                    stats["observation_rows"] += len(st["obs"])
                else:
                    stats["not_applicable"] += 1
                stats["goal_true"] += bool(st["goal"])
            if rec["raise"] in (1, 2) or any(st["state"] is not None for st in rec["steps"]):
                nontrivial.add(json.dumps([pi, None if rec["init"] is None else [str(v) for v in rec["init"]],
                                           [(st["action"].name, [str(x) for x in st["args"]]) for st in rec["steps"]]]))
            if rec["raise"] == 3:
                ctx.fail("impl-exception", "SimulatedExecutionEnvironment(problem) raised %s" % rec["exc"],
                         ["c35", "constructor-raises", rec["exc"].split(":")[1]] + (["in-history"] if hasattr(gen, "history") else []),
                         dict({"problem_text": str(p), "case": rec_json(gen, ser, rec), "theorem_or_corr": "corr:C35:env_init"},
                              **history_payload(gen, rec)), True)
                continue
            cases.append("(P%d, %s)" % (pi, ser_case(ser, rec)))
            owners.append((pi, gen, ser, rec))
        stats["distinct_hidden_states"] += len(seen_hidden)

    for gen in gens:
        add_cases(add_problem(gen), gen, nseeds)
    # ---- histories: problems over a shared pool of fluent objects, created and run one after the other in THIS process;
    # the hidden set shrinks and grows between consecutive problems; an earlier problem is run again at the end.  Every
    # environment is judged exactly like a stand-alone one (the state it chose depends on nothing but its problem).
    nhist, hlen, hseeds = (7, 4, 4) if ctx.quick else (40, 5, 5)
    stats.update({"histories": nhist, "history_problems": 0, "history_two_environments": 0, "history_cases": 0,
                  "history_transitions": 0, "history_atoms_became_known": 0, "history_atoms_newly_hidden": 0,
                  "history_atoms_stayed_hidden": 0})
    for hi in range(nhist):
        two = hi % 3 == 2
        hist = GenHistory(rng, hi, hlen + (2 if two else 0), two)
        stats["history_two_environments"] += two
        before = stats["cases"]
        pis = []
        last = {}
        for gen, wi, hs in hist.steps:
            gens.append(gen)
            pis.append(add_problem(gen))
            stats["history_problems"] += 1
            if wi in last:
                stats["history_transitions"] += 1
                stats["history_atoms_became_known"] += len(set(last[wi]) - set(hs))
                stats["history_atoms_newly_hidden"] += len(set(hs) - set(last[wi]))
                stats["history_atoms_stayed_hidden"] += len(set(hs) & set(last[wi]))
            last[wi] = hs
            add_cases(pis[-1], gen, hseeds)
        back = rng.randrange(len(pis) - 1)
        add_cases(pis[back], hist.steps[back][0], 2, revisit=True)
        stats["history_cases"] += stats["cases"] - before
    stats["problems"] = len(gens)
    preamble = "\n".join(pre) + "\n"
    shard = max(60, (len(cases) + 1) // 2) if ctx.quick else max(200, (len(cases) + 3) // 4)
    pcodes = ctx.coq_codes(pcases, "fun pc => pcode (fst pc) (snd pc)", imports=IMPORTS, preamble=preamble, shard=1000, label="problems")
    codes = ctx.coq_codes(cases, "fun pc => code (fst pc) (snd pc)", imports=IMPORTS, preamble=preamble, shard=shard, label="cases")
    for pi, pc in enumerate(pcodes):
        if pc:
            gen = gens[pi]
            ctx.fail("corr", "fluents_defaults / initial_value of the real problem differ from the model of add_fluent / "
                             "InitialStateMixin.initial_value (code %d; corr:C35:declared_init)" % pc,
                     ["c35", "declared-init-model"], {"problem_text": str(gen.problem), "code_bits": pc,
                                                      "theorem_or_corr": "corr:C35:fluents_defaults/declared_init"}, False)
    for (pi, gen, ser, rec), code in zip(owners, codes):
        py_bad = bool(rec["py"]) or bool(rec["exc"])
        if not code and not py_bad:
            continue
        if code and not (code & 3) and not py_bad and not (code & ~8) and inherited_sim_deviation(gen, rec, ser):
            stats["inherited_c01_grounding_conflict"] += 1      # the environment equals the real simulator here
            continue
        tags = ["c35"]
        if code & 1 or any(x.startswith("declared") for x in rec["py"]):
            tags.append("declared-initial-value")
        if code & 2 or any(x.startswith(("oneof", "or:")) for x in rec["py"]):
            tags.append("hidden-state-violates-constraint")
        if code & 4:
            tags.append("initial-state-differs-from-model")
        if code & 8 or any(x.startswith("step") for x in rec["py"]):
            tags.append("apply-differs-from-simulator")
        if code & 16 or any(x.startswith("obs") for x in rec["py"]):
            tags.append("observations")
        if code & 32 or any(x.startswith("goal") for x in rec["py"]):
            tags.append("is-goal-reached")
        if any(x.startswith("no-hidden-state-chosen") for x in rec["py"]):
            tags.append("constructor-raises-on-satisfiable-constraints")
        if hasattr(gen, "history"):
            tags.append("in-history")
        if rec["exc"]:
            tags += ["raises", rec["exc"].split(":")[0] + ":" + rec["exc"].split(":")[1]]
        prop_fails = py_bad or bool(code & 3)
        ctx.fail("oracle" if prop_fails else "corr",
                 "SimulatedExecutionEnvironment %s (code %d; python oracle: %s; %s)" % (
                     "violates the property" if prop_fails else "differs from the model only (corr:C35:init_state/env_apply/env_obs)",
                     code, rec["py"][:2], rec["exc"]),
                 tags, dict({"problem_text": str(gen.problem), "case": rec_json(gen, ser, rec), "code_bits": code, "problem_index": pi,
                             "label": getattr(gen, "label", "generated"), "names": ser.names.table(),
                             "theorem_or_corr": "corr:C35 / oracles declared_init, constraints_hold, UPSequentialSimulator"},
                            **history_payload(gen, rec)), prop_fails)
    if not ok_proofs:
        ctx.proof_broken()
    samples = [rec_json(g, s, r) for (_, g, s, r) in owners[:2]]
    ctx.finish({
        "evaluations": len(cases) + len(pcases),
        "distinct_nontrivial": len(nontrivial),
        "rule": "5 hand-written corner problems + generated contingent problems (C01 grammar actions, per-type / per-fluent / explicit "
                "initial values, 0-4 hidden Boolean ground fluents under unknown/oneof/or constraints with negated literals, sensing "
                "actions with parameterised observed fluents of every type and sometimes effects, sometimes a state invariant) x random "
                "seeds x random action sequences of length 1..6; + HISTORIES: sequences of 4-7 such problems built in one "
                "Environment (a third of them alternating between two Environments with the same names) over the same Fluent "
                "objects, environments created problem after problem in this process, the set of hidden atoms shrinking and "
                "growing between consecutive problems, an earlier problem run again at the end; one case per (problem, seed, sequence); non-trivial = the constructor "
                "raised (no model / invariant) or at least one action was applied; distinct by (problem, initial state, sequence)",
        "samples": samples,
        "distribution": stats,
        "traces_validated_against_impl": len(cases),
        "states": stats["constructor_ok"] + stats["applied"],
        "transitions": stats["applied"],
    }, "proof", assumptions=["max_constraints=None", "observed fluents have parameter / constant arguments",
                             "every non-Boolean fluent has a declared initial value", "hidden fluents are Boolean ground fluents",
                             "simulated effects and interpreted functions are not generated"])
