"""C33 — ProblemKind ordering is a lattice consistent with equality and hashing.

Theorems: coq/theories/Props/C33.v (about coq/theories/Model/Kind.v, generic in the tables, and about the regenerated
Gen/Gen_Kind.v).
Ties: (1) translator tools/gen_kind.py (ast, fail closed) regenerates Gen_Kind.v on every run; the same tables are read a
second time by IMPORTING the modules and compared inside Coq (tables_agree), together with get_valid_features(v);
(2) correspondence: random kinds (deprecated features, versions None/0/1..LATEST+1), all pairs, and an exhaustive
sub-lattice (all subsets of a few versioned features x all versions); the model must predict constructor acceptance,
.version, __hash__(), ==, <= (including what <= does to its operands' stored sets), union, intersection and
equalize_versions.  An independent oracle written from the property text checks the lattice laws on the implementation.
"""
import itertools
import os
import subprocess
import sys

from harness.core import VERIF, gn, gz, gnat, gbool, glist, gopt, gpair, gstr

META = {
    "level": "proof",
    "technique": "Coq proof (order/lattice laws generic in the feature tables; cross-version laws under a decidable table "
                 "condition proved for the regenerated tables by vm_compute) + ast translator + model/implementation "
                 "correspondence by vm_compute",
    "text": "Lattice, hash-consistency and upgrade-monotonicity theorems about a Gallina model of ProblemKind over bitmask "
            "feature sets; tables regenerated from problem_kind.py/problem_kind_versioning.py on every run and cross-checked "
            "against the imported module; model tied to the implementation by differential evaluation inside Coq.",
    "note": "Trusted: Coq kernel/vm_compute, tools/gen_kind.py, harness serialiser. Python's hash on feature strings is an "
            "arbitrary function in the theorems. Order laws are stated for kinds of one version (DESIGN 6.00); == never "
            "upgrades, so antisymmetry w.r.t. == does not extend across versions (by the fixed reading, not a finding). "
            "Fix c30308e (hash over the valid features) is in /repo; the pre-fix hash is refuted in C33_hash_before_fix_refuted.",
}

IMPORTS = ["UPV.Model.Kind", "UPV.Gen.Gen_Kind", "UPV.Corr.Corr_C33"]


def run_translator(ctx, script):
    env = dict(os.environ)
    p = subprocess.run([sys.executable, "-W", "ignore", os.path.join(VERIF, "tools", script)], env=env,
                       stdout=subprocess.PIPE, stderr=subprocess.STDOUT, text=True, timeout=300)
    if p.returncode != 0:
        ctx.fail("translator", "%s failed closed (source left the understood subset): %s" % (script, p.stdout.strip()[-600:]),
                 ["translator", script], {"output": p.stdout[-3000:]}, False)
        return False
    return True


class Impl:
    """Everything read from the implementation by import."""

    def __init__(self):
        from unified_planning.model import problem_kind as pk
        from unified_planning.model import problem_kind_versioning as pkv
        self.pk, self.pkv = pk, pkv
        self.names = list(dict.fromkeys(itertools.chain(*pk.FEATURES.values())))
        self.n_all = len(self.names)
        assert set(self.names) == pk.all_features
        for k in pkv.FEATURES_VERSIONS:
            if k not in self.names:
                self.names.append(k)
        self.id = {n: i for i, n in enumerate(self.names)}
        self.latest = pkv.LATEST_PROBLEM_KIND_VERSION
        self.unexpected = []        # exceptions other than the modelled KeyError / constructor AssertionError

    def ids(self, feats):
        return sorted(self.id[f] for f in feats)

    def make(self, spec):
        feats, ver = spec
        return self.pk.ProblemKind(set(self.names[i] for i in feats), ver)

    def try_make(self, spec):
        try:
            return self.make(spec)
        except AssertionError:
            return None


def gset(ids):
    return glist([gn(i) for i in ids])


def gkind(spec):
    return gpair(gset(spec[0]), gopt(None if spec[1] is None else gn(spec[1])))


def ser_tcase(I):
    pk, pkv = I.pk, I.pkv
    vmax = I.latest + 2
    valid = []
    for v in range(0, vmax + 1):
        valid.append((v, I.ids(pk.get_valid_features(v))))
    return ("{| tc_names := %s; tc_features := %s; tc_n_all := %s; tc_versions := %s; tc_latest := %s; tc_umap := %s; tc_valid := %s |}" % (
        glist([gstr(n) for n in I.names]),
        glist([gpair(gstr(c), gset([I.id[f] for f in fl])) for c, fl in pk.FEATURES.items()]),
        gnat(len(pk.all_features)),
        glist([gpair(gn(I.id[k]), gpair(gn(a), gopt(None if d is None else gn(d)))) for k, (a, d) in pkv.FEATURES_VERSIONS.items()]),
        gn(I.latest),
        glist([gpair(gn(a), gn(b)) for (a, b) in pkv.upgrade_functions_map.keys()]),
        glist([gpair(gn(v), gset(fs)) for v, fs in valid])))


def observe_kind(I, spec):
    k = I.try_make(spec)
    if k is None:
        return {"ctor": False, "version": 0, "hash": 0}
    return {"ctor": True, "version": k.version, "hash": k.__hash__()}


def observe_rk(I, f):
    try:
        r = f()
    except KeyError:
        return "RKeyErr"
    except AssertionError:
        return "RAssertErr"
    return ("RKind", I.ids(r._features), r._version)


def observe_pair(I, sa, sb):
    a, b = I.make(sa), I.make(sb)
    try:
        o = {"eq": a == b, "heq": hash(a) == hash(b)}
    except Exception as ex:  # == and hash never raise in the model
        I.unexpected.append(("==/hash", sa, sb, repr(ex)))
        o = {"eq": False, "heq": False}
    a, b = I.make(sa), I.make(sb)
    try:
        r = a <= b
        o["le"] = (bool(r), I.ids(a._features), I.ids(b._features))
    except KeyError:
        o["le"] = None
    except Exception as ex:  # anything but the documented KeyError for a missing upgrade function
        I.unexpected.append(("<=", sa, sb, repr(ex)))
        o["le"] = None
    for name, op in (("union", lambda x, y: x.union(y)), ("inter", lambda x, y: x.intersection(y))):
        a, b = I.make(sa), I.make(sb)
        try:
            o[name] = observe_rk(I, lambda: op(a, b))
        except Exception as ex:
            I.unexpected.append((name, sa, sb, repr(ex)))
            o[name] = "RKeyErr"
    return o


def observe_upg(I, spec, targets):
    k = I.try_make(spec)
    if k is None:
        return [None for _ in targets]
    out = []
    for w in targets:
        try:
            f1, _, _ = I.pkv.equalize_versions(set(k._features), set(), k.version, w)
            out.append(I.ids(f1))
        except KeyError:
            out.append(None)
        except Exception as ex:
            I.unexpected.append(("equalize_versions", spec, w, repr(ex)))
            out.append(None)
    return out


def build_case(I, rows, cols, targets):
    robs = [observe_kind(I, s) for s in rows]
    cobs = robs if cols is rows else [observe_kind(I, s) for s in cols]
    pairs = []
    for s, ro in zip(rows, robs):
        prow = []
        for t, co in zip(cols, cobs):
            if ro["ctor"] and co["ctor"]:
                prow.append(observe_pair(I, s, t))
            else:
                prow.append(None)
        pairs.append(prow)
    upg = [observe_upg(I, s, targets) for s in rows]
    used = sorted(set(i for s in rows + cols for i in s[0]))
    return {"h": [(i, hash(I.names[i])) for i in used], "rows": rows, "cols": cols, "robs": robs, "cobs": cobs,
            "pairs": pairs, "targets": targets, "upg": upg}


def g_rk(r):
    if isinstance(r, str):
        return r
    return "(RKind %s %s)" % (gset(r[1]), gopt(None if r[2] is None else gn(r[2])))


DUMMY_P = "{| p_eq := false; p_heq := false; p_le := None; p_union := RKeyErr; p_inter := RKeyErr |}"


def g_pobs(o):
    if o is None:
        return DUMMY_P
    le = "None" if o["le"] is None else "(Some (%s, %s, %s))" % (gbool(o["le"][0]), gset(o["le"][1]), gset(o["le"][2]))
    return "{| p_eq := %s; p_heq := %s; p_le := %s; p_union := %s; p_inter := %s |}" % (
        gbool(o["eq"]), gbool(o["heq"]), le, g_rk(o["union"]), g_rk(o["inter"]))


def g_kobs(o):
    return "{| o_ctor := %s; o_version := %s; o_hash := %s |}" % (gbool(o["ctor"]), gn(o["version"]), gz(o["hash"]))


def ser_case(c):
    return ("{| c_h := %s; c_rows := %s; c_cols := %s; c_robs := %s; c_cobs := %s; c_pairs := %s; c_targets := %s; c_upg := %s |}" % (
        glist([gpair(gn(i), gz(h)) for i, h in c["h"]]),
        glist([gkind(s) for s in c["rows"]]), glist([gkind(s) for s in c["cols"]]),
        glist([g_kobs(o) for o in c["robs"]]), glist([g_kobs(o) for o in c["cobs"]]),
        glist([glist([g_pobs(o) for o in row]) for row in c["pairs"]]),
        glist([gn(w) for w in c["targets"]]),
        glist([glist([gopt(None if u is None else gset(u)) for u in row]) for row in c["upg"]])))


# ---------------------------------------------------------------------------------------------------------------------
# Independent oracle, written from the property text; works on the implementation only (fresh objects every time, because
# <= strips its operands in place).
def oracle(I, specs, rng, max_triples=4000):
    """Returns a list of (law, detail) violated by the implementation on these kinds."""
    try:
        return oracle_(I, specs, rng, max_triples)
    except Exception as ex:  # the laws say these calls return
        return [("comparison-raises", [repr(ex)])]


def oracle_(I, specs, rng, max_triples):
    bad = []
    ks = [(s, I.try_make(s)) for s in specs]
    ks = [(s, k.version) for s, k in ks if k is not None]
    L = I.latest
    mk = I.make

    memo = {}

    def le(s, t):
        key = (tuple(s[0]), s[1], tuple(t[0]), t[1])
        if key not in memo:
            memo[key] = bool(mk(s) <= mk(t))
        return memo[key]

    def up(s, w):
        k = mk(s)
        feats, v = set(k._features), k.version
        while v < w:
            feats = I.pkv.upgrade_functions_map[(v, v + 1)](feats)
            v += 1
        return I.pk.ProblemKind(feats, version=w)

    same = {}
    for s, v in ks:
        same.setdefault(v, []).append(s)
    for v, group in same.items():
        for s in group:
            if not le(s, s):
                bad.append(("reflexive", [s]))
            h1 = hash(mk(s))
            k = mk(s)
            k <= k
            if hash(k) != h1 or not (k == mk(s)):
                bad.append(("le-changes-hash-or-equality", [s]))
        for s, t in itertools.product(group, repeat=2):
            e = mk(s) == mk(t)
            both = le(s, t) and le(t, s)
            if e != both:
                bad.append(("antisymmetric-wrt-eq", [s, t]))
            if e and hash(mk(s)) != hash(mk(t)):
                bad.append(("eq-implies-same-hash", [s, t]))
            try:
                u = mk(s).union(mk(t))
                m = mk(s).intersection(mk(t))
            except (KeyError, AssertionError) as ex:
                bad.append(("union-intersection-raise", [s, t, repr(ex)]))
                continue
            us = (I.ids(u._features), u._version)
            ms = (I.ids(m._features), m._version)
            if u.version != v or m.version != v:
                bad.append(("union-intersection-version", [s, t]))
            if not (le(s, us) and le(t, us)):
                bad.append(("union-upper-bound", [s, t]))
            if not (le(ms, s) and le(ms, t)):
                bad.append(("intersection-lower-bound", [s, t]))
            for c in group:
                if le(s, c) and le(t, c) and not le(us, c):
                    bad.append(("union-least", [s, t, c]))
                if le(c, s) and le(c, t) and not le(c, ms):
                    bad.append(("intersection-greatest", [s, t, c]))
            if v <= L and le(s, t):
                for w in range(v, L + 1):
                    if not (up(s, w) <= up(t, w)):
                        bad.append(("upgrade-preserves-le", [s, t, w]))
        triples = list(itertools.product(group, repeat=3))
        if len(triples) > max_triples:
            triples = [tuple(rng.choice(group) for _ in range(3)) for _ in range(max_triples)]
        for a, b, c in triples:
            if le(a, b) and le(b, c) and not le(a, c):
                bad.append(("transitive", [a, b, c]))
    for (s, v), (t, w) in itertools.product(ks, repeat=2):
        if v < w <= L:
            if le(s, t) != (up(s, w) <= mk(t)):
                bad.append(("cross-version-upgrades-older", [s, t]))
            if le(t, s) != (mk(t) <= up(s, w)):
                bad.append(("cross-version-upgrades-older", [t, s]))
    return bad


# ---------------------------------------------------------------------------------------------------------------------
# Histories on one kind object: generated setters/unsetters, hash, ==, clone, union/intersection, <= interleaved.
def class_of(I):
    out = {}
    for c, fl in I.pk.FEATURES.items():
        for f in fl:
            out.setdefault(f, c)
    return out


def run_history(I, rng, hot, deprecated, n_ops):
    """Returns (record, oracle violations).  Every observation is also made on a FRESH kind built from the object's
    current feature set (property text: equal kinds hash equally and answer <= alike, whatever their history)."""
    L = I.latest
    cls = class_of(I)

    def rand_feats(n):
        out = set()
        for _ in range(n):
            out.add(rng.choice(hot) if rng.random() < 0.7 else rng.randrange(I.n_all))
        return sorted(out)

    while True:
        ver = rng.choice([None, None, 1, 2, L, L])
        init = (rand_feats(rng.randint(0, 4)), ver)
        k = I.try_make(init)
        if k is not None:
            break
    while True:
        over = ver if rng.random() < 0.7 else rng.choice([None, 1, 2, L])
        base = set(init[0]) if rng.random() < 0.5 else set()
        other = (sorted(base | set(rand_feats(rng.randint(0, 4)))), over)
        if I.try_make(other) is not None:
            break
    ops, obs, bad = [], [], []
    touched = list(init[0])

    def cur():
        return (I.ids(k._features), k._version)

    def rk(f):
        return observe_rk(I, f)

    for step in range(n_ops):
        r = rng.random()
        if r < 0.3:
            f = rng.choice(deprecated) if rng.random() < 0.25 else (rng.choice(hot) if rng.random() < 0.6 else rng.randrange(I.n_all))
            name = I.names[f]
            ops.append(("HSet", f))
            try:
                getattr(k, "set_" + cls[name].lower())(name)
                ok = True
                touched.append(f)
            except AssertionError:
                ok = False
            obs.append(("OSet", ok, cur()[0]))
        elif r < 0.55:
            f = rng.choice(touched) if touched and rng.random() < 0.8 else rng.randrange(I.n_all)
            name = I.names[f]
            ops.append(("HUnset", f))
            getattr(k, "unset_" + cls[name].lower())(name)
            obs.append(("OUnset", cur()[0]))
        elif r < 0.8:
            ops.append(("HObs",))
            fresh = I.make(cur())
            h = k.__hash__()
            e, he = (k == fresh), (hash(k) == hash(fresh))
            c = k.clone()
            cok = (c == k) and (hash(c) == hash(k))
            eo = (k == I.make(other))
            un = rk(lambda: k.union(I.make(other)))
            it = rk(lambda: k.intersection(I.make(other)))
            obs.append(("OObs", cur()[0], h, e, he, cok, eo, un, it))
            if e and not he:
                bad.append(("history:eq-implies-same-hash", step))
            if not e:
                bad.append(("history:object-differs-from-fresh-kind-with-same-features", step))
            fu = rk(lambda: I.make(cur()).union(I.make(other)))
            if fu != un:
                bad.append(("history:union-differs-from-fresh", step))
        elif r < 0.9:
            which = "HLe" if rng.random() < 0.5 else "HGe"
            ops.append((which,))
            before = cur()
            try:
                ans = bool(k <= I.make(other)) if which == "HLe" else bool(I.make(other) <= k)
            except KeyError:
                ans = None
            try:
                fa = bool(I.make(before) <= I.make(other)) if which == "HLe" else bool(I.make(other) <= I.make(before))
            except KeyError:
                fa = None
            if fa != ans:
                bad.append(("history:le-differs-from-fresh", step))
            obs.append(("OLe", ans, cur()[0]))
        else:
            ops.append(("HLeFresh",))
            try:
                r1 = bool(k <= I.make(cur()))
            except KeyError:
                r1 = None
            try:
                r2 = bool(I.make(cur()) <= k)
            except KeyError:
                r2 = None
            if r1 is not True or r2 is not True:
                bad.append(("history:le-with-fresh-kind-of-same-features", step))
            obs.append(("OLeFresh", r1, r2, cur()[0]))
    used = sorted(set(init[0]) | set(other[0]) | set(o[1] for o in ops if o[0] == "HSet"))   # a superset of everything ever stored
    rec = {"h": [(i, hash(I.names[i])) for i in used], "init": init, "other": other, "ops": ops, "obs": obs}
    return rec, bad


def g_optb(x):
    return "None" if x is None else "(Some %s)" % gbool(x)


def ser_hcase(c):
    gops = []
    for o in c["ops"]:
        gops.append("%s %s" % (o[0], gn(o[1])) if len(o) > 1 else o[0])
    gobs = []
    for b in c["obs"]:
        if b[0] == "OSet":
            gobs.append("OSet %s %s" % (gbool(b[1]), gset(b[2])))
        elif b[0] == "OUnset":
            gobs.append("OUnset %s" % gset(b[1]))
        elif b[0] == "OObs":
            gobs.append("OObs %s %s %s %s %s %s %s %s" % (gset(b[1]), gz(b[2]), gbool(b[3]), gbool(b[4]), gbool(b[5]), gbool(b[6]), g_rk(b[7]), g_rk(b[8])))
        elif b[0] == "OLe":
            gobs.append("OLe %s %s" % (g_optb(b[1]), gset(b[2])))
        else:
            gobs.append("OLeFresh %s %s %s" % (g_optb(b[1]), g_optb(b[2]), gset(b[3])))
    return "{| hc_h := %s; hc_init := %s; hc_other := %s; hc_ops := %s; hc_obs := %s |}" % (
        glist([gpair(gn(i), gz(h)) for i, h in c["h"]]), gkind(c["init"]), gkind(c["other"]), glist(gops), glist(gobs))


# ---------------------------------------------------------------------------------------------------------------------
def run(ctx):
    tr_ok = run_translator(ctx, "gen_kind.py")
    ok_proofs = ctx.check_props(extra=["theories/Corr/Corr_C33.v"])
    I = Impl()
    rng = ctx.rng
    L = I.latest
    versioned = [I.id[k] for k in I.pkv.FEATURES_VERSIONS]
    deprecated = [I.id[k] for k, (a, d) in I.pkv.FEATURES_VERSIONS.items() if d is not None]
    # strings the upgrade functions look at (read from the compiled code objects of the imported module)
    guards = set()
    for fn in I.pkv.upgrade_functions_map.values():
        for c in fn.__code__.co_consts:
            for x in (c if isinstance(c, (tuple, frozenset)) else [c]):
                if isinstance(x, str) and x in I.id:
                    guards.add(I.id[x])
    guards = sorted(guards)
    hot = sorted(set(versioned) | set(guards))
    targets = list(range(1, L + 2))

    # ---- tie 1b: second reading of the tables (import) against the translated form, inside Coq
    tbad = ctx.coq_failing([ser_tcase(I)], "tables_agree", imports=IMPORTS, shard=1)
    if tbad:
        ctx.fail("translator", "tables read by importing problem_kind/problem_kind_versioning differ from the ast translation "
                 "(Gen_Kind.v), or get_valid_features differs from the model", ["translator", "tables_agree"],
                 {"names": I.names, "theorem_or_corr": "corr:C33:tables_agree"}, False)

    # ---- cases
    def rand_ver():
        return rng.choice([None, None, None, 1, 2, 3, L, L, L + 1, 0] if rng.random() < 0.5 else [None, 1, 2, L])

    def rand_feats():
        n = rng.randint(0, 7)
        out = set()
        for _ in range(n):
            out.add(rng.choice(hot) if rng.random() < 0.7 else rng.randrange(I.n_all))
        return sorted(out)

    def derive(spec):
        feats, ver = set(spec[0]), spec[1]
        r = rng.random()
        if r < 0.3:
            feats ^= {rng.choice(deprecated)}            # differs only in a deprecated feature (maybe)
        elif r < 0.5:
            feats |= set(rand_feats())                    # superset
        elif r < 0.7 and feats:
            feats -= {rng.choice(sorted(feats))}          # subset
        elif r < 0.85:
            ver = rand_ver()                              # same features, another version
        return (sorted(feats), ver)

    raw = []
    n_random = 90 if ctx.quick else 1500
    for _ in range(n_random):
        base = [(rand_feats(), rand_ver()) for _ in range(rng.randint(1, 2))]
        specs = list(base)
        while len(specs) < rng.randint(3, 6):
            specs.append(derive(rng.choice(specs)))
        raw.append(("random", build_case(I, specs, specs, targets)))

    # exhaustive sub-lattice: all subsets of a few versioned features x every version setting
    pick = ["CONTINUOUS_NUMBERS", "NUMERIC_FLUENTS", "REAL_FLUENTS", "PROCESSES", "ACTIONS_COST",
            "INT_NUMBERS_IN_ACTIONS_COST", "DISCRETE_TIME"]
    pick_all = [I.id[p] for p in pick if p in I.id]
    vers = [None] + list(range(1, L + 1))

    def sublattice(feats):
        return [(sorted(c), v) for n in range(len(feats) + 1) for c in itertools.combinations(feats, n) for v in vers]

    # model-vs-implementation on every ordered pair: 4 features in the quick tier (Coq parsing dominates), 6 in thorough;
    # the Python oracle below checks the laws on the 6-feature sub-lattice in both tiers
    pick = pick_all[: (4 if ctx.quick else 6)]
    allk = sublattice(pick)
    oracle_k = sublattice(pick_all[:6])
    chunk = 16
    for i in range(0, len(allk), chunk):
        raw.append(("exhaustive", build_case(I, allk[i:i + chunk], allk, targets)))
    # exhaustive over the guard features of the upgrade functions, from version 1 (ties upgrade_A_B as executed)
    g = guards[: (8 if ctx.quick else 11)]
    gk = [(sorted(c), 1) for n in range(len(g) + 1) for c in itertools.combinations(g, n)]
    for i in range(0, len(gk), 64):
        raw.append(("upgrade-exhaustive", build_case(I, gk[i:i + 64], [], targets)))

    raw.sort(key=lambda kc: kc[0] != "exhaustive")          # the big cases first, in their own shards
    cases = [ser_case(c) for _, c in raw]
    n_ex = sum(1 for k, _ in raw if k == "exhaustive")
    bad = ctx.coq_failing(cases[:n_ex], "ok", imports=IMPORTS, shard=max(1, (n_ex + 3) // 4))
    bad += [n_ex + i for i in ctx.coq_failing(cases[n_ex:], "ok", imports=IMPORTS, shard=max(1, (len(cases) - n_ex + 1) // 2))]

    # ---- histories on one object (set_/unset_ of every class, hash, ==, clone, union/intersection, <= interleaved)
    n_hist = 80 if ctx.quick else 1200
    hraw, hbad_oracle = [], []
    for _ in range(n_hist):
        rec, viol = run_history(I, rng, hot, deprecated, rng.randint(6, 18 if ctx.quick else 40))
        hraw.append(rec)
        for law, step in viol:
            hbad_oracle.append((law, step, rec))
    hcases = [ser_hcase(c) for c in hraw]
    hbad = ctx.coq_failing(hcases, "hok", imports=IMPORTS, shard=max(1, (len(hcases) + 1) // 2))
    seen_laws = set()
    for law, step, rec in hbad_oracle:
        if law in seen_laws:
            continue
        seen_laws.add(law)
        ctx.fail("oracle", "history on one kind object: '%s' at step %d (the object is compared with a fresh kind built from its current features)" % (law, step),
                 ["c33", "history", "law:" + law],
                 {"law": law, "step": step, "history": {"init": ([I.names[i] for i in rec["init"][0]], rec["init"][1]),
                                                         "ops": [(o[0], I.names[o[1]]) if len(o) > 1 else o[0] for o in rec["ops"]],
                                                         "obs": rec["obs"]},
                  "n_histories_with_this_law": sum(1 for l, _, _ in hbad_oracle if l == law), "theorem_or_corr": "oracle:C33:" + law}, True)
    for i in hbad[:3]:
        rec = hraw[i]
        at = ctx.coq_show("hdiag c", imports=IMPORTS, preamble="Definition c := %s.\n" % hcases[i])
        viol = [l for l, _, r in hbad_oracle if r is rec]
        ctx.fail("corr", "history on one kind object: implementation and model disagree first at step %s" % at[:40], ["c33", "history"],
                 {"first_differing_step": at, "history": {"init": ([I.names[i] for i in rec["init"][0]], rec["init"][1]),
                                                          "other": ([I.names[i] for i in rec["other"][0]], rec["other"][1]),
                                                          "ops": [(o[0], I.names[o[1]]) if len(o) > 1 else o[0] for o in rec["ops"]],
                                                          "obs": rec["obs"]},
                  "oracle_violations": viol, "theorem_or_corr": "corr:C33:history"}, bool(viol))

    for what, sa, sb, ex in I.unexpected[:20]:
        within = all(isinstance(x, tuple) and (x[1] is None or 1 <= x[1] <= L) for x in (sa, sb) if isinstance(x, tuple))
        ctx.fail("impl-exception", "%s raised %s on constructible kinds %s, %s" % (what, ex, sa, sb), ["c33", "exception", what],
                 {"op": what, "a": sa, "b": sb, "exception": ex, "names": I.names, "theorem_or_corr": "corr:C33:" + what}, within)

    # ---- the independent oracle runs on everything (the theorems say it cannot fire while model = implementation)
    oracle_hits = []
    seen_groups = set()
    for kind, c in raw:
        if kind == "random":
            key = repr(c["rows"])
            if key in seen_groups:
                continue
            seen_groups.add(key)
            for law, det in oracle(I, c["rows"], rng):
                oracle_hits.append((law, det))
    for law, det in oracle(I, oracle_k, rng, max_triples=20000 if ctx.quick else 200000):
        oracle_hits.append((law, det))
    by_law = {}
    for law, det in oracle_hits:
        by_law.setdefault(law, []).append(det)
    for law, dets in by_law.items():
        ctx.fail("oracle", "lattice law '%s' fails on the implementation (%d instance(s)), e.g. %s" % (
            law, len(dets), [(([I.names[i] for i in s[0]], s[1]) if isinstance(s, tuple) else s) for s in dets[0]]),
            ["c33", "law:" + law], {"law": law, "instances": dets[:5], "names": I.names,
                                    "theorem_or_corr": "oracle:C33:" + law}, True)

    for i in bad:
        kind, c = raw[i]
        diag = ctx.coq_show("(ok_kobs c, ok_upg c, diagnose c)", imports=IMPORTS, preamble="Definition c := %s.\n" % cases[i])
        comp = ["eq", "hash", "le", "union", "intersection"]
        tags = ["c33", kind]
        head = diag.split("::")[0] if "diagnose" not in diag else diag
        if "(false," in diag[:40]:
            tags.append("ctor-version-hash")
        import re
        m = re.search(r"\[(true|false); (true|false); (true|false); (true|false); (true|false)\]", diag)
        if m:
            tags += ["differs:" + comp[j] for j in range(5) if m.group(j + 1) == "false"]
        specs = c["rows"] + [s for s in c["cols"] if s not in c["rows"]]
        hits = oracle(I, specs[:40], rng, max_triples=2000)
        ctx.fail("corr", "ProblemKind: implementation and model disagree (%s case; components: %s)" % (kind, ", ".join(tags[2:]) or "see model"),
                 tags, {"case": {k: c[k] for k in ("rows", "cols", "targets")}, "observed": {k: c[k] for k in ("robs", "pairs", "upg")} if kind == "random" else "omitted (large)",
                        "model_diagnosis": diag[:3000], "oracle_violations": hits[:5], "names": I.names,
                        "theorem_or_corr": "corr:C33:" + "/".join(tags[2:])}, bool(hits))
    if not ok_proofs:
        ctx.proof_broken()

    pair_evals = sum(1 for _, c in raw for row in c["pairs"] for o in row if o is not None)
    distinct = set()
    stats = {"cases_random": n_random, "cases_exhaustive": sum(1 for k, _ in raw if k == "exhaustive"),
             "cases_upgrade_exhaustive": sum(1 for k, _ in raw if k == "upgrade-exhaustive"),
             "kinds": 0, "ctor_rejected": 0, "version_none": 0, "version_gt_latest": 0, "with_deprecated": 0,
             "pairs": pair_evals, "pairs_eq_true": 0, "pairs_eq_true_different_sets": 0, "pairs_le_true": 0,
             "pairs_cross_version": 0, "pairs_keyerror": 0, "le_calls_that_stripped_an_operand": 0,
             "upgrade_observations": sum(len(r) for _, c in raw for r in c["upg"])}
    for kind, c in raw:
        for s, o in zip(c["rows"], c["robs"]):
            stats["kinds"] += 1
            stats["ctor_rejected"] += (not o["ctor"])
            stats["version_none"] += (s[1] is None)
            stats["version_gt_latest"] += (s[1] is not None and s[1] > L)
            stats["with_deprecated"] += bool(set(s[0]) & set(deprecated))
        for s, ro, prow in zip(c["rows"], c["robs"], c["pairs"]):
            for t, co, o in zip(c["cols"], c["cobs"], prow):
                if o is None:
                    continue
                if s[0] and t[0] and s != t:
                    distinct.add((tuple(s[0]), s[1], tuple(t[0]), t[1]))
                stats["pairs_eq_true"] += o["eq"]
                stats["pairs_eq_true_different_sets"] += (o["eq"] and s[0] != t[0])
                stats["pairs_cross_version"] += (ro["version"] != co["version"])
                if o["le"] is None:
                    stats["pairs_keyerror"] += 1
                else:
                    stats["pairs_le_true"] += o["le"][0]
                    stats["le_calls_that_stripped_an_operand"] += (o["le"][1] != s[0] or o["le"][2] != t[0])
    sample = [c for k, c in raw if k == "random"][0]
    ctx.finish({
        "evaluations": len(cases) + 1 + len(hcases),
        "pair_evaluations": pair_evals,
        "distinct_nontrivial": len(distinct),
        "rule": "distinct = distinct ordered pairs of different, non-empty, constructible kinds (feature set, declared version) on which "
                "==, hash, <=, union and intersection were all compared with the model; plus one table case",
        "exhaustive": False,
        "exhaustive_part": "model vs implementation: all %d kinds over subsets of %s x versions %s, all ordered pairs; all %d subsets of upgrade "
                           "guard features from version 1; oracle (laws on the implementation): all %d kinds over subsets of 6 features" % (
            len(allk), [I.names[i] for i in pick], vers, len(gk), len(oracle_k)),
        "samples": [{"rows": [([I.names[i] for i in s[0]], s[1]) for s in sample["rows"]], "robs": sample["robs"],
                     "pair_0_1": sample["pairs"][0][1] if len(sample["rows"]) > 1 else None}],
        "distribution": stats,
        "histories": {"n": n_hist, "steps": sum(len(c["ops"]) for c in hraw),
                      "ops": {k: sum(1 for c in hraw for o in c["ops"] if o[0] == k) for k in ("HSet", "HUnset", "HObs", "HLe", "HGe", "HLeFresh")},
                      "set_rejected_by_version_assertion": sum(1 for c in hraw for b in c["obs"] if b[0] == "OSet" and not b[1]),
                      "observations_after_an_unset": sum(1 for c in hraw for j, o in enumerate(c["ops"]) if o[0] == "HObs" and any(p[0] == "HUnset" for p in c["ops"][:j]))},
        "oracle_instances_checked": "lattice laws on every random case group and on the exhaustive sub-lattice",
        "translator_ok": tr_ok,
        "trusted_extra": ["tools/gen_kind.py (ast translator; cross-checked against the imported module inside Coq)"],
    }, "proof", assumptions=["order laws are stated for kinds of one version (DESIGN 6.00)",
                             "theorems about <= across versions assume constructible kinds (ProblemKind.__init__ assertions) and versions <= LATEST"])
