"""C27 — Deordering a valid sequential plan keeps every linearisation valid.

Theorems: coq/theories/Props/C27.v (model: Planning/Deorder.v, proofs: Proofs/Deorder_proofs.v).
Tie: correspondence + property oracle, both decided inside Coq (Corr/Corr_C27.v).  For hand-written corner problems
and generated problems of the C01 grammar (group "noinv": no state invariants, no bounded types; group "inv": with
them, counted separately) valid plans made of distinct ground action instances are found by forward search through the
real UPSequentialSimulator, converted with the real `plan.convert_to(PlanKind.PARTIAL_ORDER_PLAN, problem)`, and every
linearisation from `all_sequential_plans()` (capped) is collected.  Coq then
  * compares the implementation's edge set with the model's as reachability relations (and "raised UPUsageError" with
    the model's None),
  * validates every linearisation with `valid_plan false` (documented semantics) + final-state equality,
  * checks that every two conflicting instances (model's read/write sets) are ordered by the implementation's graph.
"""
import json
import time
from itertools import islice, product

from harness import simexplore as sx
from harness.gen.problems import GenProblem, SerProblem
from harness.core import gn, glist, gpair, gbool
from harness.ser import ser_value

META = {
    "level": "proof",
    "technique": "Coq proof (frame lemma for eval over read sets, writes over-approximate a step's modifications, adjacent independent steps commute in spec_step, any order-preserving permutation is reached by adjacent swaps, loop invariants of last_modifier/all_required give reachability between conflicting instances) + correspondence of the edge set as a reachability relation + every enumerated linearisation validated by valid_plan inside Coq (vm_compute)",
    "text": "For the Gallina model of SequentialPlan._to_partial_order_plan it is proved, for all problems, initial states and valid plans of distinct instances, that every topological order of the produced graph (or of any graph with the same paths, e.g. its transitive reduction) is a valid plan under the documented semantics and ends in the same state, and that conflicting instances stay ordered. The model's graph is compared with the implementation's on generated and hand-written plans, and all linearisations enumerated by all_sequential_plans are validated in Coq.",
    "note": "Hypotheses: instances pairwise distinct; every state invariant / bounded-type constraint reads at most one ground fluent (decidable inv_local; trivially true without invariants) and holds initially - with an invariant over two fluents the statement is false for the algorithm as written (theorem C27_hypothesis_needed_multi_fluent_invariant); such plans are counted separately, not reported. Nested fluents: the code raises UPUsageError, the model returns None. networkx transitive_reduction/all_topological_sorts are not modelled: their outputs are checked per instance (same reachability, every enumerated order topological). Fluent arguments are evaluated in the model where the code substitutes+simplifies (identical for constants, parameters, bound variables). No axioms.",
}

IMPORTS = ["UPV.Core.Expr", "UPV.Core.Eval", "UPV.Core.Interp", "UPV.Planning.Problem", "UPV.Planning.Sem",
           "UPV.Planning.Deorder", "UPV.Corr.Corr_C01", "UPV.Corr.Corr_C27"]
LIN_CAP = 120


# ---------------------------------------------------------------------------------------------- integer fluent parameters
class SerProblemInt(SerProblem):
    """SerProblem whose ground fluents also range over bounded-integer fluent parameters (problem.objects() is empty for
    an int type, so the base class silently enumerates nothing for such a fluent).  A ground fluent's arguments are
    Objects or Python ints; in Gallina an integer argument is `VNum`, which is what the model's evaluation of an
    argument expression such as `i + 1` produces."""

    def __init__(self, problem):
        SerProblem.__init__(self, problem)
        self.gfluents = []
        for f in self.fluents:
            doms = []
            for pp in f.signature:
                if pp.type.is_user_type():
                    doms.append(list(problem.objects(pp.type)))
                elif pp.type.is_int_type() and pp.type.lower_bound is not None and pp.type.upper_bound is not None:
                    doms.append(list(range(pp.type.lower_bound, pp.type.upper_bound + 1)))
                else:
                    raise ValueError("fluent parameter type not supported: %s" % pp.type)
            for args in product(*doms):
                self.gfluents.append((f, tuple(args)))

    def fexp(self, f, args):
        em = self.problem.environment.expression_manager
        return em.FluentExp(f, tuple(em.Int(a) if isinstance(a, int) else em.ObjectExp(a) for a in args))

    def json_state(self, vals):
        return {"%s(%s)" % (f.name, ",".join(str(o) if isinstance(o, int) else o.name for o in args)):
                (None if v is None else str(v)) for (f, args), v in zip(self.gfluents, vals)}

    def ser_keys(self):
        n = self.names
        return glist([gpair(gn(n.fl(f)), glist([ser_value(a, n) for a in args])) for f, args in self.gfluents])


class GenIntProblem:
    """Generated problems whose fluents take a bounded integer parameter and whose conditions / effect targets / values
    index them with arithmetic over the action's integer parameter: on(i), on(i+1), on(i-1), on(2*i), on(c).
    Fluent index type int[0,4], action parameter type int[1,2] (so every index expression stays inside the domain)."""

    def __init__(self, rng):
        from collections import OrderedDict
        from unified_planning.environment import Environment
        from unified_planning.model import Fluent, Problem, InstantaneousAction
        self.rng = rng
        self.env = env = Environment()
        tm, em = env.type_manager, env.expression_manager
        self.em = em
        self.label = None
        IDX, PAR = tm.IntType(0, 4), tm.IntType(1, 2)
        p = self.problem = Problem("gi", env)
        on = Fluent("on", tm.BoolType(), OrderedDict([("i", IDX)]), env)
        cnt = Fluent("cnt", tm.IntType(), OrderedDict([("i", IDX)]), env)
        g = Fluent("g", tm.BoolType(), environment=env)
        p.add_fluent(on, default_initial_value=False)
        p.add_fluent(cnt, default_initial_value=0)
        p.add_fluent(g, default_initial_value=False)
        for i in range(5):
            if rng.random() < 0.5:
                p.set_initial_value(on(i), True)
            if rng.random() < 0.4:
                p.set_initial_value(cnt(i), rng.randint(0, 2))

        def idx(par):
            r = rng.random()
            if par is None or r < 0.15:
                return em.Int(rng.randint(0, 4))
            if r < 0.35:
                return em.ParameterExp(par)
            if r < 0.6:
                return em.Plus(em.ParameterExp(par), 1)
            if r < 0.8:
                return em.Minus(em.ParameterExp(par), 1)
            return em.Times(2, em.ParameterExp(par))

        def cond(par):
            r = rng.random()
            if r < 0.4:
                return on(idx(par))
            if r < 0.65:
                return em.Not(on(idx(par)))
            if r < 0.85:
                return em.LE(cnt(idx(par)), rng.randint(0, 2))
            return em.Or(on(idx(par)), on(idx(par)))

        self.actions = []
        for ai in range(rng.randint(2, 3)):
            haspar = rng.random() < 0.8
            a = InstantaneousAction("a%d" % ai, OrderedDict([("i", PAR)] if haspar else []), env)
            par = a.parameter("i") if haspar else None
            for _ in range(rng.randint(0, 1)):
                a.add_precondition(cond(par))
            n, tries = rng.randint(1, 2), 0
            while n > 0 and tries < 8:
                tries += 1
                c = cond(par) if rng.random() < 0.3 else True
                try:
                    r = rng.random()
                    if r < 0.45:
                        a.add_effect(on(idx(par)), rng.random() < 0.6, c)
                    elif r < 0.65:
                        a.add_increase_effect(cnt(idx(par)), 1, c)
                    elif r < 0.85:
                        a.add_effect(cnt(idx(par)), em.Plus(cnt(idx(par)), 1), c)
                    else:
                        a.add_effect(g, on(idx(par)), c)
                    n -= 1
                except Exception:  # noqa  (conflicting effects on the same lifted target)
                    pass
            if not a.effects:
                a.add_effect(g, True)
            p.add_action(a)
            self.actions.append(a)
        p.add_goal(cond(None))

    def param_domain(self, t):
        return [self.em.Int(i) for i in range(t.lower_bound, t.upper_bound + 1)]

    def ground_instances(self):
        out = []
        for a in self.actions:
            for args in product(*[self.param_domain(pp.type) for pp in a.parameters]):
                out.append((a, tuple(args)))
        return out


# ---------------------------------------------------------------------------------------------- permuted parameters
def cross_action_shared_tuples(insts, plan):
    """Number of pairs of steps of `plan` that are instances of DIFFERENT actions with the SAME tuple of actual parameters."""
    n = 0
    for i in range(len(plan)):
        for j in range(i + 1, len(plan)):
            (a, xs), (b, ys) = insts[plan[i]], insts[plan[j]]
            n += a is not b and len(xs) > 0 and tuple(xs) == tuple(ys)
    return n


class GenPermProblem:
    """Generated problems whose 2-3 actions all declare the SAME parameter names with the same type (x, y[, z] : T) —
    in a different order per action (`permuted=True`) or in the same order (`permuted=False`, the control group) — and
    mention lifted fluent expressions over those names drawn mostly from one small pool shared by the actions of the
    problem: f(x), h(y), r(x, y), r(y, x), c(x) ...  Parameters are compared by name and type, so `f(x)` of one action
    and `f(x)` of another are the very same expression object although `x` sits at another position; two instances with
    the same tuple of actual parameters then ground that one expression differently.  Unary and binary Boolean fluents,
    a unary integer fluent, literals / comparisons / disjunctions as (effect) conditions, assignments, increases, values
    that read fluents, occasionally an existential precondition and a conditional forall effect whose condition mentions
    a parameter.  No invariants and no bounded types (every plan is inside the theorem's hypothesis)."""

    prefer_shared_tuples = True

    def __init__(self, rng, permuted=True):
        from collections import OrderedDict
        from unified_planning.environment import Environment
        from unified_planning.model import Fluent, Object, Problem, InstantaneousAction, Variable
        self.rng = rng
        self.env = env = Environment()
        tm, em = env.type_manager, env.expression_manager
        self.em = em
        self.label = None
        self.permuted = permuted
        T = tm.UserType("T")
        arity = 3 if rng.random() < 0.3 else 2
        nobj = 2 if arity == 3 else rng.randint(2, 3)
        p = self.problem = Problem("gp", env)
        objs = [Object("o%d" % (i + 1), T, env) for i in range(nobj)]
        p.add_objects(objs)
        f = Fluent("f", tm.BoolType(), OrderedDict([("o", T)]), env)
        h = Fluent("h", tm.BoolType(), OrderedDict([("o", T)]), env)
        r = Fluent("r", tm.BoolType(), OrderedDict([("a", T), ("b", T)]), env)
        c = Fluent("c", tm.IntType(), OrderedDict([("o", T)]), env)
        g = Fluent("g", tm.BoolType(), environment=env)
        p.add_fluent(f, default_initial_value=False)
        p.add_fluent(h, default_initial_value=False)
        p.add_fluent(r, default_initial_value=False)
        p.add_fluent(c, default_initial_value=0)
        p.add_fluent(g, default_initial_value=False)
        for o in objs:
            if rng.random() < 0.5:
                p.set_initial_value(f(o), True)
            if rng.random() < 0.4:
                p.set_initial_value(h(o), True)
            if rng.random() < 0.4:
                p.set_initial_value(c(o), rng.randint(0, 2))
            for o2 in objs:
                if rng.random() < 0.4:
                    p.set_initial_value(r(o, o2), True)
        names = ["x", "y", "z"][:arity]
        # lifted atoms as (fluent, parameter names); most occurrences come from a small pool shared by all the actions
        every = [(fl, (n,)) for fl in (f, h, c) for n in names] + [(r, (n, m)) for n in names for m in names]
        pool = rng.sample(every, rng.randint(3, 4))
        v = Variable("v", T, env)

        n_act = rng.randint(2, 3)
        orders = []
        for ai in range(n_act):
            order = list(names)
            if permuted:
                rng.shuffle(order)
                while ai == 1 and order == orders[0]:
                    rng.shuffle(order)
            orders.append(order)
        self.orders = orders

        self.actions = []
        for ai, order in enumerate(orders):
            a = InstantaneousAction("a%d" % ai, OrderedDict((n, T) for n in order), env)
            P = {n: em.ParameterExp(a.parameter(n)) for n in names}

            def atom(numeric):
                for _ in range(20):
                    fl, ns = rng.choice(pool) if rng.random() < 0.75 else rng.choice(every)
                    if (fl is c) == numeric:
                        return fl(*[P[n] for n in ns])
                return c(P[rng.choice(names)]) if numeric else f(P[rng.choice(names)])

            def cond():
                q = rng.random()
                if q < 0.45:
                    return atom(False)
                if q < 0.7:
                    return em.Not(atom(False))
                if q < 0.85:
                    return em.LE(atom(True), rng.randint(0, 2))
                return em.Or(atom(False), em.Not(atom(False)) if rng.random() < 0.5 else atom(False))

            for _ in range(rng.choice([0, 1, 1, 2])):
                a.add_precondition(cond())
            if rng.random() < 0.1:
                a.add_precondition(em.Exists(r(P[rng.choice(names)], v), v))
            n, tries = rng.randint(1, 3), 0
            while n > 0 and tries < 10:
                tries += 1
                cnd = cond() if rng.random() < 0.25 else True
                try:
                    q = rng.random()
                    if q < 0.45:
                        a.add_effect(atom(False), rng.random() < 0.6, cnd)
                    elif q < 0.6:
                        a.add_increase_effect(atom(True), 1, cnd)
                    elif q < 0.75:
                        a.add_effect(atom(True), em.Plus(atom(True), 1), cnd)
                    elif q < 0.85:
                        a.add_effect(atom(False), atom(False), cnd)
                    elif q < 0.93:
                        a.add_effect(g, atom(False), cnd)
                    else:
                        a.add_effect(f(v), rng.random() < 0.5, condition=r(P[rng.choice(names)], v), forall=(v,))
                    n -= 1
                except Exception:  # noqa  (conflicting effects on the same lifted target)
                    pass
            if not a.effects:
                a.add_effect(g, True)
            p.add_action(a)
            self.actions.append(a)
        o = rng.choice(objs)
        p.add_goal(rng.choice([f(o), h(o), em.Not(f(o)), em.LE(1, c(o)), em.FluentExp(g)]))

    def param_domain(self, t):
        return [self.em.ObjectExp(o) for o in self.problem.objects(t)]

    def ground_instances(self):
        out = []
        for a in self.actions:
            for args in product(*[self.param_domain(pp.type) for pp in a.parameters]):
                out.append((a, tuple(args)))
        return out


class PermHand(sx.HandProblem):
    """Hand problem whose plans are searched over a given list of ground instances only (so that the few valid plans are
    exactly the aimed-at ones: instances of different actions that carry the same tuple of actual parameters)."""

    prefer_shared_tuples = True

    def __init__(self, problem, label, instances):
        sx.HandProblem.__init__(self, problem, label)
        objs = {o.name: o for o in problem.all_objects}
        self.instances = [(problem.action(a), tuple(self.em.ObjectExp(objs[x]) for x in xs)) for a, xs in instances]

    def ground_instances(self):
        return list(self.instances)


def perm_hand_corpus():
    """Actions that declare the same parameter names (same type) at different positions, and plans in which instances of
    both carry the same tuple of actual parameters; each problem has a dependency that exists only because the shared
    lifted expression is grounded per action.  The last problem is the control (same order in both actions)."""
    from unified_planning.shortcuts import Fluent, Object, Problem, InstantaneousAction
    from unified_planning.environment import Environment
    out = []

    def base(label):
        env = Environment()
        tm = env.type_manager
        T = tm.UserType("T")
        p = Problem(label, env)
        p.add_objects([Object("o1", T, env), Object("o2", T, env)])
        return env, env.expression_manager, tm, T, p, p.object("o1"), p.object("o2")

    def bfl(p, env, tm, name, init=False, **sig):
        fl = Fluent(name, tm.BoolType(), environment=env, **sig)
        p.add_fluent(fl, default_initial_value=init)
        return fl

    def act(env, name, **params):
        return InstantaneousAction(name, _env=env, **params)

    # 19. read after write: mark(x, y) writes f(x); probe(y, x) reads f(x) = its SECOND actual parameter
    def mark_probe(label, probe_order, probe_args):
        env, em, tm, T, p, o1, o2 = base(label)
        f, done = bfl(p, env, tm, "f", o=T), bfl(p, env, tm, "done", o=T)
        mark = act(env, "mark", x=T, y=T); mark.add_effect(f(mark.parameter("x")), True)
        probe = act(env, "probe", **{n: T for n in probe_order})
        probe.add_precondition(f(probe.parameter("x"))); probe.add_effect(done(probe.parameter("y")), True)
        p.add_action(mark); p.add_action(probe)
        p.add_goal(done(o1)); p.add_goal(f(o1))
        return PermHand(p, label, [("mark", ("o2", "o1")), ("mark", ("o1", "o2")), ("probe", probe_args)])

    out.append(mark_probe("perm-params-read-after-write", ("y", "x"), ("o1", "o2")))
    ctrl = mark_probe("perm-params-control-same-order", ("x", "y"), ("o2", "o1"))
    # 20. two steps are enough when the first action mentions both f(x) and f(y)
    env, em, tm, T, p, o1, o2 = base("perm-params-two-step")
    f, done = bfl(p, env, tm, "f", o=T), bfl(p, env, tm, "done", o=T)
    p.set_initial_value(f(o1), True)
    cp = act(env, "cp", x=T, y=T); cp.add_precondition(f(cp.parameter("x"))); cp.add_effect(f(cp.parameter("y")), True)
    probe = act(env, "probe", y=T, x=T)
    probe.add_precondition(f(probe.parameter("x"))); probe.add_effect(done(probe.parameter("y")), True)
    p.add_action(cp); p.add_action(probe); p.add_goal(done(o1))
    out.append(PermHand(p, "perm-params-two-step", [("cp", ("o1", "o2")), ("probe", ("o1", "o2")), ("probe", ("o2", "o1"))]))
    # 21. anti-dependency over a binary fluent: use(x, y) reads r(x, y), del(y, x) deletes r(x, y)
    env, em, tm, T, p, o1, o2 = base("perm-params-anti-dependency")
    r, got = bfl(p, env, tm, "r", init=True, a=T, b=T), bfl(p, env, tm, "got", o=T)
    use = act(env, "use", x=T, y=T)
    use.add_precondition(r(use.parameter("x"), use.parameter("y"))); use.add_effect(got(use.parameter("x")), True)
    dele = act(env, "del", y=T, x=T); dele.add_effect(r(dele.parameter("x"), dele.parameter("y")), False)
    p.add_action(use); p.add_action(dele)
    p.add_goal(em.And(got(o1), got(o2), em.Not(r(o2, o1))))
    out.append(PermHand(p, "perm-params-anti-dependency", [("use", ("o2", "o1")), ("use", ("o1", "o2")), ("del", ("o1", "o2"))]))
    # 22. three parameters, numeric write-write: set(x, y, z) assigns c(x), add(z, x, y) increases c(x)
    env, em, tm, T, p, o1, o2 = base("perm-params-triple-write-write")
    c = Fluent("c", tm.IntType(), o=T, environment=env); p.add_fluent(c, default_initial_value=0)
    st = act(env, "set", x=T, y=T, z=T); st.add_effect(c(st.parameter("x")), 1)
    add = act(env, "add", z=T, x=T, y=T); add.add_increase_effect(c(add.parameter("x")), 2)
    p.add_action(st); p.add_action(add)
    p.add_goal(em.And(em.Equals(c(o2), 3), em.Equals(c(o1), 1)))
    out.append(PermHand(p, "perm-params-triple-write-write",
                        [("set", ("o2", "o1", "o1")), ("set", ("o1", "o2", "o2")), ("add", ("o1", "o2", "o2"))]))
    # 23. control: the same pair of actions with the same parameter order
    out.append(ctrl)
    return out


# ---------------------------------------------------------------------------------------------- hand-written corpus
def hand_corpus():
    """Small problems, each aimed at one ingredient of the read/write sets or of the ordering loop."""
    from unified_planning.shortcuts import (Fluent, Object, Problem, InstantaneousAction, Variable)
    from unified_planning.environment import Environment
    out = []

    def base(label):
        env = Environment()
        tm = env.type_manager
        T = tm.UserType("T")
        p = Problem(label, env)
        o1, o2 = Object("o1", T, env), Object("o2", T, env)
        p.add_objects([o1, o2])
        return env, env.expression_manager, tm, T, p, o1, o2

    def bfl(p, env, tm, name, init=False, **sig):
        f = Fluent(name, tm.BoolType(), environment=env, **sig)
        p.add_fluent(f, default_initial_value=init)
        return f

    def act(env, name, **params):
        return InstantaneousAction(name, _env=env, **params)

    # 1. the condition of a conditional effect is a read
    env, em, tm, T, p, o1, o2 = base("cond-effect-condition-read")
    q, r = bfl(p, env, tm, "q"), bfl(p, env, tm, "r")
    a = act(env, "setq"); a.add_effect(q, True)
    b = act(env, "cond"); b.add_effect(r, True, condition=em.FluentExp(q))
    p.add_action(a); p.add_action(b); p.add_goal(r)
    out.append(sx.HandProblem(p, "cond-effect-condition-read"))
    # 2. forall effect writes every instance
    env, em, tm, T, p, o1, o2 = base("forall-effect-writes")
    f, g = bfl(p, env, tm, "f", x=T), bfl(p, env, tm, "g")
    v = Variable("v", T, env)
    a = act(env, "all"); a.add_effect(f(v), True, forall=(v,))
    b = act(env, "need"); b.add_precondition(f(o2)); b.add_effect(g, True)
    c = act(env, "other"); c.add_effect(bfl(p, env, tm, "h"), True)
    for x in (a, b, c):
        p.add_action(x)
    p.add_goal(g)
    out.append(sx.HandProblem(p, "forall-effect-writes"))
    # 3. two writers of one fluent stay ordered
    env, em, tm, T, p, o1, o2 = base("write-write")
    q = bfl(p, env, tm, "q")
    a = act(env, "on"); a.add_effect(q, True)
    b = act(env, "off"); b.add_effect(q, False)
    p.add_action(a); p.add_action(b); p.add_goal(em.Not(q))
    out.append(sx.HandProblem(p, "write-write"))
    # 4. increase reads its target; assignment after increase
    env, em, tm, T, p, o1, o2 = base("increase-then-assign")
    c = Fluent("c", tm.IntType(), environment=env); p.add_fluent(c, default_initial_value=0)
    d = Fluent("d", tm.IntType(), environment=env); p.add_fluent(d, default_initial_value=0)
    a = act(env, "inc"); a.add_increase_effect(c, 1)
    b = act(env, "dbl"); b.add_effect(c, em.Times(c, 2))
    e = act(env, "incd"); e.add_increase_effect(d, 3)
    for x in (a, b, e):
        p.add_action(x)
    p.add_goal(em.Equals(c, 2)); p.add_goal(em.Equals(d, 3))
    out.append(sx.HandProblem(p, "increase-then-assign"))
    # 5. effect value is a read
    env, em, tm, T, p, o1, o2 = base("effect-value-read")
    c = Fluent("c", tm.IntType(), environment=env); p.add_fluent(c, default_initial_value=0)
    d = Fluent("d", tm.IntType(), environment=env); p.add_fluent(d, default_initial_value=0)
    a = act(env, "setc"); a.add_effect(c, 2)
    b = act(env, "copy"); b.add_effect(d, em.Plus(c, 1))
    p.add_action(a); p.add_action(b); p.add_goal(em.Equals(d, 3))
    out.append(sx.HandProblem(p, "effect-value-read"))
    # 6. quantified precondition reads every instance
    env, em, tm, T, p, o1, o2 = base("quantified-precondition")
    f, g = bfl(p, env, tm, "f", x=T), bfl(p, env, tm, "g")
    p.set_initial_value(f(o1), True)
    v = Variable("v", T, env)
    a = act(env, "set2"); a.add_effect(f(o2), True)
    b = act(env, "needall"); b.add_precondition(em.Forall(f(v), v)); b.add_effect(g, True)
    p.add_action(a); p.add_action(b); p.add_goal(g)
    out.append(sx.HandProblem(p, "quantified-precondition"))
    # 7. anti-dependency: an earlier reader stays before a later writer
    env, em, tm, T, p, o1, o2 = base("read-then-write")
    q, r = bfl(p, env, tm, "q", init=True), bfl(p, env, tm, "r")
    a = act(env, "useq"); a.add_precondition(q); a.add_effect(r, True)
    b = act(env, "delq"); b.add_effect(q, False)
    p.add_action(a); p.add_action(b); p.add_goal(em.And(r, em.Not(q)))
    out.append(sx.HandProblem(p, "read-then-write"))
    # 8. parameters: independent instances + a join
    env, em, tm, T, p, o1, o2 = base("parameterised-join")
    f, g = bfl(p, env, tm, "f", x=T), bfl(p, env, tm, "g")
    a = act(env, "set", x=T); a.add_effect(f(a.parameter("x")), True)
    b = act(env, "join"); b.add_precondition(em.And(f(o1), f(o2))); b.add_effect(g, True)
    c = act(env, "unset", x=T); c.add_precondition(g); c.add_effect(f(c.parameter("x")), False)
    for x in (a, b, c):
        p.add_action(x)
    p.add_goal(em.And(g, em.Not(f(o1))))
    out.append(sx.HandProblem(p, "parameterised-join"))
    # 9. nested fluents: UPUsageError
    env, em, tm, T, p, o1, o2 = base("nested-fluent")
    o = Fluent("o", T, environment=env); p.add_fluent(o, default_initial_value=o1)
    f, g = bfl(p, env, tm, "f", x=T), bfl(p, env, tm, "g")
    p.set_initial_value(f(o1), True)
    a = act(env, "nest"); a.add_precondition(f(o)); a.add_effect(g, True)
    b = act(env, "plain"); b.add_effect(f(o2), True)
    p.add_action(a); p.add_action(b); p.add_goal(g)
    out.append(sx.HandProblem(p, "nested-fluent"))
    # 10. chain of writers between a writer and a reader (last_modifier chain)
    env, em, tm, T, p, o1, o2 = base("writer-chain")
    c = Fluent("c", tm.IntType(), environment=env); p.add_fluent(c, default_initial_value=0)
    g = bfl(p, env, tm, "g")
    a = act(env, "s1"); a.add_effect(c, 1)
    b = act(env, "s2"); b.add_precondition(em.Equals(c, 1)); b.add_effect(c, 2)
    d = act(env, "chk"); d.add_precondition(em.Equals(c, 2)); d.add_effect(g, True)
    e = act(env, "free"); e.add_effect(bfl(p, env, tm, "h"), True)
    for x in (a, b, d, e):
        p.add_action(x)
    p.add_goal(g)
    out.append(sx.HandProblem(p, "writer-chain"))
    # 11. bounded type (single-fluent constraint: inside the theorem's hypothesis)
    env, em, tm, T, p, o1, o2 = base("bounded-type")
    c = Fluent("c", tm.IntType(0, 3), environment=env); p.add_fluent(c, default_initial_value=0)
    g = bfl(p, env, tm, "g")
    a = act(env, "up2"); a.add_increase_effect(c, 2)
    b = act(env, "dn1"); b.add_decrease_effect(c, 1)
    d = act(env, "gg"); d.add_effect(g, True)
    for x in (a, b, d):
        p.add_action(x)
    p.add_goal(em.And(g, em.Equals(c, 1)))
    out.append(sx.HandProblem(p, "bounded-type"))
    # 12. invariant over two fluents (outside the hypothesis; counted separately)
    env, em, tm, T, p, o1, o2 = base("two-fluent-invariant")
    a_, b_ = bfl(p, env, tm, "a", init=True), bfl(p, env, tm, "b")
    p.add_state_invariant(em.Or(a_, b_))
    a = act(env, "setb"); a.add_effect(b_, True)
    b = act(env, "clra"); b.add_effect(a_, False)
    p.add_action(a); p.add_action(b); p.add_goal(em.And(b_, em.Not(a_)))
    out.append(sx.HandProblem(p, "two-fluent-invariant"))
    # 13. conditional forall effect whose condition mentions the bound variable
    env, em, tm, T, p, o1, o2 = base("conditional-forall")
    f, h, g = bfl(p, env, tm, "f", x=T), bfl(p, env, tm, "h", x=T), bfl(p, env, tm, "g")
    v = Variable("v", T, env)
    a = act(env, "seth", x=T); a.add_effect(h(a.parameter("x")), True)
    b = act(env, "prop"); b.add_effect(f(v), True, condition=h(v), forall=(v,))
    c = act(env, "fin"); c.add_precondition(em.Exists(f(v), v)); c.add_effect(g, True)
    for x in (a, b, c):
        p.add_action(x)
    p.add_goal(g)
    out.append(sx.HandProblem(p, "conditional-forall"))
    # 14-17. fluents with a bounded integer parameter, indexed by arithmetic over the action's integer parameter:
    # the written / read ground fluent is only known after evaluating (the code: substituting and SIMPLIFYING) the argument
    def ibase(label):
        env = Environment()
        tm = env.type_manager
        p = Problem(label, env)
        on = Fluent("on", tm.BoolType(), i=tm.IntType(0, 4), environment=env)
        g = Fluent("g", tm.BoolType(), environment=env)
        p.add_fluent(on, default_initial_value=False)
        p.add_fluent(g, default_initial_value=False)
        return env, env.expression_manager, tm, p, on, g, tm.IntType(1, 2)

    # 14. write on(i+1), read on(i)
    env, em, tm, p, on, g, PAR = ibase("int-arg-write-plus-one")
    a = act(env, "shift", i=PAR); a.add_effect(on(em.Plus(a.parameter("i"), 1)), True)
    b = act(env, "mark", i=PAR); b.add_precondition(on(b.parameter("i"))); b.add_effect(g, True)
    p.add_action(a); p.add_action(b); p.add_goal(g)
    out.append(sx.HandProblem(p, "int-arg-write-plus-one"))
    # 15. read on(i-1) in a precondition, write on(c)
    env, em, tm, p, on, g, PAR = ibase("int-arg-read-minus-one")
    a = act(env, "set0"); a.add_effect(on(0), True)
    b = act(env, "chk", i=PAR); b.add_precondition(on(em.Minus(b.parameter("i"), 1))); b.add_effect(g, True)
    p.add_action(a); p.add_action(b); p.add_goal(g)
    out.append(sx.HandProblem(p, "int-arg-read-minus-one"))
    # 16. two writers on(2*i) / on(i+1) of the same ground fluent (i = 1: on(2)), then a reader
    env, em, tm, p, on, g, PAR = ibase("int-arg-write-write-times")
    a = act(env, "dbl", i=PAR); a.add_effect(on(em.Times(2, a.parameter("i"))), True)
    b = act(env, "clr", i=PAR); b.add_effect(on(em.Plus(b.parameter("i"), 1)), False)
    c = act(env, "fin"); c.add_precondition(em.Not(on(2))); c.add_effect(g, True)
    for x in (a, b, c):
        p.add_action(x)
    p.add_goal(em.And(g, em.Not(on(2))))
    out.append(sx.HandProblem(p, "int-arg-write-write-times"))
    # 17. anti-dependency through arithmetic: reader of on(i+1) (initially true) before the writer of on(2*i)
    env, em, tm, p, on, g, PAR = ibase("int-arg-read-then-write")
    p.set_initial_value(on(2), True)
    a = act(env, "use", i=PAR); a.add_precondition(on(em.Plus(a.parameter("i"), 1))); a.add_effect(g, True)
    b = act(env, "del", i=PAR); b.add_effect(on(em.Times(2, b.parameter("i"))), False)
    p.add_action(a); p.add_action(b); p.add_goal(em.And(g, em.Not(on(2))))
    out.append(sx.HandProblem(p, "int-arg-read-then-write"))
    # 18. conditional effect whose condition and value are indexed arithmetically; numeric fluent cnt(i)
    env, em, tm, p, on, g, PAR = ibase("int-arg-cond-value")
    cnt = Fluent("cnt", tm.IntType(), i=tm.IntType(0, 4), environment=env); p.add_fluent(cnt, default_initial_value=0)
    a = act(env, "inc", i=PAR); a.add_increase_effect(cnt(em.Minus(a.parameter("i"), 1)), 2)
    b = act(env, "cpy", i=PAR); b.add_effect(cnt(em.Plus(b.parameter("i"), 1)), em.Plus(cnt(em.Minus(b.parameter("i"), 1)), 1),
                                             condition=em.LE(1, cnt(em.Minus(b.parameter("i"), 1))))
    p.add_action(a); p.add_action(b); p.add_goal(em.Equals(cnt(2), 3))
    out.append(sx.HandProblem(p, "int-arg-cond-value"))
    return out


# ---------------------------------------------------------------------------------------------- search for valid plans
def executable_sequences(sim, insts, rng, maxlen, budget, branch):
    """Random depth-first search through the real simulator over sequences of DISTINCT ground instances.
    Returns [(tuple of instance indices, final state)] for every executable sequence visited (length >= 1)."""
    out = []
    left = [budget]

    def dfs(state, seq):
        if seq:
            out.append((tuple(seq), state))
        if len(seq) >= maxlen or left[0] <= 0:
            return
        order = [i for i in range(len(insts)) if i not in seq]
        rng.shuffle(order)
        done = 0
        for i in order:
            if left[0] <= 0 or done >= branch:
                break
            left[0] -= 1
            a, args = insts[i]
            try:
                nxt = sim.apply(state, a, args)
            except Exception:  # noqa
                nxt = None
            if nxt is not None:
                done += 1
                dfs(nxt, seq + [i])

    dfs(sim.get_initial_state(), [])
    return out


def goal_from_state(gen, ser, state, rng):
    """A conjunction of 1-2 ground-fluent facts true in `state` (used when the generated goal is never reached)."""
    em = gen.problem.environment.expression_manager
    vals = ser.read_state(state)
    defined = [(fa, v) for fa, v in zip(ser.gfluents, vals) if v is not None]
    rng.shuffle(defined)
    goals = []
    for (f, args), v in defined[:rng.randint(1, 2)]:
        fe = ser.fexp(f, args)
        if isinstance(v, bool):
            goals.append(fe if v else em.Not(fe))
        elif hasattr(v, "name") and not isinstance(v, (int,)) and f.type.is_user_type():
            goals.append(em.Equals(fe, em.ObjectExp(v)))
        else:
            goals.append(em.Equals(fe, em.Real(v) if v.denominator != 1 else em.Int(int(v))))
    return goals


def valid_plans(gen, rng, maxlen, budget, branch, want, exhaustive=False):
    """-> (ser, s0 values, insts, [plan index tuples])  or None when the problem has no usable initial state."""
    import unified_planning as up
    from unified_planning.engines.sequential_simulator import UPSequentialSimulator
    problem = gen.problem
    try:
        sim = UPSequentialSimulator(problem)
        sim.get_initial_state()
    except (up.exceptions.UPProblemDefinitionError, up.exceptions.UPUsageError):
        return None
    insts = gen.ground_instances()
    # families about instances of different actions with one tuple of actual parameters: such plans come first
    prefer = getattr(gen, "prefer_shared_tuples", False)
    if exhaustive:
        seqs = executable_sequences(sim, insts, rng, maxlen, 4000, 99)
    else:
        seqs = executable_sequences(sim, insts, rng, maxlen, budget, branch)

    def is_goal(st):
        try:
            return bool(sim.is_goal(st))
        except Exception:  # noqa
            return False

    good = [s for s, st in seqs if len(s) >= 2 and is_goal(st)]
    rewritten = False
    if not good and not exhaustive:
        longest = [x for x in seqs if len(x[0]) >= 2]
        if longest:
            longest.sort(key=lambda x: -len(x[0]))
            top = [x for x in longest if len(x[0]) == len(longest[0][0])]
            if prefer:
                top = [x for x in top if cross_action_shared_tuples(insts, x[0])] or top
            seq, st = rng.choice(top)
            ser0 = SerProblemInt(problem)
            goals = goal_from_state(gen, ser0, st, rng)
            if goals:
                problem.clear_goals()
                for g in goals:
                    problem.add_goal(g)
                rewritten = True
                sim = UPSequentialSimulator(problem)
                good = [s for s, st in seqs if len(s) >= 2 and is_goal(st)]
    ser = SerProblemInt(problem)
    s0 = ser.read_state(sim.get_initial_state())
    good = sorted(set(good), key=lambda s: (-len(s), s))
    if not exhaustive and len(good) > want * 6:
        # a random sample of candidates (the caller keeps the `want` most interesting ones)
        rng.shuffle(good)
        if prefer:
            good.sort(key=lambda s: not cross_action_shared_tuples(insts, s))     # stable: a random sample of each part
        good = sorted(good[:want * 6], key=lambda s: (-len(s), s))
    return ser, s0, insts, good, rewritten


# ---------------------------------------------------------------------------------------------- one case
def ser_inst(ser, inst):
    a, args = inst
    n = ser.names
    return gpair(gn(n.act(a)), glist([ser_value(sx.arg_value(x), n) for x in args]))


def inst_json(inst):
    return [inst[0].name, [str(x) for x in inst[1]]]


def convert(problem, insts, plan):
    """Run the real conversion.  -> dict(raised, edges [(i, j)], lins [[i...]], n_lins_total_capped)"""
    import unified_planning as up
    from unified_planning.plans import SequentialPlan, ActionInstance, PlanKind
    ais = [ActionInstance(insts[i][0], insts[i][1]) for i in plan]
    pos = {id(ai): k for k, ai in enumerate(ais)}
    sp = SequentialPlan(ais, problem.environment)
    try:
        pop = sp.convert_to(PlanKind.PARTIAL_ORDER_PLAN, problem)
    except up.exceptions.UPUsageError as e:
        return {"raised": "UPUsageError", "msg": str(e)[:120], "edges": [], "lins": [], "capped": False}
    except Exception as e:  # noqa  (anything else is a failure of the conversion itself)
        return {"raised": type(e).__name__, "msg": str(e)[:120], "edges": [], "lins": [], "capped": False}
    adj = pop.get_adjacency_list
    edges = sorted((pos[id(x)], pos[id(y)]) for x, ys in adj.items() for y in ys)
    lins = []
    capped = False
    it = pop.all_sequential_plans()
    for sp2 in islice(it, LIN_CAP + 1):
        lins.append([pos[id(ai)] for ai in sp2.actions])
    if len(lins) > LIN_CAP:
        lins = lins[:LIN_CAP]
        capped = True
    nodes = sorted(pos[id(x)] for x in adj.keys())
    return {"raised": None, "edges": edges, "lins": lins, "capped": capped, "nodes_ok": nodes == list(range(len(ais)))}


def ser_case(ser, s0, insts, plan, obs):
    gi = [ser_inst(ser, insts[i]) for i in plan]
    return "{| c_init := %s; c_keys := %s; c_plan := %s; c_raised := %s; c_edges := %s; c_lins := %s |}" % (
        ser.ser_state(s0), ser.ser_keys(), glist(gi), gbool(obs["raised"] is not None),
        glist([gpair(gi[a], gi[b]) for a, b in obs["edges"]]),
        glist([glist([gi[k] for k in lin]) for lin in obs["lins"]]))


def simulator_run(problem, insts, plan, order):
    """Replay `order` (positions into plan) through the real simulator: (executable, goal, final values as strings)."""
    from unified_planning.engines.sequential_simulator import UPSequentialSimulator
    sim = UPSequentialSimulator(problem)
    st = sim.get_initial_state()
    for k in order:
        a, args = insts[plan[k]]
        try:
            st = sim.apply(st, a, args)
        except Exception as e:  # noqa
            return False, False, "raised " + type(e).__name__
        if st is None:
            return False, False, None
    try:
        g = bool(sim.is_goal(st))
    except Exception:  # noqa
        g = False
    return True, g, st


def eval_cases(ctx, pre, cases, owners, chunk=64):
    """Evaluate Corr_C27.code on every case; each Coq file only defines the problems its cases mention."""
    from concurrent.futures import ThreadPoolExecutor
    chunks = [(k, list(range(k, min(k + chunk, len(cases))))) for k in range(0, len(cases), chunk)]

    def one(arg):
        k, idxs = arg
        pis = sorted(set(owners[i]["pi"] for i in idxs))
        preamble = "\n".join(pre[pi] for pi in pis) + "\n"
        return ctx.coq_codes([cases[i] for i in idxs], "fun pc => Corr_C27.code (fst pc) (snd pc)", imports=IMPORTS,
                             preamble=preamble, shard=len(idxs), label="plans%d" % k)

    out = []
    with ThreadPoolExecutor(max_workers=6) as ex:
        for r in ex.map(one, chunks):
            out += r
    return out


# ---------------------------------------------------------------------------------------------- the check
def run(ctx):
    t_start = time.time()
    ok_proofs = ctx.check_props(extra=["theories/Corr/Corr_C27.v"])
    t_proofs = time.time()
    rng = ctx.rng
    if ctx.quick:
        n_noinv, n_inv, n_int, maxlen, want, budget, branch = 30, 18, 30, 4, 4, 200, 3
    else:
        n_noinv, n_inv, n_int, maxlen, want, budget, branch = 300, 200, 300, 5, 6, 500, 3
    n_perm, n_perm_ctrl = (16, 4) if ctx.quick else (160, 40)
    sources = [("hand", hp, None) for hp in hand_corpus()]
    noinv = dict(invariants=False, bounded=False, max_actions=3)
    sources += [("noinv", None, dict(noinv)) for _ in range(n_noinv)]
    # a sub-family without object-valued fluents: no nested fluents, so the conversion succeeds more often
    sources += [("noinv", None, dict(noinv, obj_fluents=False)) for _ in range(n_noinv)]
    sources += [("inv", None, dict(max_actions=3)) for _ in range(n_inv)]
    sources += [("inv", None, dict(max_actions=3, obj_fluents=False)) for _ in range(n_inv)]
    sources += [("intarg", None, None) for _ in range(n_int)]
    # actions sharing parameter names at different positions (and, as a control, at the same positions); added after
    # the older families so that those keep their random sample
    sources += [("hand", hp, None) for hp in perm_hand_corpus()]
    sources += [("permpar", None, {"permuted": True}) for _ in range(n_perm)]
    sources += [("permpar", None, {"permuted": False}) for _ in range(n_perm_ctrl)]

    pre, cases, owners = [], [], []
    stats = {g: {"problems": 0, "retries": 0, "skipped": 0, "no_plan": 0, "goal_rewritten": 0, "plans": 0, "raised_nested": 0,
                 "converted": 0, "linearisations": 0, "capped": 0, "plans_with_several_linearisations": 0,
                 "edges": 0, "len_hist": {},
                 "plans_with_cross_action_shared_tuple": 0}
             for g in ("hand", "noinv", "inv", "intarg", "permpar")}
    feat = {"cond": 0, "forall": 0, "incdec": 0, "quantified_pre": 0}
    pi = 0
    for group, hp, knobs in sources:
        gen, res = hp, None
        for attempt in range(1 if hp is not None else 4):
            # many random problems have fewer than two executable instances: retry a few times (counted)
            if hp is None:
                gen = (GenIntProblem(rng) if group == "intarg" else GenPermProblem(rng, **knobs) if group == "permpar"
                       else GenProblem(rng, **knobs))
                if len(gen.ground_instances()) < 2:
                    continue
            res = valid_plans(gen, rng, maxlen if hp is None else 4, budget, branch, want, exhaustive=hp is not None)
            if res is not None and res[3]:
                break
            stats[group]["retries"] += 1
        st = stats[group]
        if res is None:
            st["skipped"] += 1
            continue
        ser, s0, insts, plans, rewritten = res
        st["problems"] += 1
        st["goal_rewritten"] += bool(rewritten)
        if not plans:
            st["no_plan"] += 1
            continue
        problem = gen.problem
        pre.append("Definition P%d : problem := %s." % (pi, ser.render()))
        for a in problem.actions:
            feat["cond"] += any(e.is_conditional() for e in a.effects)
            feat["forall"] += any(e.is_forall() for e in a.effects)
            feat["incdec"] += any(e.is_increase() or e.is_decrease() for e in a.effects)
            feat["quantified_pre"] += any("forall" in str(c).lower() or "exists" in str(c).lower() for c in a.preconditions)
        if hp is not None and len(plans) > 14:
            # hand problems: every 2-step plan (the aimed-at corner) + a sample of the longer ones
            short = [pl for pl in plans if len(pl) == 2]
            longer = [pl for pl in plans if len(pl) > 2]
            rng.shuffle(longer)
            plans = short + sorted(longer[:max(0, 14 - len(short))])
        converted = [(plan, convert(problem, insts, plan)) for plan in plans]
        if hp is None and len(converted) > want:
            # keep the plans whose partial order has the most linearisations (and one that raised, if any)
            shared = getattr(gen, "prefer_shared_tuples", False)
            converted.sort(key=lambda po: (not (shared and cross_action_shared_tuples(insts, po[0])),
                                           -min(len(po[1]["lins"]), 8), -len(po[0]), po[0]))
            keep = converted[:want]
            raised = [po for po in converted[want:] if po[1]["raised"]]
            converted = keep + raised[:1]
        for plan, obs in converted:
            st["plans"] += 1
            st["len_hist"][len(plan)] = st["len_hist"].get(len(plan), 0) + 1
            st["plans_with_cross_action_shared_tuple"] += cross_action_shared_tuples(insts, plan) > 0
            if obs["raised"]:
                st["raised_nested"] += 1
            else:
                st["converted"] += 1
                st["linearisations"] += len(obs["lins"])
                st["capped"] += obs["capped"]
                st["edges"] += len(obs["edges"])
                st["plans_with_several_linearisations"] += len(obs["lins"]) > 1
            cases.append("(P%d, %s)" % (pi, ser_case(ser, s0, insts, plan, obs)))
            owners.append({"group": group, "label": getattr(gen, "label", None), "gen": gen, "ser": ser, "s0": s0,
                           "insts": insts, "plan": plan, "obs": obs, "pi": pi})
        pi += 1

    t_gen = time.time()
    codes = eval_cases(ctx, pre, cases, owners)

    t_coq = time.time()
    sep = {"strict_hypothesis_fails": 0, "invariant_hypothesis_fails": 0,
           "invariant_hypothesis_fails_with_bad_linearisation": 0, "examples": []}
    nontrivial = set()
    checked_lins = 0
    for o, code in zip(owners, codes):
        obs, plan, insts, ser, gen = o["obs"], o["plan"], o["insts"], o["ser"], o["gen"]
        desc = {"group": o["group"], "label": o["label"], "plan": [inst_json(insts[i]) for i in plan],
                "raised": obs["raised"], "edges": obs["edges"], "n_linearisations": len(obs["lins"]), "capped": obs["capped"]}
        if not obs["raised"] and len(obs["lins"]) > 1:
            nontrivial.add(json.dumps([o["pi"], desc["plan"]], sort_keys=True))
        checked_lins += len(obs["lins"])
        bad_idx = (code >> 16) - 1
        bits = code & 0xFFFF
        tags = ["c27", "group-" + o["group"]] + (["hand:" + o["label"]] if o["label"] else [])
        payload = {"case": desc, "code_bits": bits, "initial_state": ser.json_state(o["s0"]),
                   "problem_text": str(gen.problem), "names": ser.names.table(),
                   "theorem_or_corr": "corr:C27:deorder / oracle valid_plan false"}
        hyp_inv = bool(bits & 16)
        if obs["raised"] and obs["raised"] != "UPUsageError":
            ctx.fail("oracle", "convert_to(PARTIAL_ORDER_PLAN) raised %s on a valid plan" % obs["raised"],
                     tags + ["raises", obs["raised"]], payload, True)
            continue
        if bits & 256:
            ctx.fail("harness", "generated plan has duplicate instances", tags + ["duplicate-instances"], payload, False)
            continue
        if obs["raised"] is None and not obs.get("nodes_ok", True):
            ctx.fail("oracle", "the partial-order plan does not have exactly the plan's instances as nodes",
                     tags + ["nodes-differ"], payload, True)
        if bits & 4:
            sep["strict_hypothesis_fails"] += 1
        if hyp_inv:
            sep["invariant_hypothesis_fails"] += 1
        lin_fail = bool(bits & 8) or (bool(bits & 64) and bool(bits & 4))
        if lin_fail:
            which = obs["lins"][bad_idx] if 0 <= bad_idx < len(obs["lins"]) else None
            payload["failing_linearisation"] = None if which is None else [inst_json(insts[plan[k]]) for k in which]
            if which is not None:
                ex, g, _ = simulator_run(gen.problem, insts, plan, which)
                payload["real_simulator_on_failing_linearisation"] = {"executable": ex, "goal": g}
            if hyp_inv:
                sep["invariant_hypothesis_fails_with_bad_linearisation"] += 1
                if len(sep["examples"]) < 3:
                    sep["examples"].append({"case": desc, "failing_linearisation": payload.get("failing_linearisation"),
                                            "invariants": [str(x) for x in gen.problem.state_invariants],
                                            "real_simulator": payload.get("real_simulator_on_failing_linearisation")})
            else:
                ctx.fail("oracle", "a linearisation of the deordered plan is invalid or ends in another state (code %d)" % bits,
                         tags + ["linearisation-invalid"] + (["short-circuit-semantics-only"] if not bits & 8 else []),
                         payload, True)
        if bits & 128:
            ctx.fail("oracle", "two conflicting instances are not kept in their original order by the partial order (code %d)" % bits,
                     tags + ["conflicting-pair-unordered"], payload, True)
        if bits & 32:
            ctx.fail("oracle", "all_sequential_plans produced an order that is not a topological order of the graph (code %d)" % bits,
                     tags + ["non-topological-linearisation"], payload, True)
        if bits & 1:
            ctx.fail("corr", "convert_to raised=%s but the model says %s (corr:C27:deorder nested-fluent test)" % (
                obs["raised"], "None" if not obs["raised"] else "Some"), tags + ["raise-mismatch"], payload, False)
        if bits & 2 and not (bits & 128 or (lin_fail and not hyp_inv)):
            ctx.fail("corr", "the implementation's partial order and the model's differ as reachability relations (corr:C27:deorder)",
                     tags + ["edges-differ"], payload, False)

    if not ok_proofs:
        ctx.proof_broken()
    by_group = {}
    for f in ctx.failures:
        g = [x for x in f.tags if x.startswith("group-")]
        key = (g[0] if g else "other") + ":" + f.kind
        by_group[key] = by_group.get(key, 0) + 1
    samples = []
    for o in owners[:3]:
        samples.append({"group": o["group"], "label": o["label"], "plan": [inst_json(o["insts"][i]) for i in o["plan"]],
                        "edges": o["obs"]["edges"], "linearisations": o["obs"]["lins"][:6], "raised": o["obs"]["raised"]})
    ctx.finish({
        "evaluations": len(cases),
        "linearisations_validated_in_coq": checked_lins,
        "distinct_nontrivial": len(nontrivial),
        "rule": "one case per (problem, valid plan of distinct ground instances found by random DFS through the real simulator, length 2..%d); non-trivial = conversion succeeded and the partial order has more than one linearisation; distinct by (problem, plan)" % maxlen,
        "samples": samples,
        "distribution": {"groups": stats, "action_features": feat, "lin_cap": LIN_CAP, "max_plan_length": maxlen},
        "reported_separately": sep,
        "failures_by_group": by_group,
        "phase_seconds": {"proofs": round(t_proofs - t_start, 1), "search_and_conversion": round(t_gen - t_proofs, 1),
                          "coq_evaluation": round(t_coq - t_gen, 1)},
        "traces_validated_against_impl": len(cases),
    }, "proof", assumptions=[
        "plans consist of pairwise distinct action instances",
        "every state invariant / bounded-type constraint reads at most one ground fluent and holds initially (plans outside this hypothesis are counted in reported_separately, with the failing linearisation when there is one)",
        "the sequential plan is valid under the documented strict semantics (plans valid only for the simulator's short-circuit evaluation are counted in reported_separately.strict_hypothesis_fails and checked under the short-circuit semantics instead)",
    ])
