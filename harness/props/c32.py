"""C32 — Factory engine selection honours every requested requirement.

Theorems: coq/theories/Props/C32.v (about coq/theories/Model/Factory.v, generic in the registry and preference list).
Ties: (1) translators tools/gen_kind.py + tools/gen_engines.py (ast, fail closed) regenerate Gen_Kind.v / Gen_Engines.v on every
run; (2) second reading: every importable built-in engine class is EXECUTED (supported_kind(), is_<mode>(),
supports_compilation/supports_plan/satisfies/ensures on every enum member, resulting_problem_kind on sample kinds) and
compared with the translation inside Coq; (3) correspondence: fresh Factories with random dummy engines, random kinds x every
operation mode x requirements x random preference lists, by _get_engine_class and through the public entry points, and
compilation pipelines (Factory.Compiler(compilation_kinds=...)), against the model.  An independent oracle written from the
property text checks every answer of the real Factory.
"""
import itertools
import re
import sys
import types

from harness.core import gn, gnat, gbool, glist, gopt, gpair, gstr
from harness.props.c33 import run_translator

META = {
    "level": "proof",
    "technique": "Coq proof (selection loop and pipeline construction, generic in registry/preferences) + ast translators + "
                 "executed second reading of the registry + model/implementation correspondence by vm_compute",
    "text": "select_sound / select_none / select_complete / pipeline_chain_supported about a Gallina model of "
            "Factory._engine_satisfies_conditions, _get_engine_class and the compilation_kinds branch of _get_engine; the built-in "
            "registry is regenerated from source and cross-checked by executing the classes; the model is tied to the real Factory "
            "by differential evaluation inside Coq on fresh factories with dummy engines.",
    "note": "Trusted: Coq kernel/vm_compute, tools/gen_engines.py, tools/gen_kind.py, harness serialiser. External planners are not "
            "installed: the registry consists of the 18 importable built-in engines (tarski_grounder is translated but cannot be "
            "imported) plus dummy engines; meta engines compute their kinds at run time and are not translated. Selection by explicit "
            "name performs no check by design (C32_select_by_name). Fixes in /repo: 2f24f26 (AssertionError instead of the "
            "no-suitable-engine error for plan repairers/replanners/portfolios with an optimality guarantee); 09c8885, 7daefcc, "
            "7ebcece (resulting_problem_kind of three compilers raised AttributeError, recorded under C09).",
}

IMPORTS = ["UPV.Model.Kind", "UPV.Model.Factory", "UPV.Gen.Gen_Kind", "UPV.Gen.Gen_Engines", "UPV.Corr.Corr_C32"]
MODES = ["ONESHOT_PLANNER", "ANYTIME_PLANNER", "PLAN_VALIDATOR", "PORTFOLIO_SELECTOR", "COMPILER",
         "SEQUENTIAL_SIMULATOR", "REPLANNER", "PLAN_REPAIRER", "ACTION_SELECTOR"]


class Impl:
    def __init__(self):
        import unified_planning as up
        from unified_planning.model import problem_kind as pk
        from unified_planning.model import problem_kind_versioning as pkv
        from unified_planning.engines import factory as fac
        from unified_planning.engines.engine import Engine, OperationMode
        from unified_planning.engines import mixins
        from unified_planning.engines.mixins.compiler import CompilationKind
        from unified_planning.engines.mixins.oneshot_planner import OptimalityGuarantee
        from unified_planning.engines.mixins.anytime_planner import AnytimeGuarantee
        from unified_planning.plans import PlanKind
        self.up, self.pk, self.pkv, self.fac = up, pk, pkv, fac
        self.Engine, self.OperationMode = Engine, OperationMode
        self.CK, self.OG, self.AG, self.PK = list(CompilationKind), list(OptimalityGuarantee), list(AnytimeGuarantee), list(PlanKind)
        self.names = list(dict.fromkeys(itertools.chain(*pk.FEATURES.values())))
        self.id = {n: i for i, n in enumerate(self.names)}
        self.latest = pkv.LATEST_PROBLEM_KIND_VERSION
        self.mode = {m.name: m for m in OperationMode}
        self.mixin = {
            "ONESHOT_PLANNER": mixins.OneshotPlannerMixin, "ANYTIME_PLANNER": mixins.AnytimePlannerMixin,
            "PLAN_VALIDATOR": mixins.PlanValidatorMixin, "PORTFOLIO_SELECTOR": mixins.PortfolioSelectorMixin,
            "COMPILER": mixins.CompilerMixin, "SEQUENTIAL_SIMULATOR": mixins.SequentialSimulatorMixin,
            "REPLANNER": mixins.ReplannerMixin, "PLAN_REPAIRER": mixins.PlanRepairerMixin,
            "ACTION_SELECTOR": __import__("unified_planning.engines.mixins.action_selector", fromlist=["x"]).ActionSelectorMixin}
        self.class_of = {}
        for c, fl in pk.FEATURES.items():
            for f in fl:
                self.class_of.setdefault(f, c)
        self.builtin = [n for n, (m, c) in fac.DEFAULT_ENGINES.items() if m.split(".")[0] == "unified_planning"]
        self.module = types.ModuleType("c32_dummies")
        sys.modules["c32_dummies"] = self.module
        self.counter = 0

    def has_features(self, name):
        """features tested by ProblemKind.has_<name>(), read from the class built by ProblemKindMeta"""
        pm = self.pk.ProblemKind.__dict__["has_" + name]
        return [f for f in pm.keywords["features"] if f in self.id]

    def extra_compilers(self):
        """compiler classes defined under unified_planning/engines/compilers/ that DEFAULT_ENGINES does not register: {class name: class}"""
        import importlib
        import inspect
        import pkgutil
        import unified_planning.engines.compilers as pkg
        from unified_planning.engines.mixins.compiler import CompilerMixin
        registered = set(c for _, (m, c) in self.fac.DEFAULT_ENGINES.items())
        out = {}
        for mi in pkgutil.iter_modules(pkg.__path__):
            try:
                mod = importlib.import_module(pkg.__name__ + "." + mi.name)
            except ImportError:
                continue
            for nm, obj in vars(mod).items():
                if (inspect.isclass(obj) and obj.__module__ == mod.__name__ and issubclass(obj, self.Engine)
                        and issubclass(obj, CompilerMixin) and nm not in registered and nm != "CompilersPipeline"):
                    out[nm] = obj
        return out

    def tested_has(self, cls):
        """names x of the ProblemKind.has_x() tests made by cls.resulting_problem_kind (read from its compiled code object)"""
        fn = getattr(cls, "resulting_problem_kind", None)
        code = getattr(fn, "__code__", None)
        if code is None:
            return []
        return [n[4:] for n in code.co_names if n.startswith("has_") and n in self.pk.ProblemKind.__dict__]

    def kind(self, spec):
        return self.pk.ProblemKind(set(self.names[i] for i in spec[0]), spec[1])

    def spec_of(self, k):
        return (sorted(self.id[f] for f in k._features), k._version)

    # ---- dummy engines
    def run_prog(self, prog, old, new):
        for i in prog:
            if i[0] == "set":
                getattr(new, "set_" + self.class_of[i[1]].lower())(i[1])
            elif i[0] == "unset":
                getattr(new, "unset_" + self.class_of[i[1]].lower())(i[1])
            else:
                self.run_prog(i[2] if self.cond(i[1], old, new) else i[3], old, new)

    def cond(self, c, old, new):
        if c[0] in ("old", "new"):
            return getattr(old if c[0] == "old" else new, "has_" + c[1])()
        if c[0] == "not":
            return not self.cond(c[1], old, new)
        a, b = self.cond(c[1], old, new), self.cond(c[2], old, new)
        return (a or b) if c[0] == "or" else (a and b)

    def make_dummy(self, spec):
        I = self
        self.counter += 1
        cname = "Dummy%d" % self.counter
        feats = [self.names[i] for i in spec["supported"][0]]
        ver = spec["supported"][1]
        holder = {}

        def supported_kind():
            return I.pk.ProblemKind(set(feats), ver)

        def supports(problem_kind):
            return problem_kind <= holder["cls"].supported_kind()

        def resulting_problem_kind(problem_kind, compilation_kind=None):
            new = problem_kind.clone()
            I.run_prog(spec["prog"], problem_kind, new)
            return new

        def init(self, **kwargs):
            I.Engine.__init__(self)
            self._default = None
            self.optimality_metric_required = False

        ns = {
            "__init__": init,
            "name": property(lambda self: cname),
            "supported_kind": staticmethod(supported_kind),
            "supports": staticmethod(supports),
            "supports_compilation": staticmethod(lambda ck: I.CK.index(ck) in spec["comp"]),
            "supports_plan": staticmethod(lambda pk: I.PK.index(pk) in spec["plans"]),
            "satisfies": staticmethod(lambda og: I.OG.index(og) in spec["opt"]),
            "ensures": staticmethod(lambda ag: I.AG.index(ag) in spec["any"]),
            "resulting_problem_kind": staticmethod(resulting_problem_kind),
        }
        bases = tuple([self.Engine] + [self.mixin[m] for m in spec["modes"]])
        cls = types.new_class(cname, bases, {}, lambda d: d.update(ns))
        cls.__abstractmethods__ = frozenset()
        holder["cls"] = cls
        setattr(self.module, cname, cls)
        return cname, cls


# ---------------------------------------------------------------------------------------------------------------------
def g_set(ids):
    return glist([gn(i) for i in ids])


def g_skind(s):
    return gpair(g_set(s[0]), gopt(None if s[1] is None else gn(s[1])))


def g_cond(I, c):
    if c[0] == "old":
        return "(CHasOld %s)" % g_set([I.id[f] for f in I.has_features(c[1])])
    if c[0] == "new":
        return "(CHasNew %s)" % g_set([I.id[f] for f in I.has_features(c[1])])
    if c[0] == "not":
        return "(CNot %s)" % g_cond(I, c[1])
    return "(%s %s %s)" % ("COr" if c[0] == "or" else "CAnd", g_cond(I, c[1]), g_cond(I, c[2]))


def g_prog(I, p):
    out = []
    for i in p:
        if i[0] == "set":
            out.append("ISet %s" % gn(I.id[i[1]]))
        elif i[0] == "unset":
            out.append("IUnset %s" % gn(I.id[i[1]]))
        else:
            out.append("IIf %s %s %s" % (g_cond(I, i[1]), g_prog(I, i[2]), g_prog(I, i[3])))
    return glist(out)


def g_engine(I, cname, spec):
    return ('{| e_class := %s; e_modes := %s; e_supported := {| k_feats := mask_of %s; k_ver := %s |}; e_compilations := %s; '
            'e_plans := %s; e_optimality := %s; e_anytime := %s; e_resulting := %s |}' % (
                gstr(cname), glist(spec["modes"]), g_set(spec["supported"][0]),
                gopt(None if spec["supported"][1] is None else gn(spec["supported"][1])),
                g_set(spec["comp"]), g_set(spec["plans"]), g_set(spec["opt"]), g_set(spec["any"]), g_prog(I, spec["prog"])))


def g_optn(x):
    return gopt(None if x is None else gn(x))


def g_sobs(o):
    return "(OFound %s)" % gstr(o[1]) if isinstance(o, tuple) else o


def g_sreq(q):
    return ("{| s_prefs := %s; s_name := %s; s_mode := %s; s_kind := %s; s_opt := %s; s_comp := %s; s_plan := %s; s_any := %s; s_obs := %s |}" % (
        glist([gstr(n) for n in q["prefs"]]), gopt(None if q["name"] is None else gstr(q["name"])), q["mode"], g_skind(q["kind"]),
        g_optn(q["og"]), g_optn(q["ck"]), g_optn(q["pk"]), g_optn(q["ag"]), g_sobs(q["obs"])))


def g_preq(q):
    names = "None" if q["names"] is None else "(Some %s)" % glist([gopt(None if n is None else gstr(n)) for n in q["names"]])
    obs = "(PFound %s)" % glist([gstr(n) for n in q["obs"][1]]) if q["obs"][0] == "found" else "(PFail %s)" % g_sobs(q["obs"][1])
    return "{| p_prefs := %s; p_names := %s; p_cks := %s; p_kind := %s; p_obs := %s |}" % (
        glist([gstr(n) for n in q["prefs"]]), names, g_set(q["cks"]), g_skind(q["kind"]), obs)


def g_world(I, w):
    return "{| w_registered := %s; w_extra := %s; w_sel := %s; w_pipe := %s |}" % (
        glist([gstr(n) for n in w["registered"]]),
        glist([gpair(gstr(n), g_engine(I, n, s)) for n, s in w["dummies"]]),
        glist([g_sreq(q) for q in w["sel"]]), glist([g_preq(q) for q in w["pipe"]]))


def classify(I, ex):
    E = I.up.exceptions
    if isinstance(ex, E.UPNoSuitableEngineAvailableException):
        return "ONoSuitable"
    if isinstance(ex, E.UPNoRequestedEngineAvailableException):
        return "ONoRequested"
    if isinstance(ex, KeyError):
        return "OKey"
    if isinstance(ex, AssertionError):
        return "OAssert"
    return "OOther"


# ---------------------------------------------------------------------------------------------------------------------
def second_reading(I, ctx, factory, rng):
    """Execute every registered built-in engine class; returns (Gallina ecase list, raw)"""
    cases, raw = [], []
    stats_branch = {}
    hot = [I.id[k] for k in I.pkv.FEATURES_VERSIONS if k in I.id]
    todo = [(n, factory.engine(n)) for n in I.builtin if n in factory.engines] + sorted(I.extra_compilers().items())
    for n, cls in todo:
        sk = cls.supported_kind()
        modes = [m for m in MODES if getattr(cls, "is_" + I.mode[m].value)()]

        def members(meth, enum):
            f = getattr(cls, meth, None)
            if f is None:
                return []
            out = []
            for i, x in enumerate(enum):
                try:
                    if f(x):
                        out.append(i)
                except NotImplementedError:
                    pass
            return out

        res = []
        if "COMPILER" in modes:
            base = I.spec_of(sk)[0]
            n_s = 25 if ctx.quick else 120
            specs = []
            for j in range(n_s):
                feats = set(rng.sample(base, min(len(base), rng.randint(0, 8))))
                for _ in range(rng.randint(0, 3)):
                    feats.add(rng.choice(hot) if rng.random() < 0.5 else rng.randrange(len(I.names)))
                if j == 0:
                    feats = set(base)
                ver = rng.choice([I.latest, I.latest, I.latest, None, 2, 1])
                specs.append((sorted(feats), ver))
            # every branch of the declared-kind program both ways: all subsets of the features its has_x() tests look at,
            # alone, inside the rest of the supported kind, and without a declared version
            tested = sorted(set(I.id[f] for h in I.tested_has(cls) for f in I.has_features(h)))
            if len(tested) > 9:
                tested = sorted(rng.sample(tested, 9))
            rest = [i for i in base if i not in tested]
            for r in range(len(tested) + 1):
                for sub in itertools.combinations(tested, r):
                    specs.append((sorted(sub), I.latest))
                    specs.append((sorted(set(sub) | set(rest)), I.latest))
                    specs.append((sorted(sub), None))
            stats_branch[n] = {"has_tests": I.tested_has(cls), "features_tested": len(tested)}
            for spec in specs:
                try:
                    k = I.kind(spec)
                except AssertionError:
                    continue
                try:
                    r = cls.resulting_problem_kind(k, None)
                    res.append((spec, ("RR", I.spec_of(r))))
                except AssertionError:
                    res.append((spec, "RRAssert"))
                except KeyError:
                    res.append((spec, "RRKey"))
                except Exception as ex:
                    res.append((spec, "RROther"))
                    ctx.fail("impl-exception", "%s.resulting_problem_kind raised %r on %s" % (cls.__name__, ex, [I.names[i] for i in spec[0]]),
                             ["c32", "resulting_problem_kind", cls.__name__, type(ex).__name__],
                             {"engine": n, "kind": spec, "exception": repr(ex), "theorem_or_corr": "corr:C32:engine_agree"}, True)
        e = {"name": n, "modes": modes, "supported": I.spec_of(sk), "comp": members("supports_compilation", I.CK),
             "plans": members("supports_plan", I.PK), "opt": members("satisfies", I.OG), "any": members("ensures", I.AG), "res": res,
             "branches": stats_branch.get(n)}
        raw.append(e)
        cases.append("{| ec_name := %s; ec_modes := %s; ec_supported := %s; ec_comp := %s; ec_plans := %s; ec_opt := %s; ec_any := %s; ec_res := %s |}" % (
            gstr(n), glist(modes), g_skind(e["supported"]), g_set(e["comp"]), g_set(e["plans"]), g_set(e["opt"]), g_set(e["any"]),
            glist([gpair(g_skind(s), r if isinstance(r, str) else "(RR %s)" % g_skind(r[1])) for s, r in res])))
    return cases, raw


def names_case(I):
    return ("{| n_modes := %s; n_compilation := %s; n_plan := %s; n_optimality := %s; n_anytime := %s; n_default_prefs := %s; n_default_engines := %s |}" % (
        glist([gpair(m.name, gstr(m.value)) for m in I.OperationMode]),
        glist([gstr(x.name) for x in I.CK]), glist([gstr(x.name) for x in I.PK]), glist([gstr(x.name) for x in I.OG]),
        glist([gstr(x.name) for x in I.AG]), glist([gstr(x) for x in I.fac.DEFAULT_ENGINES_PREFERENCE_LIST]),
        glist([gstr(x) for x in I.fac.DEFAULT_ENGINES])))


# ---------------------------------------------------------------------------------------------------------------------
PERTINENT = {"ONESHOT_PLANNER": ("og",), "REPLANNER": ("og",), "PORTFOLIO_SELECTOR": ("og",), "PLAN_VALIDATOR": ("pk",),
             "COMPILER": ("ck",), "ANYTIME_PLANNER": ("ag",), "PLAN_REPAIRER": ("pk", "og"), "SEQUENTIAL_SIMULATOR": (),
             "ACTION_SELECTOR": ()}


def qualifies(I, cls, q):
    """the property's requirement, evaluated directly on a class (oracle)"""
    if not getattr(cls, "is_" + I.mode[q["mode"]].value)():
        return False
    if q["og"] is not None and not cls.satisfies(I.OG[q["og"]]):
        return False
    if q["ck"] is not None and not cls.supports_compilation(I.CK[q["ck"]]):
        return False
    if q["pk"] is not None and not cls.supports_plan(I.PK[q["pk"]]):
        return False
    if q["ag"] is not None and not cls.ensures(I.AG[q["ag"]]):
        return False
    return bool(cls.supports(I.kind(q["kind"])))


def legal(I, q, classes):
    v = q["kind"][1]
    return (all(n in classes for n in q["prefs"]) and (v is None or 1 <= v <= I.latest)
            and all(q[r] is None for r in ("og", "ck", "pk", "ag") if r not in PERTINENT[q["mode"]]))


def oracle_sel(I, q, classes):
    """None when the real Factory's answer satisfies the property on this request, else a description"""
    if q["name"] is not None:
        return None                                   # selection by name: no requirement to honour
    o = q["obs"]
    if not legal(I, q, classes):
        return None                                   # outside the property's domain (AssertionError/KeyError are the documented outcome)
    try:
        if isinstance(o, tuple):
            if o[1] not in q["prefs"] or not qualifies(I, classes[o[1]], q):
                return "returned engine %s does not honour the request" % o[1]
            return None
        anyq = [n for n in q["prefs"] if qualifies(I, classes[n], q)]
    except Exception as ex:
        return "oracle could not evaluate the classes: %r" % ex
    if o == "ONoSuitable":
        return None if not anyq else "no-suitable-engine error although %s qualify" % anyq
    return "raised %s instead of %s" % (o, "returning %s" % anyq[0] if anyq else "the no-suitable-engine error")


def oracle_pipe(I, q, classes):
    if q["names"] is not None and (any(n is not None for n in q["names"]) or len(q["names"]) != len(q["cks"])):
        return None            # explicit names: no requirement to honour; a wrong number of names is the documented AssertionError
    v = q["kind"][1]
    if not (all(n in classes for n in q["prefs"]) and (v is None or 1 <= v <= I.latest)):
        return None
    try:
        k = I.kind(q["kind"])
        if q["obs"][0] == "found":
            chosen = q["obs"][1]
            if len(chosen) != len(q["cks"]):
                return "pipeline has %d compilers for %d compilation kinds" % (len(chosen), len(q["cks"]))
            for n, ck in zip(chosen, q["cks"]):
                c = classes[n]
                if not (c.is_compiler() and c.supports(k) and c.supports_compilation(I.CK[ck])):
                    return "compiler %s does not support the kind produced by its predecessors / %s" % (n, I.CK[ck].name)
                k = c.resulting_problem_kind(k, I.CK[ck])
            return None
        # failure: replay the greedy construction with the classes themselves
        for ck in q["cks"]:
            qq = {"mode": "COMPILER", "kind": I.spec_of(k), "og": None, "ck": ck, "pk": None, "ag": None}
            cand = [n for n in q["prefs"] if qualifies(I, classes[n], qq)]
            if not cand:
                return None if q["obs"][1] == "ONoSuitable" else "raised %s where no compiler qualifies for %s" % (q["obs"][1], I.CK[ck].name)
            try:
                k = classes[cand[0]].resulting_problem_kind(k, I.CK[ck])
            except AssertionError:
                return None if q["obs"][1] == "OAssert" else "outcome %s" % q["obs"][1]   # set_ of a feature newer than the kind's version
        return "pipeline request failed with %s although every step has a qualifying compiler" % q["obs"][1]
    except Exception as ex:
        return "oracle could not evaluate the classes: %r" % ex


# ---------------------------------------------------------------------------------------------------------------------
def rand_prog(I, rng, depth=0):
    feats = [f for f in I.names]
    hasn = [n[4:] for n in I.pk.ProblemKind.__dict__ if n.startswith("has_")]
    out = []
    for _ in range(rng.randint(0, 3 if depth == 0 else 2)):
        r = rng.random()
        f = rng.choice(feats) if rng.random() < 0.7 else rng.choice(list(I.pkv.FEATURES_VERSIONS))
        if f not in I.id:
            f = rng.choice(feats)
        if r < 0.35:
            out.append(("set", f))
        elif r < 0.7 or depth >= 1:
            out.append(("unset", f))
        else:
            def c():
                x = (rng.choice(["old", "new"]), rng.choice(hasn))
                return x if rng.random() < 0.7 else ("not", x)
            cond = c() if rng.random() < 0.7 else (rng.choice(["or", "and"]), c(), c())
            out.append(("if", cond, rand_prog(I, rng, depth + 1), rand_prog(I, rng, depth + 1) if rng.random() < 0.3 else []))
    return out


def build_world(I, ctx, rng, n_sel, n_pipe, stats, n_hist=2):
    env = I.up.environment.Environment()
    factory = env.factory
    registered = [n for n in I.builtin if n in factory.engines]
    classes = {n: factory.engine(n) for n in registered}
    sup = {n: I.spec_of(classes[n].supported_kind()) for n in registered}
    dummies = []
    # features of version 1 whose upgrade to LATEST adds other features (read by running the upgrade functions)
    def upgraded(fs):
        fs, v = set(fs), 1
        while v < I.latest:
            fs = I.pkv.upgrade_functions_map[(v, v + 1)](fs)
            v += 1
        return fs
    v1 = [f for f in I.names if I.pkv.FEATURES_VERSIONS.get(f, (1, None)) == (1, None)]
    guards = [f for f in v1 if upgraded({f}) - {f}]
    legacy_name = None
    for di in range(rng.randint(2, 5)):
        modes = rng.sample(MODES, rng.choice([1, 1, 2]))
        if rng.random() < 0.4 and "COMPILER" not in modes:
            modes[0] = "COMPILER"
        modes = [m for m in MODES if m in modes]
        base = sup[rng.choice(registered)][0]
        feats = sorted(set(rng.sample(base, min(len(base), rng.randint(2, 25)))) | set(rng.sample(range(len(I.names)), rng.randint(0, 3))))
        ver = rng.choice([I.latest] * 6 + [None, 2])
        if di == 0:
            # a "legacy" engine: supports version-1 features incl. the upgrade guards but not what the upgrade adds to them, so the same
            # feature set is supported when declared at LATEST and unsupported when declared at version 1 / None / 2
            modes = sorted(rng.sample(["ANYTIME_PLANNER", "ONESHOT_PLANNER", "PLAN_VALIDATOR", "COMPILER", "PLAN_REPAIRER", "PORTFOLIO_SELECTOR",
                                       "REPLANNER"], 2), key=MODES.index)
            products = set(x for g in guards for x in upgraded({g}) - {g})
            keep = set(guards) | set(rng.sample(v1, 12))
            feats = sorted(I.id[f] for f in keep if f not in products)
            ver = I.latest
        try:
            I.kind((feats, ver))
        except AssertionError:
            ver = I.latest
        spec = {"modes": modes, "supported": (feats, ver),
                "comp": sorted(rng.sample(range(len(I.CK)), rng.randint(1, 3))) if "COMPILER" in modes else [],
                "plans": sorted(rng.sample(range(len(I.PK)), rng.randint(0, 2))),
                "opt": sorted(rng.sample(range(len(I.OG)), rng.randint(0, 2))),
                "any": sorted(rng.sample(range(len(I.AG)), rng.randint(0, 2))),
                "prog": rand_prog(I, rng) if "COMPILER" in modes else []}
        cname, cls = I.make_dummy(spec)
        if di == 0:
            legacy_name = cname
        factory.add_engine(cname, "c32_dummies", cname)
        dummies.append((cname, spec))
        classes[cname] = cls
        sup[cname] = spec["supported"]
    rev = {c: n for n, c in classes.items()}
    allnames = list(classes)
    offered = {"ck": sorted(set(i for n in allnames for i in range(len(I.CK)) if classes[n].is_compiler() and classes[n].supports_compilation(I.CK[i])))}

    def rand_prefs():
        k = rng.randint(1, len(allnames))
        p = rng.sample(allnames, k)
        if rng.random() < 0.04:
            p.insert(rng.randrange(len(p) + 1), "not-registered")
        return p

    def rand_kind(target):
        base, bver = sup[target]
        feats = set(rng.sample(base, min(len(base), rng.randint(0, 6))))
        if rng.random() < 0.3:
            feats.add(rng.randrange(len(I.names)))
        r = rng.random()
        ver = bver if r < 0.7 else rng.choice([None, None, 2, 2, 1, I.latest + 1, I.latest])
        try:
            I.kind((sorted(feats), ver))
        except AssertionError:
            ver = I.latest
        return (sorted(feats), ver)

    sel = []
    for _ in range(n_sel):
        target = rng.choice(allnames)
        tmodes = [m for m in MODES if getattr(classes[target], "is_" + I.mode[m].value)()]
        mode = rng.choice(tmodes) if rng.random() < 0.6 else rng.choice(MODES)
        q = {"prefs": rand_prefs(), "name": None, "mode": mode, "kind": rand_kind(target), "og": None, "ck": None, "pk": None, "ag": None}
        if rng.random() < 0.05:
            q["name"] = rng.choice(allnames + ["not-registered"])
        enum_len = {"og": len(I.OG), "ck": len(I.CK), "pk": len(I.PK), "ag": len(I.AG)}
        meth = {"og": "satisfies", "ck": "supports_compilation", "pk": "supports_plan", "ag": "ensures"}
        enum = {"og": I.OG, "ck": I.CK, "pk": I.PK, "ag": I.AG}
        for r in ("og", "ck", "pk", "ag"):
            pert = r in PERTINENT[mode]
            if (pert and rng.random() < 0.6) or (not pert and rng.random() < 0.02):
                good = []
                f = getattr(classes[target], meth[r], None)
                if f is not None:
                    for i, x in enumerate(enum[r]):
                        try:
                            if f(x):
                                good.append(i)
                        except Exception:
                            pass
                q[r] = rng.choice(good) if good and rng.random() < 0.6 else rng.randrange(enum_len[r])
        if q["og"] is not None and q["ck"] is not None and rng.random() < 0.7:
            q["ck"] = None
        factory.preference_list = list(q["prefs"])
        k = I.kind(q["kind"])
        api = None
        pert_only = all(q[r] is None for r in ("og", "ck", "pk", "ag") if r not in PERTINENT[mode])
        if q["name"] is None and pert_only and rng.random() < 0.3:
            api = {"ONESHOT_PLANNER": lambda: factory.OneshotPlanner(problem_kind=k, optimality_guarantee=None if q["og"] is None else I.OG[q["og"]]),
                   "ANYTIME_PLANNER": lambda: factory.AnytimePlanner(problem_kind=k, anytime_guarantee=None if q["ag"] is None else I.AG[q["ag"]]),
                   "PLAN_VALIDATOR": lambda: factory.PlanValidator(problem_kind=k, plan_kind=None if q["pk"] is None else I.PK[q["pk"]]),
                   "COMPILER": lambda: factory.Compiler(problem_kind=k, compilation_kind=None if q["ck"] is None else I.CK[q["ck"]]),
                   "PORTFOLIO_SELECTOR": lambda: factory.PortfolioSelector(problem_kind=k, optimality_guarantee=None if q["og"] is None else I.OG[q["og"]]),
                   "PLAN_REPAIRER": lambda: factory.PlanRepairer(problem_kind=k, plan_kind=None if q["pk"] is None else I.PK[q["pk"]],
                                                                 optimality_guarantee=None if q["og"] is None else I.OG[q["og"]])}.get(mode)
        try:
            if api is not None:
                c = type(api())
                stats["through_public_api"] += 1
            else:
                c = factory._get_engine_class(I.mode[mode], q["name"], k,
                                              None if q["og"] is None else I.OG[q["og"]], None if q["ck"] is None else I.CK[q["ck"]],
                                              None if q["pk"] is None else I.PK[q["pk"]], None if q["ag"] is None else I.AG[q["ag"]])
            q["obs"] = ("found", rev.get(c, "?" + c.__name__))
        except Exception as ex:
            q["obs"] = classify(I, ex)
            q["exc"] = repr(ex)[:300]
        q["via"] = "api" if api is not None else "_get_engine_class"
        sel.append(q)

    pipe = []
    for _ in range(n_pipe):
        target = rng.choice([n for n in allnames if classes[n].is_compiler()])
        n_ck = rng.choice([1, 2, 2, 3, 3] if ctx.quick else [1, 2, 2, 3, 3, 4])
        cks = [rng.choice(offered["ck"]) if rng.random() < 0.85 else rng.randrange(len(I.CK)) for _ in range(n_ck)]
        if rng.random() < 0.5:
            cks[0] = rng.choice([i for i in range(len(I.CK)) if classes[target].supports_compilation(I.CK[i])])
        q = {"prefs": rand_prefs(), "names": None, "cks": cks, "kind": rand_kind(target)}
        if rng.random() < 0.6:
            # guided: walk some compilers that accept the kind, so that most of these pipelines can be built
            q["prefs"] = rng.sample(allnames, len(allnames))
            try:
                k, g = I.kind(q["kind"]), []
                for _ in range(n_ck):
                    cand = [(n, i) for n in allnames if classes[n].is_compiler() and classes[n].supports(k)
                            for i in range(len(I.CK)) if classes[n].supports_compilation(I.CK[i])]
                    if not cand:
                        break
                    n, i = rng.choice(cand)
                    g.append(i)
                    k = classes[n].resulting_problem_kind(k, I.CK[i])
                if g:
                    q["cks"] = cks = g
            except Exception:
                pass
        if rng.random() < 0.12:
            q["names"] = [rng.choice([None, None] + allnames) for _ in cks]
            if rng.random() < 0.15:
                q["names"] = q["names"][:-1] if rng.random() < 0.5 else q["names"] + [None]
        factory.preference_list = list(q["prefs"])
        try:
            p = factory.Compiler(problem_kind=I.kind(q["kind"]), compilation_kinds=[I.CK[i] for i in cks], names=q["names"])
            q["obs"] = ("found", [rev.get(type(c), "?" + type(c).__name__) for c in p._compilers])
            q["defaults_ok"] = [c.default for c in p._compilers] == [I.CK[i] for i in cks][:len(p._compilers)]
        except Exception as ex:
            q["obs"] = ("fail", classify(I, ex))
            q["exc"] = repr(ex)[:300]
        pipe.append(q)
    # ---- histories of requests on THIS factory object: same kind and preference list, one requirement varied at a time; every
    # request is also put to a FRESH Factory holding the same engines (a selection must not depend on earlier requests)
    def fresh_factory(prefs):
        f2 = I.up.environment.Environment().factory
        for cname, _ in dummies:
            f2.add_engine(cname, "c32_dummies", cname)
        f2.preference_list = list(prefs)
        return f2

    def ask(fac, q, use_api):
        k = I.kind(q["kind"])
        mode = q["mode"]
        og = None if q["og"] is None else I.OG[q["og"]]
        ag = None if q["ag"] is None else I.AG[q["ag"]]
        pk = None if q["pk"] is None else I.PK[q["pk"]]
        ck = None if q["ck"] is None else I.CK[q["ck"]]
        api = None
        if use_api and q["name"] is None:
            api = {"ONESHOT_PLANNER": lambda: fac.OneshotPlanner(problem_kind=k, optimality_guarantee=og),
                   "ANYTIME_PLANNER": lambda: fac.AnytimePlanner(problem_kind=k, anytime_guarantee=ag),
                   "PLAN_VALIDATOR": lambda: fac.PlanValidator(problem_kind=k, plan_kind=pk),
                   "COMPILER": lambda: fac.Compiler(problem_kind=k, compilation_kind=ck),
                   "PORTFOLIO_SELECTOR": lambda: fac.PortfolioSelector(problem_kind=k, optimality_guarantee=og),
                   "PLAN_REPAIRER": lambda: fac.PlanRepairer(problem_kind=k, plan_kind=pk, optimality_guarantee=og)}.get(mode)
        rv = {c: n for n, c in classes.items()}
        try:
            c = type(api()) if api is not None else fac._get_engine_class(I.mode[mode], q["name"], k, og, ck, pk, ag)
            return ("found", rv.get(c, "?" + c.__name__)), api is not None
        except Exception as ex:
            return classify(I, ex), api is not None

    def ask_pipe(fac, q):
        try:
            p = fac.Compiler(problem_kind=I.kind(q["kind"]), compilation_kinds=[I.CK[i] for i in q["cks"]], names=q["names"])
            return ("found", [rev.get(type(c), "?" + type(c).__name__) for c in p._compilers])
        except Exception as ex:
            return ("fail", classify(I, ex))

    hist_modes = ["ANYTIME_PLANNER", "ONESHOT_PLANNER", "PLAN_VALIDATOR", "COMPILER", "PLAN_REPAIRER", "PORTFOLIO_SELECTOR", "REPLANNER"]
    enum_len = {"og": len(I.OG), "ck": len(I.CK), "pk": len(I.PK), "ag": len(I.AG)}
    for hno in range(n_hist):
        mode = hist_modes[(hno + rng.randrange(len(hist_modes))) % len(hist_modes)] if rng.random() < 0.7 else rng.choice(hist_modes)
        cands = [n for n in allnames if getattr(classes[n], "is_" + I.mode[mode].value)()]
        target = rng.choice(cands) if cands else rng.choice(allnames)
        kind = rand_kind(target)
        if kind[1] is not None and kind[1] > I.latest:
            kind = (kind[0], I.latest)
        prefs = [n for n in rng.sample(allnames, len(allnames))][: rng.randint(max(2, len(allnames) // 2), len(allnames))]
        if target not in prefs:
            prefs.append(target)
        version_history = hno % 2 == 0 and legacy_name is not None
        if version_history:
            # same feature set declared at LATEST / None / 1 / 2: the upgrade of the older declarations adds features the legacy engine lacks
            target = legacy_name
            mode = rng.choice([m for m in MODES if getattr(classes[target], "is_" + I.mode[m].value)()])
            lf = sup[target][0]
            gids = [I.id[g] for g in guards if I.id[g] in lf]
            kind = (sorted(set(rng.sample(gids, rng.randint(1, min(2, len(gids))))) | set(rng.sample(lf, rng.randint(0, 4)))), I.latest)
            prefs = [target] + [n for n in prefs if n != target]
        factory.preference_list = list(prefs)
        cur = {"og": None, "ck": None, "pk": None, "ag": None}
        for step in range(rng.randint(5, 9)):
            if step > 0 and version_history and rng.random() < 0.6:
                kind = (kind[0], rng.choice([v for v in (None, 1, 2, I.latest) if v != kind[1]]))
            elif step > 0:
                r = rng.choice(PERTINENT[mode]) if PERTINENT[mode] else None
                if r is not None:
                    choices = [None] + list(range(enum_len[r]))
                    if r == "ck":
                        choices = [None] + offered["ck"][:] + [rng.randrange(enum_len[r])]
                    cur[r] = rng.choice([c for c in choices if c != cur[r]])
            q = {"prefs": list(prefs), "name": None, "mode": mode, "kind": kind, "history": hno, "step": step}
            q.update(cur)
            if rng.random() < 0.08:
                q["name"] = rng.choice(allnames)
            use_api = rng.random() < 0.7
            q["obs"], was_api = ask(factory, q, use_api)
            q["fresh"], _ = ask(fresh_factory(prefs), q, use_api)
            q["via"] = "history-api" if was_api else "history-_get_engine_class"
            if was_api:
                stats["through_public_api"] += 1
            sel.append(q)
        # a short history of pipeline requests on the same factory
        comp = [n for n in allnames if classes[n].is_compiler()]
        ptarget = rng.choice(comp)
        pkind = rand_kind(ptarget)
        if pkind[1] is not None and pkind[1] > I.latest:
            pkind = (pkind[0], I.latest)
        for step in range(3):
            cks = [rng.choice(offered["ck"]) for _ in range(rng.randint(1, 2))]
            if step == 0:
                cks[0] = rng.choice([i for i in range(len(I.CK)) if classes[ptarget].supports_compilation(I.CK[i])])
            q = {"prefs": list(prefs), "names": None, "cks": cks, "kind": pkind, "history": hno, "step": step}
            if step == 2 and rng.random() < 0.5:
                q["names"] = [rng.choice([None] + comp) for _ in cks]
            q["obs"] = ask_pipe(factory, q)
            q["fresh"] = ask_pipe(fresh_factory(prefs), q)
            pipe.append(q)
    return {"registered": registered, "dummies": dummies, "sel": sel, "pipe": pipe, "classes": classes}


def run(ctx):
    tr1 = run_translator(ctx, "gen_kind.py")
    tr2 = run_translator(ctx, "gen_engines.py")
    ok_proofs = ctx.check_props(extra=["theories/Corr/Corr_C32.v"])
    I = Impl()
    rng = ctx.rng

    # ---- second reading of the registry
    env0 = I.up.environment.Environment()
    ecases, eraw = second_reading(I, ctx, env0.factory, rng)
    nbad = ctx.coq_failing([names_case(I)], "names_agree", imports=IMPORTS, shard=1)
    if nbad:
        ctx.fail("translator", "enum / default tables read by import differ from the ast translation (Gen_Engines.v)",
                 ["translator", "names_agree"], {"theorem_or_corr": "corr:C32:names_agree"}, False)
    ebad = ctx.coq_failing(ecases, "engine_agree", imports=IMPORTS, shard=max(1, (len(ecases) + 1) // 2))
    for i in ebad:
        parts = ctx.coq_show("engine_parts c", imports=IMPORTS, preamble="Definition c := %s.\n" % ecases[i])
        ctx.fail("translator", "built-in engine %s: executed class methods differ from the ast translation (parts: modes, supported kind, "
                 "compilations, plans, optimality, anytime, resulting_problem_kind) %s" % (eraw[i]["name"], parts[:200]),
                 ["translator", "engine_agree", eraw[i]["name"]],
                 {"engine": eraw[i], "model_parts": parts, "names": I.names, "theorem_or_corr": "corr:C32:engine_agree"}, False)

    # ---- worlds
    n_worlds = 10 if ctx.quick else 120
    n_sel, n_pipe = (45, 18) if ctx.quick else (60, 25)
    stats = {"worlds": n_worlds, "history_requests": 0, "selection_requests": 0, "pipeline_requests": 0, "through_public_api": 0, "by_mode": {}, "outcomes": {},
             "pipeline_outcomes": {}, "pipeline_lengths": {}, "with_requirement": 0, "by_name": 0, "kind_versions": {},
             "dummy_engines": 0, "builtin_registered": 0}
    worlds = []
    for _ in range(n_worlds):
        worlds.append(build_world(I, ctx, rng, n_sel, n_pipe, stats, n_hist=3 if ctx.quick else 5))
    gcases = [g_world(I, w) for w in worlds]
    bad = ctx.coq_failing(gcases, "ok", imports=IMPORTS, shard=max(1, (len(gcases) + 1) // 2))

    distinct = set()
    for w in worlds:
        stats["dummy_engines"] += len(w["dummies"])
        stats["builtin_registered"] = len(w["registered"])
        for q in w["sel"]:
            stats["selection_requests"] += 1
            stats["history_requests"] += "history" in q
            stats["by_mode"][q["mode"]] = stats["by_mode"].get(q["mode"], 0) + 1
            o = "found" if isinstance(q["obs"], tuple) else q["obs"]
            stats["outcomes"][o] = stats["outcomes"].get(o, 0) + 1
            stats["with_requirement"] += any(q[r] is not None for r in ("og", "ck", "pk", "ag"))
            stats["by_name"] += q["name"] is not None
            stats["kind_versions"][str(q["kind"][1])] = stats["kind_versions"].get(str(q["kind"][1]), 0) + 1
            if q["kind"][0] and len(q["prefs"]) > 1:
                distinct.add(("s", tuple(q["prefs"]), q["mode"], tuple(q["kind"][0]), q["kind"][1], q["og"], q["ck"], q["pk"], q["ag"], q["name"]))
        for q in w["pipe"]:
            stats["pipeline_requests"] += 1
            o = "found" if q["obs"][0] == "found" else q["obs"][1]
            stats["pipeline_outcomes"][o] = stats["pipeline_outcomes"].get(o, 0) + 1
            stats["pipeline_lengths"][len(q["cks"])] = stats["pipeline_lengths"].get(len(q["cks"]), 0) + 1
            if len(q["prefs"]) > 1:
                distinct.add(("p", tuple(q["prefs"]), tuple(q["cks"]), tuple(q["kind"][0]), q["kind"][1], repr(q["names"])))

    # ---- the oracle looks at every answer of the real Factory
    def fix_obs(q):
        o = q["obs"]
        return ("found", o[1]) if isinstance(o, tuple) else o

    n_or = 0
    for wi, w in enumerate(worlds):
        for q in w["sel"] + w["pipe"]:
            if "fresh" in q and q["fresh"] != q["obs"]:
                n_or += 1
                stats["history_dependent_answers"] = stats.get("history_dependent_answers", 0) + 1
                if n_or <= 6:
                    ctx.fail("oracle", "history on one Factory (request %d of history %d, %s): the factory answered %s, a fresh Factory with the same engines "
                             "answers %s" % (q["step"], q["history"], q.get("mode", "pipeline"), q["obs"], q["fresh"]),
                             ["c32", "history", q.get("mode", "pipeline")] + [r for r in ("og", "ck", "pk", "ag") if q.get(r) is not None],
                             {"request": q, "earlier_requests_of_the_history": [x for x in (w["sel"] if "mode" in q else w["pipe"])
                                                                                if x.get("history") == q["history"] and x["step"] < q["step"]],
                              "dummies": w["dummies"], "names": I.names, "theorem_or_corr": "oracle:C32:history-independence"}, True)
        for qi, q in enumerate(w["sel"]):
            why = oracle_sel(I, q, w["classes"])
            if why:
                n_or += 1
                if n_or <= 6:
                    ctx.fail("oracle", "Factory selection (%s, %s): %s" % (q["mode"], q["via"], why),
                             ["c32", "select", q["mode"], fix_obs(q) if isinstance(fix_obs(q), str) else "found"] + [r for r in ("og", "ck", "pk", "ag") if q[r] is not None],
                             {"request": {k: v for k, v in q.items()}, "dummies": w["dummies"], "why": why, "names": I.names,
                              "theorem_or_corr": "oracle:C32:select"}, True)
        for qi, q in enumerate(w["pipe"]):
            why = oracle_pipe(I, q, w["classes"])
            if q["obs"][0] == "found" and not q.get("defaults_ok", True):
                why = why or "a compiler of the pipeline does not have its compilation kind as default"
            if why:
                n_or += 1
                if n_or <= 6:
                    ctx.fail("oracle", "Factory pipeline: %s" % why, ["c32", "pipeline", q["obs"][0] if q["obs"][0] == "found" else q["obs"][1]],
                             {"request": q, "dummies": w["dummies"], "why": why, "names": I.names, "theorem_or_corr": "oracle:C32:pipeline"}, True)

    for wi in bad:
        w = worlds[wi]
        diag = ctx.coq_show("diagnose c", imports=IMPORTS, preamble="Definition c := %s.\n" % gcases[wi])
        m = re.search(r"\(\[(.*?)\],\s*\[(.*?)\]\)", diag)
        sidx = [int(x) for x in re.findall(r"\d+", m.group(1))] if m else []
        pidx = [int(x) for x in re.findall(r"\d+", m.group(2))] if m else []
        for qi in sidx[:3]:
            q = w["sel"][qi]
            model = ctx.coq_show("show_sel (model_sel c q)", imports=IMPORTS,
                                 preamble="Definition c := %s.\nDefinition q := %s.\n" % (gcases[wi], g_sreq(q)))
            why = oracle_sel(I, q, w["classes"])
            ctx.fail("corr", "Factory._get_engine_class (%s via %s): implementation answered %s, model %s" % (q["mode"], q["via"], q["obs"], model[:120]),
                     ["c32", "select", q["mode"]], {"request": q, "dummies": w["dummies"], "model": model, "oracle": why, "names": I.names,
                                                    "theorem_or_corr": "corr:C32:get_engine_class"}, bool(why))
        for qi in pidx[:3]:
            q = w["pipe"][qi]
            model = ctx.coq_show("show_pipe (model_pipe c q)", imports=IMPORTS,
                                 preamble="Definition c := %s.\nDefinition q := %s.\n" % (gcases[wi], g_preq(q)))
            why = oracle_pipe(I, q, w["classes"])
            ctx.fail("corr", "Factory.Compiler(compilation_kinds=...): implementation answered %s, model %s" % (q["obs"], model[:160]),
                     ["c32", "pipeline"], {"request": q, "dummies": w["dummies"], "model": model, "oracle": why, "names": I.names,
                                           "theorem_or_corr": "corr:C32:pipeline"}, bool(why))
        if not sidx and not pidx:
            ctx.fail("corr", "world %d disagrees but could not be diagnosed: %s" % (wi, diag[:300]), ["c32", "world"], {"diag": diag}, False)
    if not ok_proofs:
        ctx.proof_broken()

    w0 = worlds[0]
    ctx.finish({
        "evaluations": stats["selection_requests"] + stats["pipeline_requests"] + len(ecases) + 1,
        "distinct_nontrivial": len(distinct),
        "rule": "distinct = distinct selection requests (preference list of >= 2 engines, mode, non-empty kind, requirements) and distinct "
                "pipeline requests (preference list of >= 2 engines, compilation kinds, kind, names); every request is answered by a fresh "
                "Factory holding the importable built-in engines plus 2-5 random dummy engines",
        "samples": [{k: v for k, v in w0["sel"][0].items()}, {k: v for k, v in w0["pipe"][0].items()}],
        "distribution": stats,
        "engines_second_reading": [e["name"] for e in eraw],
        "engines_translated_not_importable": [n for n in I.builtin if n not in [e["name"] for e in eraw]],
        "resulting_problem_kind_samples": sum(len(e["res"]) for e in eraw),
        "translators_ok": [tr1, tr2],
        "trusted_extra": ["tools/gen_engines.py, tools/gen_kind.py (ast translators; cross-checked by executing the imported classes, inside Coq)"],
    }, "proof", assumptions=["external planners are not installed: built-in registry = engines importable offline; meta engines not translated",
                             "every built-in engine's supports() is `problem_kind <= supported_kind()` (checked by the translator)"])
