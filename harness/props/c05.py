"""C05 — Time-triggered validation matches the reference temporal semantics.

Theorems: coq/theories/Props/C05.v.  Tie: correspondence + direct oracle — small temporal problems are built through
the real API (harness/gen/temporal.py), time-triggered plans are built by simulating forward with the real validator
on the goal-free problem, every plan is validated by the real TimeTriggeredPlanValidator; Coq recomputes the verdict
with the reference temporal semantics `tt_valid_b false` (property oracle, dense time through sample instants) and with
the model of the code `tt_validate true` on the serialised problem + plan.
"""
import json
from fractions import Fraction as F

from harness.gen.temporal import GenTemporal, SerTemporal, nontrivial, happenings, GRID

META = {
    "level": "proof",
    "technique": "Coq proof (model of TimeTriggeredPlanValidator._validate = reference dense-time semantics: interval sampling exact, joint effect application via the sequential loop theorem, duration check, conditions-before-effects, heap/start-list loop = happenings in increasing time) + correspondence of whole-plan validation on generated temporal problems by vm_compute",
    "text": "The Gallina model of _validate/_apply_effects/_states_in_interval is proved to return VALID exactly for plans valid under the reference temporal semantics (durations in possibly open intervals evaluated before the start, conditions in every state in force at an instant of their possibly open interval, joint conflict-free application of all effects of an instant, timed effects/goals, invariants and bounded types in every state, final goals), for all problems and plans satisfying a Boolean side condition (no effect scheduled before its action starts, no empty condition interval); verdicts of the real validator are compared with both on generated plans.",
    "note": "Trusted: Coq kernel/vm_compute, harness serialiser. Reading fixed in notes/C05.md: two different plan steps (or a step and the problem's timed effects) assigning one ground fluent at one instant conflict, whatever the values (the code's `assigned[f] == ai`); one step's assignments combine as in C01. Not modelled: simulated effects, quality metrics, the order target-arguments/condition inside one effect (unobservable: Effect rejects fluents in target arguments). Repaired in /repo: 5249d13 011fe6a bec5108 74b68a3 e93aea2.",
}

IMPORTS = ["UPV.Core.Expr", "UPV.Core.Eval", "UPV.Core.Interp", "UPV.Planning.Problem", "UPV.Planning.Sem",
           "UPV.Planning.Temporal", "UPV.Planning.TTValidate", "UPV.Corr.Corr_C01", "UPV.Corr.Corr_C05"]


def codes_by_problem(ctx, cases, case_problem, pre, fn, imports, chunk=12, shard=100, label="codes"):
    """ctx.coq_codes over consecutive chunks of problems: each generated .v file defines only the problems of its chunk.
    pre: [(problem index, definitions)] in generation order; case_problem[i] = problem index of cases[i] (non-decreasing)."""
    out = []
    for k in range(0, len(pre), chunk):
        part = pre[k:k + chunk]
        idx = set(pi for pi, _ in part)
        sel = [i for i, pi in enumerate(case_problem) if pi in idx]
        if not sel:
            continue
        assert sel == list(range(sel[0], sel[-1] + 1))
        out += ctx.coq_codes([cases[i] for i in sel], fn, imports=imports, preamble="\n".join(t for _, t in part) + "\n",
                             shard=shard, label="%s%d" % (label, k))
    assert len(out) == len(cases)
    return out


def tt_validate(problem, steps):
    """(valid?, raised, result) through the public API of the real validator"""
    from unified_planning.engines.plan_validator import TimeTriggeredPlanValidator
    from unified_planning.plans import TimeTriggeredPlan
    from unified_planning.engines.results import ValidationResultStatus
    try:
        v = TimeTriggeredPlanValidator(environment=problem.environment)
        res = v.validate(problem, TimeTriggeredPlan(list(steps), problem.environment))
        return res.status == ValidationResultStatus.VALID, None, res
    except Exception as e:  # noqa
        return None, type(e).__name__ + ":" + str(e)[:120], None


def fresh(steps):
    """new ActionInstance objects for every step (the validator compares instances by identity)"""
    from unified_planning.plans import ActionInstance
    return [(t, ActionInstance(ai.action, ai.actual_parameters), d) for t, ai, d in steps]


def build_plans(gen, rng, nplans):
    """plans built by simulating forward on the goal-free problem: a step is kept when the plan so far is still
    executable for the real validator (4 tries), otherwise the plan continues as an invalid one.
    Returns (plans, [(executable plan, its final state)])."""
    p0 = gen.problem
    init = gen.initial_valuation()
    plans, execs = [], []
    for _ in range(nplans + nplans // 2):
        n = rng.choice([1, 2, 2, 3, 3, 4])
        steps, ok, res_ok = [], True, None
        for _k in range(n):
            chosen = None
            for _try in range(4 if ok else 1):
                c = gen.random_step(init)
                if steps and rng.random() < 0.25:                       # force coinciding happenings
                    t0, _a0, d0 = rng.choice(steps)
                    c = (rng.choice([t0, t0 + (d0 or 0)]), c[1], c[2])
                chosen = c
                if ok:
                    valid, _raised, res = tt_validate(p0, fresh(steps + [c]))
                    if valid:
                        res_ok = res
                        break
            else:
                ok = False
            steps.append(chosen)
        plans.append(steps)
        if ok and res_ok is not None:
            execs.append((steps, res_ok.trace[max(res_ok.trace.keys())]))
    return plans, execs


def choose_goals(gen, rng, execs):
    """goals true in the final state of one executable plan (so that a good share of plans is VALID)"""
    em = gen.em
    p = gen.problem
    if not execs:
        p.add_goal(gen.gen_cond([], weak=True))
        return
    long = [e for e in execs if len(e[0]) >= 2] or execs
    steps, final = rng.choice(long)
    lits = []
    for f in gen.fluents:
        for o in (gen.objs if f.arity else [None]):
            fe = f(o) if o is not None else f()
            try:
                v = final.get_value(fe)
            except Exception:  # noqa
                continue
            if v.is_bool_constant():
                lits.append(fe if v.bool_constant_value() else em.Not(fe))
            else:
                c = v.constant_value()
                lits.append(rng.choice([em.Equals(fe, v), em.GE(fe, v), em.LE(fe, v)]))
    rng.shuffle(lits)
    for g in lits[:rng.randint(1, 2)]:
        p.add_goal(g)


def mutate(gen, rng, steps):
    """a near variant of a plan: shift a start, move a duration to an edge, drop or duplicate a step"""
    steps = list(steps)
    if not steps:
        return steps
    i = rng.randrange(len(steps))
    t, ai, d = steps[i]
    r = rng.random()
    if r < 0.35:
        steps[i] = (max(F(0), t + rng.choice([F(1, 2), F(-1, 2), F(1), F(1, 3)])), ai, d)
    elif r < 0.6 and d is not None:
        steps[i] = (t, ai, max(F(0), d + rng.choice([F(1, 2), F(-1, 2), F(1)])))
    elif r < 0.75 and len(steps) > 1:
        del steps[i]
    elif r < 0.9:
        j = rng.randrange(len(steps))
        steps.append((steps[j][0], ai, d))          # same action again, coinciding with another step
    else:
        steps[i] = gen.random_step(gen.initial_valuation(), bad=0.5)
    return steps


def edge_variants(gen, rng, steps):
    """variants of a plan in which one durative step gets a duration exactly on a bound of its duration interval (the
    bounds are estimated in the initial valuation): VALID or not depending only on the openness of that bound"""
    out = []
    init = gen.initial_valuation()
    for i, (t, ai, d) in enumerate(steps):
        if d is None:
            continue
        a = ai.action
        subs = dict(zip(a.parameters, ai.actual_parameters))
        for bound in (a.duration.lower, a.duration.upper):
            try:
                y = bound.substitute(subs).substitute(init).simplify()
            except Exception:  # noqa
                continue
            if not y.is_constant():
                continue
            b = F(y.constant_value())
            if b >= 0 and b != d:
                v = list(steps)
                v[i] = (t, ai, b)
                out.append(v)
    rng.shuffle(out)
    return out


def classify(rec, code):
    tags = ["c05", "impl-valid" if rec["valid"] else "impl-invalid"]
    if code & 4:
        tags.append("outside-supported-plans")
    if code & 1 and not code & 2:
        tags.append("impl-equals-model")
    if code & 1 and code & 2:
        tags.append("impl-differs-from-model-and-spec")
    return tags


class HandTemporal:
    """a hand-written temporal problem with its own plans (same attributes as GenTemporal where run() reads them)"""

    def __init__(self, problem, plans, label):
        self.problem = problem
        self.plans = plans
        self.label = label
        self.fluents = list(problem.fluents)
        self.actions = list(problem.actions)
        self.objs = list(problem.all_objects)
        self.em = problem.environment.expression_manager


def shared_bounds_corpus():
    """Conditions that share the same ABSOLUTE interval bounds with different open/closed ends: all pairs of the four
    openness combinations, both declaration orders, as two conditions of one action and as conditions of two actions
    running concurrently, with zero delays ([start,end]) and intermediate bounds ([start+1,end-1]).  Plans let an
    instantaneous action establish / falsify the condition exactly at the shared lower bound, at the upper bound,
    strictly before and strictly inside."""
    from unified_planning.environment import Environment
    from unified_planning.model import Fluent, Problem, InstantaneousAction, DurativeAction
    from unified_planning.model.timing import StartTiming, EndTiming, TimeInterval
    from unified_planning.plans import ActionInstance
    out = []
    flags = [(False, False), (True, False), (False, True), (True, True)]
    pairs = [(a, b) for a in flags for b in flags if a != b]          # ordered pairs = both declaration orders
    for k, (fa, fb) in enumerate(pairs):
        for two_actions in (False, True):
            for inner in (False, True):
                if (k + two_actions + inner) % 2 and k >= 4:
                    continue                                            # half of the combinations for the later pairs
                env = Environment()
                tm, em = env.type_manager, env.expression_manager
                p = Problem("shared-bounds", env)
                f = Fluent("f", tm.BoolType(), environment=env)      # the condition that changes at the bounds
                t = Fluent("t", tm.BoolType(), environment=env)      # always true
                g = Fluent("g", tm.BoolType(), environment=env)
                g2 = Fluent("g2", tm.BoolType(), environment=env)
                p.add_fluent(f, default_initial_value=False); p.add_fluent(t, default_initial_value=True)
                p.add_fluent(g, default_initial_value=False); p.add_fluent(g2, default_initial_value=not two_actions)

                def iv(fl):
                    lo = StartTiming(1) if inner else StartTiming()
                    hi = (EndTiming() - 1) if inner else EndTiming()
                    return TimeInterval(lo, hi, fl[0], fl[1])
                d1 = DurativeAction("d1", _env=env)
                d1.set_fixed_duration(4)
                d1.add_effect(EndTiming(), g, True)
                d2 = DurativeAction("d2", _env=env)
                d2.set_fixed_duration(4)
                d2.add_effect(EndTiming(), g2, True)
                # the first declared condition reads t, the second f, and a twin problem swaps them (k runs over both orders)
                first, second = (t, f) if k % 2 == 0 else (f, t)
                d1.add_condition(iv(fa), first)
                (d2 if two_actions else d1).add_condition(iv(fb), second)
                on = InstantaneousAction("on", _env=env)
                on.add_effect(f, True)
                off = InstantaneousAction("off", _env=env)
                off.add_effect(f, False)
                p.add_action(d1)
                if two_actions:
                    p.add_action(d2)
                p.add_action(on); p.add_action(off)
                p.add_goal(g); p.add_goal(g2)
                lo = F(2) if inner else F(1)
                hi = F(4) if inner else F(5)
                base = [(F(1), ActionInstance(d1), F(4))] + ([(F(1), ActionInstance(d2), F(4))] if two_actions else [])
                plans = [
                    base + [(lo, ActionInstance(on), None)],                                           # established exactly at the lower bound
                    base + [(F(1, 2), ActionInstance(on), None)],                                      # established before
                    base + [(F(1, 2), ActionInstance(on), None), (lo, ActionInstance(off), None)],     # falsified exactly at the lower bound
                    base + [(F(1, 2), ActionInstance(on), None), (hi, ActionInstance(off), None)],     # falsified exactly at the upper bound
                    base + [(F(1, 2), ActionInstance(on), None), (F(3), ActionInstance(off), None)],   # falsified strictly inside
                    base + [(lo, ActionInstance(on), None), (hi, ActionInstance(off), None)],          # both bounds
                    base + [(hi, ActionInstance(on), None)],                                           # established only at the upper bound
                ]
                out.append(HandTemporal(p, plans, "shared-bounds-%d-%s-%s" % (k, "two" if two_actions else "one", "inner" if inner else "outer")))
    return out


def same_instant_corpus():
    """Two numeric effects on ONE ground fluent meeting at ONE instant: every ordered pair of effect kinds out of
    assign / increase / decrease (the validator's loop is order dependent, the reference is not), arranged in every way
    two effects can come to be processed together and in both processing orders:
      * two plan steps: end of an older durative action meets the start of a newer one, two actions starting together,
        an instantaneous action on the end / start of a durative one, two instantaneous actions, the same action twice
        (each in both plan orders: equal start times are popped in reverse plan order);
      * a timed effect of the problem (always processed first) meets a step's effect;
      * one step, two heap entries: effects at `start+1` and `end-1` coincide when the duration is 2 (not when it is 3);
      * one step, one entry: two conditional effects declared in that order, their conditions switched on/off by the
        plan (an unconditional pair is rejected when the action is built).
    Plans with the two effects at different instants are the controls.  One problem per ordered pair, int and real
    fluent alternating; judged like every other case (reference semantics + model)."""
    from unified_planning.environment import Environment
    from unified_planning.model import Fluent, Problem, InstantaneousAction, DurativeAction
    from unified_planning.model.timing import StartTiming, EndTiming, GlobalStartTiming
    from unified_planning.plans import ActionInstance
    A5, A6, INC, DEC = ("assign", 5), ("assign", 6), ("increase", 1), ("decrease", 1)
    pairs = [(INC, A5), (A5, INC), (DEC, A5), (A5, DEC), (INC, DEC), (INC, INC), (A5, A6), (A5, A5)]
    out = []
    for k, (k1, k2) in enumerate(pairs):
        env = Environment()
        tm, em = env.type_manager, env.expression_manager
        real = k % 2 == 1
        p = Problem("same-instant", env)
        x = Fluent("x", tm.RealType() if real else tm.IntType(), environment=env)
        done = Fluent("done", tm.BoolType(), environment=env)
        c1 = Fluent("c1", tm.BoolType(), environment=env)
        c2 = Fluent("c2", tm.BoolType(), environment=env)
        p.add_fluent(x, default_initial_value=F(1, 2) if real else 0)
        for b in (done, c1, c2):
            p.add_fluent(b, default_initial_value=False)

        def val(kind):
            n = kind[1]
            return em.Real(F(n) / 2) if real and kind[0] != "assign" else em.Int(n)

        def put(kind, assign, inc, dec, cond=True):
            {"assign": assign, "increase": inc, "decrease": dec}[kind[0]](x(), val(kind), cond)

        def dur(name, lo, hi=None):
            a = DurativeAction(name, _env=env)
            if hi is None:
                a.set_fixed_duration(lo)
            else:
                a.set_closed_duration_interval(lo, hi)
            return a

        def on_dur(a, t, kind, cond=True):
            put(kind, lambda fl, v, c: a.add_effect(t, fl, v, c), lambda fl, v, c: a.add_increase_effect(t, fl, v, c),
                lambda fl, v, c: a.add_decrease_effect(t, fl, v, c), cond)

        def inst(name, kind):
            a = InstantaneousAction(name, _env=env)
            put(kind, a.add_effect, a.add_increase_effect, a.add_decrease_effect)
            return a
        a_end = dur("a_end", 1, 2); on_dur(a_end, EndTiming(), k1)
        a_start = dur("a_start", 2); on_dur(a_start, StartTiming(), k1)
        b_start = dur("b_start", 1); on_dur(b_start, StartTiming(), k2); b_start.add_effect(EndTiming(), done, True)
        i1, i2 = inst("i1", k1), inst("i2", k2)
        mid = dur("mid", 2, 3); on_dur(mid, StartTiming(1), k1); on_dur(mid, EndTiming() - 1, k2)
        both = dur("both", 1); on_dur(both, StartTiming(), k1, c1()); on_dur(both, StartTiming(), k2, c2())
        on1 = InstantaneousAction("on1", _env=env); on1.add_effect(c1, True)
        on2 = InstantaneousAction("on2", _env=env); on2.add_effect(c2, True)
        fin = InstantaneousAction("fin", _env=env); fin.add_effect(done, True)
        for a in (a_end, a_start, b_start, i1, i2, mid, both, on1, on2, fin):
            p.add_action(a)
        put(k1, lambda fl, v, c: p.add_timed_effect(GlobalStartTiming(7), fl, v, c),
            lambda fl, v, c: p.add_increase_effect(GlobalStartTiming(7), fl, v, c),
            lambda fl, v, c: p.add_decrease_effect(GlobalStartTiming(7), fl, v, c))
        p.add_goal(done)

        def st(t, a, d=None):
            return (F(t), ActionInstance(a), None if d is None else F(d))
        end = st(F(9, 2), fin)
        two = [  # (first scheduled, second scheduled); each also in the opposite plan order
            [st(0, a_end, 2), st(2, b_start, 1)],           # end of the older action meets the start of the newer one
            [st(0, a_start, 2), st(0, b_start, 1)],         # two actions starting together
            [st(0, a_end, 2), st(2, i2)],                   # instantaneous action on the end of a durative one
            [st(1, i1), st(1, b_start, 1)],                 # ... on its start
            [st(1, i1), st(1, i2)],                         # two instantaneous actions
        ]
        plans = []
        for pl in two:
            plans += [pl + [end], pl[::-1] + [end]]
        plans += [
            [st(0, a_end, 2), st(1, b_start, 1), end],      # controls: the same effects at different instants
            [st(0, a_end, 2), st(F(5, 2), i2), end],
            [st(1, i1), st(F(3, 2), i2), end],
            [st(0, a_end, 2), st(0, a_end, 2), end],        # the same action twice: first kind against itself
            [st(1, i2), st(1, i2), end],
            [st(7, b_start, 1)],                            # the problem's timed effect (first kind) meets a step's effect
            [st(7, i2), end],
            [st(6, a_end, 1), st(6, b_start, 1)],           # timed effect and the end of a_end at 7 (b_start earlier)
            [st(6, a_end, 1), st(7, b_start, 1)],           # three sources at 7
            [st(0, mid, 2), end],                           # one step, two entries coinciding at 1
            [st(0, mid, 3), end],                           # ... and not coinciding
            [st(0, mid, F(5, 2)), end],
            [st(1, both, 1), end],                          # one step, conditional effects: none, first, second, both fire
            [st(0, on1), st(1, both, 1), end],
            [st(0, on2), st(1, both, 1), end],
            [st(0, on1), st(0, on2), st(1, both, 1), end],
            [st(0, on2), st(0, on1), st(1, both, 1), end],
            [st(0, on1), st(1, on2), st(1, both, 1), end],  # c2 switched on at the instant of the effects: read before
        ]
        out.append(HandTemporal(p, plans, "same-instant-%s-%s-%s" % (k1[0], k2[0], "real" if real else "int")))
    return out


def run(ctx):
    import unified_planning as up
    ok_proofs = ctx.check_props(extra=["theories/Corr/Corr_C05.v"])
    rng = ctx.rng
    nprob = 30 if ctx.quick else 300
    nplans = 20 if ctx.quick else 60
    pre, cases, owners = [], [], []
    stats = {"problems": 0, "skipped": {}, "plans": 0, "valid": 0, "invalid": 0, "raised": 0, "outside_supported": 0,
             "steps": {}, "durative_steps": 0, "instantaneous_steps": 0, "coinciding_happenings": 0,
             "timed_effects": 0, "timed_goals": 0, "invariants": 0, "bounded_fluents": 0, "half_bounded_fluents": 0, "undefined_fluents": 0,
             "duration_kinds": {}, "left_open_conditions": 0, "intermediate_conditions": 0, "forall_effects": 0,
             "conditional_effects": 0, "incdec_effects": 0}
    nontriv = set()
    hand = shared_bounds_corpus() + same_instant_corpus()
    stats["hand_problems"] = len(hand)
    for pi in range(len(hand) + nprob):
        gen = hand[pi] if pi < len(hand) else GenTemporal(rng)
        p = gen.problem
        valid0, raised0, _ = tt_validate(p, [])
        if raised0 is not None and "cannot establish" in raised0:
            stats["skipped"]["unsupported-kind"] = stats["skipped"].get("unsupported-kind", 0) + 1
            continue
        if pi < len(hand):
            plans, execs, pool = [], [], []
        else:
            plans, execs = build_plans(gen, rng, nplans)
            choose_goals(gen, rng, execs)
            pool = [s for s, _ in execs]
        # final plan set: executable ones, their variants, the rest
        final = []
        for s in pool[:nplans // 2]:
            final.append(s)
        for s in pool[:nplans // 4]:
            final.append(mutate(gen, rng, s))
        edges = []
        for s in pool[:6]:
            edges += edge_variants(gen, rng, s)[:2]
        final += edges[:4]
        rest = [s for s in plans if s not in final]
        rng.shuffle(rest)
        final += rest[:max(0, nplans - len(final) - 1)]
        final.append([])
        final = final[:nplans]
        if pi < len(hand):
            final = list(gen.plans)
        ser = SerTemporal(p)
        try:
            text = ser.render()
        except (ValueError, AssertionError) as e:
            stats["skipped"]["unserialisable"] = stats["skipped"].get("unserialisable", 0) + 1
            continue
        stats["problems"] += 1
        stats["timed_effects"] += len(p.timed_effects)
        stats["timed_goals"] += len(p.timed_goals)
        stats["invariants"] += len(p.state_invariants)
        for f in gen.fluents:
            t = f.type
            if (t.is_int_type() or t.is_real_type()) and (t.lower_bound is not None or t.upper_bound is not None):
                stats["bounded_fluents"] += 1
                stats["half_bounded_fluents"] += (t.lower_bound is None) != (t.upper_bound is None)
            if f not in p.fluents_defaults:
                stats["undefined_fluents"] += 1
        for a in gen.actions:
            effs = []
            if hasattr(a, "duration"):
                d = a.duration
                kind = ("fixed" if d.lower == d.upper else ("(" if d.is_left_open() else "[") + (")" if d.is_right_open() else "]"))
                kind += "" if d.lower.is_constant() else "-dep"
                stats["duration_kinds"][kind] = stats["duration_kinds"].get(kind, 0) + 1
                for iv in a.conditions:
                    stats["left_open_conditions"] += iv.is_left_open()
                    stats["intermediate_conditions"] += iv.lower.delay != 0 or iv.upper.delay != 0
                for es in a.effects.values():
                    effs += es
            else:
                effs = list(a.effects)
            for e in effs:
                stats["forall_effects"] += e.is_forall()
                stats["conditional_effects"] += e.is_conditional()
                stats["incdec_effects"] += not e.is_assignment()
        pre.append((pi, "Definition TP%d : tproblem := %s." % (pi, text)))
        s0 = ser.read_state(up.model.UPState(p.explicit_initial_values, p))
        for steps in final:
            steps = fresh(steps)
            valid, raised, _ = tt_validate(p, steps)
            rec = {"problem": pi, "plan": ser.plan_json(steps), "valid": valid, "raised": raised}
            stats["plans"] += 1
            stats["valid"] += valid is True
            stats["invalid"] += valid is False
            stats["raised"] += raised is not None
            stats["steps"][len(steps)] = stats["steps"].get(len(steps), 0) + 1
            for t, ai, d in steps:
                stats["durative_steps" if d is not None else "instantaneous_steps"] += 1
            times, _ivs = happenings(steps, p)
            nev = sum(1 if d is None else len(ai.action.effects) for t, ai, d in steps) + len(p.timed_effects)
            stats["coinciding_happenings"] += nev > len(times)
            cases.append("(TP%d, {| c_init := %s; c_plan := %s; c_valid := %s |})" % (
                pi, ser.ser_state(s0), ser.plan(steps), "true" if valid else "false"))
            owners.append((gen, ser, rec, s0))
            if nontrivial(steps, p):
                nontriv.add(json.dumps(rec, sort_keys=True, default=str))
    codes = codes_by_problem(ctx, cases, [o[2]["problem"] for o in owners], pre, "fun pc => code (fst pc) (snd pc)",
                             IMPORTS, chunk=12, shard=100, label="ttplans")
    for (gen, ser, rec, s0), code in zip(owners, codes):
        payload = {"case": rec, "initial_state": ser.json_state(s0), "problem_text": str(gen.problem), "code_bits": code,
                   "names": ser.names.table()}
        if code & 4:
            stats["outside_supported"] += 1
        if rec["raised"]:
            ctx.fail("oracle", "TimeTriggeredPlanValidator.validate raised %s" % rec["raised"],
                     ["c05", "raises", rec["raised"].split(":")[0]], payload, True)
        elif code & 8:
            ctx.fail("corr", "the model ran out of fuel", ["c05", "model-fuel"], payload, False)
        elif code & 4:
            # outside the side condition of the theorem: only the model/implementation tie is checked
            if code & 2:
                ctx.fail("corr", "validator differs from the model on a plan outside the supported plans (corr:C05:tt_validate)",
                         ["c05", "model-drift", "outside-supported-plans"], payload, False)
        elif code & 1:
            ctx.fail("oracle", "validator verdict differs from the reference temporal semantics (code %d)" % code,
                     classify(rec, code), payload, True)
        elif code & 2:
            ctx.fail("corr", "validator differs from the model only (corr:C05:tt_validate)", ["c05", "model-drift"], payload, False)
        elif code & 16:
            ctx.fail("corr", "model and reference semantics disagree under the same evaluator on a supported plan (theorem instance fails?)",
                     ["c05", "model-vs-reference"], payload, False)
    if not ok_proofs:
        ctx.proof_broken()
    stats["valid_ratio"] = round(stats["valid"] / max(1, stats["plans"]), 3)
    ctx.finish({
        "evaluations": len(cases),
        "distinct_nontrivial": len(nontriv),
        "rule": "generated temporal problems x plans built forward with the real validator (executable plans, their near variants, random plans, the empty plan); non-trivial = >= 2 happenings and a durative condition whose interval contains a happening; distinct by (problem, plan)",
        "samples": [o[2] for o in owners[:3]],
        "distribution": stats,
        "traces_validated_against_impl": len(cases),
    }, "proof", assumptions=["plans outside supported_plan (an effect scheduled before its action's start, an empty condition interval) are compared with the model only and counted in distribution.outside_supported",
                             "every plan step is a distinct ActionInstance object", "no simulated effects, no quality metrics"])
