"""C14 — Shared environment walkers are history-independent, even after failures.

Theorems: coq/theories/Props/C14.v (about coq/theories/Model/Dag.v and Model/HashCons.v).
Tie: correspondence + direct oracle.  Random histories of 5-40 walker calls (construction/type inference, simplify,
substitute, free variables, fluent extraction, quantifier removal, state evaluation) on ONE Environment, 10-30 % of them
built to raise in the middle of a walk.  (a) Oracle written from the property text: every call is repeated on a FRESH
Environment and must give the same result / the same exception class.  (b) Model tie: every DagWalker.walk call of the
environment's long-lived walkers is logged (root, returned/raised, the node whose walk_* function raised,
len(memoization), len(stack) afterwards) and the model replays the log inside Coq.
"""
import json
from collections import OrderedDict
from fractions import Fraction

from harness.core import gn, gbool, glist, gopt, gpair

META = {
    "level": "proof",
    "technique": "Coq proof (DagWalker state machine vs. a reference evaluation of the DAG; invariant over arbitrary "
                 "histories of possibly-raising calls) + model/implementation correspondence by vm_compute + fresh-"
                 "environment oracle",
    "text": "walk_history_independent and companions about a Gallina model of DagWalker (kept and one-time "
            "memoization), StateEvaluator's assignment fields and ExpressionManager.create_node; tied to dag.py by "
            "replaying logged walk calls; the property itself is checked call by call against a fresh Environment.",
    "note": "Trusted: Coq kernel/vm_compute, harness serialiser and the instance-level logging wrappers around "
            "walk/_compute_node_result/_push_with_children_to_stack. No axioms. Hypothesis of the kept-memoization "
            "theorem: a child's node id is smaller than its parent's (hash-consing). Results are abstract in the model.",
}

N_OBJ = 3
BOOLS = ["b0", "b1", "b2"]


class World:
    """One Environment with the declared symbols, a Problem, three states and the long-lived walkers."""

    def __init__(self, instrument=None):
        import unified_planning as up
        from unified_planning.environment import Environment
        from unified_planning.model import Fluent, Object, Parameter, Variable, Problem, UPState, InterpretedFunction
        from unified_planning.model.walkers import ExpressionQuantifiersRemover
        from unified_planning.model.walkers.state_evaluator import StateEvaluator
        from unified_planning.model.walkers.quantifier_simplifier import QuantifierSimplifier
        self._Object = Object
        env = self.env = Environment()
        self.log = []
        self.dag = {}
        self.quant = set()
        if instrument:
            instrument(self, env.type_checker, 0, False, False)
        em = self.em = env.expression_manager
        tm = env.type_manager
        T = self.T = tm.UserType("T")
        self.T1 = tm.UserType("T1", T)           # subtype of T: its objects are quantified over by a T variable
        self.U = tm.UserType("U")                # unrelated type
        self.objs = [Object("o%d" % i, T, env) for i in range(N_OBJ)]
        self.bools = [Fluent(n, tm.BoolType(), environment=env) for n in BOOLS]
        self.x = Fluent("x", tm.IntType(), environment=env)
        self.y = Fluent("y", tm.IntType(), environment=env)
        self.xb = Fluent("xb", tm.IntType(0, 10), environment=env)
        self.r = Fluent("r", tm.RealType(), environment=env)
        self.p = Fluent("p", tm.BoolType(), [Parameter("a", T, env)], env)
        self.cnt = Fluent("cnt", tm.IntType(0, 5), [Parameter("a", T, env)], env)
        self.g = Fluent("g", tm.IntType(), [Parameter("a", tm.IntType(0, 5), env)], env)
        self.vars = [Variable("v%d" % i, T, env) for i in range(2)]

        def ifn_fun(a):
            if a == 7:
                raise ValueError("interpreted function refuses 7")
            return a - 3
        self.ifn = InterpretedFunction("ifn", tm.IntType(), OrderedDict([("a", tm.IntType())]), ifn_fun, env)
        pb = self.problem = Problem("c14", env)
        pb.add_objects(self.objs)
        for f in self.bools:
            pb.add_fluent(f, default_initial_value=False)
        pb.add_fluent(self.x, default_initial_value=1)
        pb.add_fluent(self.y)                                  # no default: may be missing in a state
        pb.add_fluent(self.xb, default_initial_value=2)
        pb.add_fluent(self.r)                                  # no default
        pb.add_fluent(self.p, default_initial_value=False)
        pb.add_fluent(self.cnt, default_initial_value=1)
        pb.add_fluent(self.g, default_initial_value=0)
        self.states = [
            UPState({self.y(): em.Int(4), self.r(): em.Real(Fraction(1, 2)), self.p(self.objs[0]): em.TRUE()}, pb),
            UPState({self.y(): em.Int(0), self.bools[0](): em.TRUE()}, pb),          # r missing
            UPState({self.r(): em.Real(Fraction(3, 1)), self.cnt(self.objs[1]): em.Int(3)}, pb),   # y missing
            # p holds for every initial object: an object added later (default False) changes Forall v. p(v)
            UPState(dict([(self.y(), em.Int(4)), (self.r(), em.Real(Fraction(1, 2)))]
                         + [(self.p(o), em.TRUE()) for o in self.objs]), pb),
        ]
        # a second objects_set for remove_quantifiers (two of the three objects)
        pb2 = self.problem2 = Problem("c14b", env)
        pb2.add_objects(self.objs[:2])
        self.problems = [pb, pb2]
        self.remover = ExpressionQuantifiersRemover(env)
        self.se = StateEvaluator(pb)
        self.qs = QuantifierSimplifier(env, pb)
        # arguments that live as long as the walkers and are MUTATED between calls (see apply)
        self.assign = {}                         # qsimplify's assignments: ground fluent -> constant
        for i, f in enumerate(self.bools):
            self.assign[f()] = em.Bool(i % 2 == 0)
        self.assign[self.x()] = em.Int(1)
        self.assign[self.y()] = em.Int(4)
        self.assign[self.xb()] = em.Int(2)
        self.assign[self.r()] = em.Real(Fraction(1, 2))
        for i, o in enumerate(self.objs):
            self.assign[self.p(o)] = em.TRUE()        # so that Forall v. p(v) reaches an object added later
            self.assign[self.cnt(o)] = em.Int(i)
        for k in range(6):
            self.assign[self.g(k)] = em.Int(k)
        self.subs = {}                           # a substitution map kept and edited between substitute calls
        if instrument:
            instrument(self, env.simplifier, 1, False, False)
            instrument(self, env.substituter, 2, True, True)
            instrument(self, env.free_vars_extractor, 3, False, False)
            instrument(self, env.free_vars_oracle, 4, False, False)
            instrument(self, self.remover, 5, True, False)
            instrument(self, self.se, 6, True, True, evaluator="evaluate")
            instrument(self, self.qs, 7, True, True, evaluator="qsimplify")

    def apply(self, m):
        """A mutation of an argument the long-lived walkers are called with (replayed on the fresh world too)."""
        k = m[0]
        if k == "add_object":                    # ("add_object", "T"|"T1"|"U", problem index)
            o = self._Object("n%d" % len(self.objs), getattr(self, m[1]), self.env)
            self.objs.append(o)
            self.problems[m[2]].add_object(o)
        elif k == "share_object":                # an existing object also becomes an object of the other problem
            o = self.objs[m[1]]
            if o not in self.problems[m[2]].all_objects:
                self.problems[m[2]].add_object(o)
        elif k == "assign":                      # ("assign", fluent tree, constant tree)
            self.assign[build(self, m[1])] = build(self, m[2])
        elif k == "assign_del":
            self.assign.pop(build(self, m[1]), None)
        elif k == "subs_set":
            self.subs[build(self, m[1])] = build(self, m[2])
        elif k == "subs_clear":
            self.subs.clear()
        else:
            raise ValueError(m)


def instrument(w, walker, idx, inval, qleaf, evaluator=False):
    """Instance-level logging wrappers; the walker's own code runs unchanged underneath."""
    # [inval] is the flag the walker is DESIGNED to have (the model uses it); the implementation's own flag is not read
    st = {"cur": None}
    orig_walk, orig_compute, orig_push = walker.walk, walker._compute_node_result, walker._push_with_children_to_stack

    def compute(expression, **kw):
        st["cur"] = expression
        return orig_compute(expression, **kw)

    def push(expression, **kw):
        st["cur"] = expression
        return orig_push(expression, **kw)

    def note(e):
        if e.node_id not in w.dag:
            w.dag[e.node_id] = [a.node_id for a in e.args]
            if e.is_exists() or e.is_forall():
                w.quant.add(e.node_id)
            for a in e.args:
                note(a)

    def entry(expression, ok, failing, asserted, ev):
        w.log.append({"walker": idx, "inval": inval, "qleaf": qleaf, "eval": ev, "root": expression.node_id,
                      "fail": failing, "assert": asserted, "ok": ok,
                      "memo": len(walker.memoization), "stack": len(walker.stack)})

    def walk(expression, **kw):
        note(expression)
        st["cur"] = None
        try:
            res = orig_walk(expression, **kw)
        except BaseException:
            if not evaluator:
                entry(expression, False, st["cur"].node_id if st["cur"] is not None else None, False, False)
            st["failed_at"] = st["cur"].node_id if st["cur"] is not None else None
            raise
        if not evaluator:
            entry(expression, True, None, False, False)
        return res

    # what the walker memoized before it was instrumented (TRUE and FALSE for the TypeChecker): synthetic log entries
    for j, k0 in enumerate(list(walker.memoization)):
        note(k0)
        w.log.append({"walker": idx, "inval": inval, "qleaf": qleaf, "eval": False, "root": k0.node_id, "fail": None,
                      "assert": False, "ok": True, "memo": j + 1, "stack": 0})
    walker.walk = walk
    walker._compute_node_result = compute
    walker._push_with_children_to_stack = push
    if evaluator:
        orig_eval = getattr(walker, evaluator)

        def evaluate(expression, *a, **kw):
            note(expression)
            busy = walker._variable_assignments is not None or walker._assignments is not None
            st["failed_at"] = None
            try:
                res = orig_eval(expression, *a, **kw)
            except BaseException as e:
                asserted = busy and isinstance(e, AssertionError)
                entry(expression, False, None if asserted else st["failed_at"], asserted, True)
                raise
            entry(expression, True, None, False, True)
            return res
        setattr(walker, evaluator, evaluate)


# ---------------------------------------------------------------------------------------------- expressions
def build(w, t):
    """tree description -> FNode in w's environment (construction may raise: that is part of the call)"""
    em = w.em
    k = t[0]
    if k == "T":
        return em.TRUE()
    if k == "F":
        return em.FALSE()
    if k == "b":
        return w.bools[t[1]]()
    if k == "p":
        return w.p(build(w, t[1]))
    if k == "cnt":
        return w.cnt(build(w, t[1]))
    if k == "g":
        return w.g(build(w, t[1]))
    if k == "obj":
        return em.ObjectExp(w.objs[t[1]])
    if k == "var":
        return em.VariableExp(w.vars[t[1]])
    if k == "int":
        return em.Int(t[1])
    if k == "frac":
        return em.Real(Fraction(t[1], t[2]))
    if k in ("x", "y", "xb", "r"):
        return getattr(w, k)()
    if k == "ifn":
        return em.InterpretedFunctionExp(w.ifn, [build(w, t[1])])
    if k in ("And", "Or", "Plus", "Times"):
        return getattr(em, k)([build(w, a) for a in t[1]])
    if k == "Not":
        return em.Not(build(w, t[1]))
    if k in ("Implies", "Iff", "Minus", "Div", "LE", "LT", "Equals"):
        return getattr(em, k)(build(w, t[1]), build(w, t[2]))
    if k in ("Exists", "Forall"):
        return getattr(em, k)(build(w, t[2]), w.vars[t[1]])
    raise ValueError(t)


def dump(e):
    """structural, environment-independent rendering of an FNode"""
    nt = e.node_type.name
    p = e._content.payload
    if nt in ("FLUENT_EXP", "OBJECT_EXP", "PARAM_EXP", "VARIABLE_EXP", "INTERPRETED_FUNCTION_EXP"):
        ps = p.name
    elif nt in ("EXISTS", "FORALL"):
        ps = ",".join(v.name for v in p)
    else:
        ps = str(p)
    return "%s[%s](%s)" % (nt, ps, " ".join(dump(a) for a in e.args))


def perform(w, call):
    """Run one call in world w; returns a JSON-able outcome."""
    kind = call[0]
    try:
        e = build(w, call[1])
        if kind == "build":
            res = dump(e) + " : " + str(e.type)
        elif kind == "type":
            res = str(e.type)
        elif kind == "simplify":
            res = dump(e.simplify())
        elif kind == "substitute":
            subs = {}
            for kt, vt in call[2]:
                subs[build(w, kt)] = build(w, vt)
            res = dump(e.substitute(subs))
        elif kind == "free_vars":
            res = sorted(v.name for v in w.env.free_vars_oracle.get_free_variables(e))
        elif kind == "fluents":
            res = sorted(dump(f) for f in w.env.free_vars_extractor.get(e))
        elif kind == "substitute_kept":          # the kept, edited map (same dict object every time)
            res = dump(e.substitute(w.subs))
        elif kind == "remove_quantifiers":
            res = dump(w.remover.remove_quantifiers(e, w.problems[call[2] if len(call) > 2 else 0]))
        elif kind == "qsimplify":
            res = dump(w.qs.qsimplify(e, w.assign, {}))
        elif kind == "evaluate":
            res = dump(w.se.evaluate(e, w.states[call[2]]))
        else:
            raise ValueError(kind)
        return ["ok", res]
    except Exception as ex:                                     # the class is the outcome
        return ["exc", type(ex).__name__]


# ---------------------------------------------------------------------------------------------- generator
class Gen:
    def __init__(self, rng):
        self.rng = rng
        self.pool = {"bool": [], "num": []}     # subtrees used earlier in this history (sharing => memo hits)
        self.bad_used = []
        self.obj_types = ["T"] * N_OBJ          # types of the objects that exist so far (grows with add_object)
        self.quant_used = []                    # quantified expressions already given to a walker with a problem

    def obj(self, bound):
        if bound and self.rng.random() < 0.7:
            return ("var", self.rng.choice(bound))
        ok = [i for i, t in enumerate(self.obj_types) if t != "U"]
        return ("obj", self.rng.choice(ok))

    def quantified(self):
        v = self.rng.randrange(2)
        body = self.boolean(2, [v])
        if self.rng.random() < 0.5:
            body = ("p", ("var", v)) if self.rng.random() < 0.5 else ("Or", [("p", ("var", v)), ("b", self.rng.randrange(3))])
        e = (self.rng.choice(["Exists", "Forall"]), v, body)
        return e if self.rng.random() < 0.6 else ("And", [e, self.boolean(1, [])])

    def mutation(self):
        """An edit of an argument that a long-lived walker is called with again afterwards."""
        rng = self.rng
        r = rng.random()
        if r < 0.5:
            t = rng.choice(["T", "T", "T1", "T1", "U"])
            self.obj_types.append(t)
            return ("add_object", t, rng.choice([0, 0, 1]))
        if r < 0.6:
            return ("share_object", rng.randrange(len(self.obj_types)), 1)
        if r < 0.8:
            s = rng.random()
            if s < 0.4:
                return ("assign", ("b", rng.randrange(3)), ("T",) if rng.random() < 0.5 else ("F",))
            if s < 0.7:
                return ("assign", (rng.choice(["x", "y", "xb"]),), ("int", rng.randint(0, 9)))
            if s < 0.85:
                return ("assign", ("p", self.obj([])), ("T",) if rng.random() < 0.5 else ("F",))
            return ("assign_del", (rng.choice(["x", "y"]),))
        if r < 0.95:
            s = rng.random()
            if s < 0.4:
                return ("subs_set", ("b", rng.randrange(3)), self.boolean(1, []))
            if s < 0.8:
                return ("subs_set", (rng.choice(["x", "y"]),), self.num(1, []))
            return ("subs_set", ("p", self.obj([])), ("b", rng.randrange(3)))
        return ("subs_clear",)

    def after_mutation_call(self, m):
        """The call that follows a mutation: the same expression as before, or a new one, on the mutated argument."""
        rng = self.rng
        k = m[0]
        if k in ("add_object", "share_object"):
            e = rng.choice(self.quant_used) if self.quant_used and rng.random() < 0.6 else self.quantified()
            if e not in self.quant_used:
                self.quant_used.append(e)
            r = rng.random()
            if r < 0.55:
                return ("remove_quantifiers", e, m[2] if rng.random() < 0.8 else 1 - m[2])
            if r < 0.8:
                return ("evaluate", e, 3)
            return ("qsimplify", e)
        if k in ("assign", "assign_del"):
            return ("qsimplify", rng.choice(self.pool["bool"]) if self.pool["bool"] and rng.random() < 0.5 else self.boolean(2, []))
        return ("substitute_kept", rng.choice(self.pool["bool"]) if self.pool["bool"] and rng.random() < 0.5 else self.boolean(2, []))

    def num(self, d, bound, grounded=False):
        rng = self.rng
        if d <= 0 or rng.random() < 0.3:
            r = rng.random()
            if r < 0.3:
                return ("int", rng.randint(-3, 9))
            if r < 0.4:
                return ("frac", rng.randint(-5, 5), rng.choice([2, 3, 4]))
            if r < 0.55:
                return ("x",)
            if r < 0.7:
                return ("y",)
            if r < 0.8:
                return ("xb",)
            if r < 0.88:
                return ("r",)
            return ("cnt", self.obj(bound))
        if self.pool["num"] and not bound and rng.random() < 0.3:
            return rng.choice(self.pool["num"])
        r = rng.random()
        if r < 0.3:
            return ("Plus", [self.num(d - 1, bound) for _ in range(rng.choice([2, 2, 3]))])
        if r < 0.45:
            return ("Minus", self.num(d - 1, bound), self.num(d - 1, bound))
        if r < 0.65:
            return ("Times", [self.num(d - 1, bound) for _ in range(2)])
        if r < 0.8:
            return ("Div", self.num(d - 1, bound), ("int", rng.choice([1, 2, 3, -2])))
        if r < 0.9:
            return ("ifn", ("int", rng.choice([1, 3, 5, 9])))
        return ("g", ("int", rng.randint(0, 5)))

    def boolean(self, d, bound):
        rng = self.rng
        if d <= 0 or rng.random() < 0.25:
            r = rng.random()
            if r < 0.55:
                return ("b", rng.randrange(len(BOOLS)))
            if r < 0.9:
                return ("p", self.obj(bound))
            return ("T",) if r < 0.95 else ("F",)
        if self.pool["bool"] and not bound and rng.random() < 0.3:
            return rng.choice(self.pool["bool"])
        r = rng.random()
        if r < 0.22:
            return ("And", [self.boolean(d - 1, bound) for _ in range(rng.choice([2, 2, 3]))])
        if r < 0.4:
            return ("Or", [self.boolean(d - 1, bound) for _ in range(rng.choice([2, 2, 3]))])
        if r < 0.5:
            return ("Not", self.boolean(d - 1, bound))
        if r < 0.57:
            return ("Implies", self.boolean(d - 1, bound), self.boolean(d - 1, bound))
        if r < 0.63:
            return ("Iff", self.boolean(d - 1, bound), self.boolean(d - 1, bound))
        if r < 0.78:
            return (rng.choice(["LE", "LT", "Equals"]), self.num(d - 1, bound), self.num(d - 1, bound))
        if r < 0.84:
            return ("Equals", self.obj(bound), self.obj(bound))
        free = [i for i in range(2) if i not in bound]
        if free:
            v = rng.choice(free)
            return (rng.choice(["Exists", "Forall"]), v, self.boolean(d - 1, bound + [v]))
        return ("p", self.obj(bound))

    def remember(self, t, kind):
        if len(self.pool[kind]) < 30:
            self.pool[kind].append(t)

    # ---- calls built to raise in the middle of a walk
    def failing_call(self):
        rng = self.rng
        ctx = self.boolean(2, [])
        r = rng.random()
        if r < 0.2:
            # a bare ill-typed construction from a small set, so that the same one comes back later in the history
            # (its first failure must not make the second one pass)
            if self.bad_used and rng.random() < 0.6:
                return (rng.choice(["fluents", "free_vars", "simplify", "build"]), rng.choice(self.bad_used)), "bare-ill-typed-again"
            bad = rng.choice([("Equals", ("b", rng.randrange(2)), ("b", rng.randrange(2))),
                              ("Div", ("int", 3), ("int", 0)),
                              ("g", ("int", rng.choice([7, 8]))),
                              ("Div", ("xb",), ("Minus", ("int", 2), ("int", 2))),
                              ("And", [("b", 0), ("int", 1)])])
            self.bad_used.append(bad)
            return (rng.choice(["build", "type", "fluents", "free_vars", "simplify"]), bad), "bare-ill-typed"
        if r < 0.3:
            # ill-typed equality on booleans, inside a conjunction: the TypeChecker raises at the Equals node
            bad = ("Equals", ("b", rng.randrange(3)), ("b", rng.randrange(3)))
            return (rng.choice(["build", "simplify", "fluents"]), ("And", [ctx, bad, ("b", 0)])), "eq-bool"
        if r < 0.4:
            # substitution y -> 0 under a bounded numerator: ZeroDivisionError in the TypeChecker, in the middle of
            # the Substituter's walk
            numer = rng.choice([("xb",), ("int", 3), ("Plus", [("xb",), ("int", 1)])])
            e = ("And", [ctx, ("LE", ("Div", numer, ("y",)), ("int", rng.randint(1, 4)))])
            self.remember(e, "bool")
            return ("substitute", e, [(("y",), ("int", 0))]), "subst-div0"
        if r < 0.5:
            # substitution that yields an ill-typed fluent application: g's parameter is int[0,5]
            e = ("Or", [("LT", ("g", ("xb",)), ("int", 4)), ctx])
            self.remember(e, "bool")
            return ("substitute", e, [(("xb",), ("int", rng.choice([7, 9])))]), "subst-illtyped"
        if r < 0.65:
            # the simplifier divides by a constant that only simplification discovers to be zero: ifn(3) = 0
            e = ("And", [("LE", ("Div", ("int", rng.choice([3, 5])), ("ifn", ("int", 3))), ("x",)), ctx])
            self.remember(e, "bool")
            return ("simplify", e), "simplify-div0"
        if r < 0.8:
            # interpreted function that raises while the simplifier folds constants
            e = ("Or", [ctx, ("LT", ("Plus", [("ifn", ("int", 7)), ("x",)]), ("int", 2))])
            self.remember(e, "bool")
            return ("simplify", e), "ifn-raises"
        # StateEvaluator on a state that lacks the value of a fluent the expression reads
        miss, s = rng.choice([(("r",), 1), (("y",), 2)])
        e = ("And", [("LE", miss, ("int", 3)), ("b", rng.randrange(3))])
        return ("evaluate", e, s), "missing-fluent"

    def normal_call(self):
        rng = self.rng
        r = rng.random()
        e = self.boolean(3, []) if rng.random() < 0.75 else self.num(3, [])
        isb = e[0] in ("T", "F", "b", "p", "And", "Or", "Not", "Implies", "Iff", "LE", "LT", "Equals", "Exists", "Forall")
        self.remember(e, "bool" if isb else "num")
        if r < 0.12:
            return ("build", e)
        if r < 0.2:
            return ("type", e)
        if r < 0.42:
            return ("simplify", e)
        if r < 0.6:
            subs = []
            for _ in range(rng.choice([1, 1, 2])):
                s = rng.random()
                if s < 0.3:
                    subs.append((("b", rng.randrange(3)), self.boolean(1, [])))
                elif s < 0.6:
                    subs.append(((rng.choice(["x", "y"]),), self.num(1, [])))
                elif s < 0.8:
                    subs.append((("p", self.obj([])), ("b", rng.randrange(3))))
                else:
                    subs.append((("xb",), ("int", rng.randint(0, 10))))
            return ("substitute", e, subs)
        if r < 0.68:
            return ("free_vars", e)
        if r < 0.76:
            return ("fluents", e)
        if r < 0.86:
            q = self.quantified() if rng.random() < 0.6 else (e if isb else self.boolean(3, []))
            if q[0] in ("Exists", "Forall", "And") and q not in self.quant_used and len(self.quant_used) < 12:
                self.quant_used.append(q)
            return ("remove_quantifiers", q, rng.choice([0, 0, 0, 1]))
        if r < 0.9:
            return ("qsimplify", e)
        if r < 0.93:
            return ("substitute_kept", e)
        return ("evaluate", e, rng.choice([0, 0, 3]))


def ser_case(w, fuel):
    es = []
    for e in w.log:
        es.append("{| e_walker := %s; e_inval := %s; e_qleaf := %s; e_eval := %s; e_root := %s; e_fail := %s; "
                  "e_assert := %s; e_ok := %s; e_memo := %d%%nat; e_stack := %d%%nat |}" % (
                      gn(e["walker"]), gbool(e["inval"]), gbool(e["qleaf"]), gbool(e["eval"]), gn(e["root"]),
                      gopt(None if e["fail"] is None else gn(e["fail"])), gbool(e["assert"]), gbool(e["ok"]),
                      e["memo"], e["stack"]))
    return "{| c_dag := %s; c_quant := %s; c_fuel := %d%%nat; c_entries := %s |}" % (
        glist([gpair(gn(k), glist([gn(a) for a in v])) for k, v in sorted(w.dag.items())]),
        glist([gn(q) for q in sorted(w.quant)]), fuel, glist(es))


def coq_failing_two_at_a_time(ctx, cases, ok_fn, imports, preamble, shard):
    """ctx.coq_failing runs its shards in parallel; feed it two shards per call so that at most two coqc run at once."""
    bad = []
    for base in range(0, len(cases), 2 * shard):
        part = cases[base:base + 2 * shard]
        bad += [base + i for i in ctx.coq_failing(part, ok_fn, imports=imports, preamble=preamble, shard=shard, timeout=1500)]
    return bad


def run(ctx):
    ok_proofs = ctx.check_props(extra=["theories/Corr/Corr_C14.v"])
    rng = ctx.rng
    n_hist = 100 if ctx.quick else 2000
    stats = {"calls": 0, "failing_by_design": 0, "raised": 0, "walk_entries": 0, "walks_that_raised": 0}
    kinds, exc_classes, recipes = {}, {}, {}
    cases, raw = [], []
    nontrivial = set()
    oracle_fail = []
    for h in range(n_hist):
        g = Gen(rng)
        w = World(instrument)
        n_calls = rng.randint(5, 40)
        p_fail = rng.uniform(0.10, 0.30)
        calls, outs, muts = [], [], []
        pending = None
        for i in range(n_calls):
            if pending is not None:
                call, pending = g.after_mutation_call(pending), None
            elif i + 1 < n_calls and rng.random() < 0.12:
                # the argument of a long-lived walker is edited; the edit is part of the history (a pseudo call)
                m = g.mutation()
                w.apply(m)
                muts.append(m)
                calls.append(("mutate",) + m)
                outs.append(["ok", "mutated"])
                stats["argument_mutations"] = stats.get("argument_mutations", 0) + 1
                kinds["mutate:" + m[0]] = kinds.get("mutate:" + m[0], 0) + 1
                pending = m
                continue
            elif rng.random() < p_fail:
                call, recipe = g.failing_call()
                stats["failing_by_design"] += 1
                recipes[recipe] = recipes.get(recipe, 0) + 1
            else:
                call = g.normal_call()
            out = perform(w, call)
            fw = World()                                   # the property oracle: same call, same (edited) arguments,
            for m in muts:                                 # fresh Environment and fresh walkers
                fw.apply(m)
            fresh = perform(fw, call)
            calls.append(call)
            outs.append(out)
            kinds[call[0]] = kinds.get(call[0], 0) + 1
            if out[0] == "exc":
                stats["raised"] += 1
                exc_classes[out[1]] = exc_classes.get(out[1], 0) + 1
            if out != fresh:
                oracle_fail.append({"history": h, "step": i, "call": call, "shared_env": out, "fresh_env": fresh,
                                    "earlier_calls": calls[:i], "earlier_outcomes": outs[:i]})
        stats["calls"] += n_calls
        stats["walk_entries"] += len(w.log)
        stats["walks_that_raised"] += sum(1 for e in w.log if not e["ok"])
        fuel = 4 * (len(w.dag) + sum(len(v) for v in w.dag.values())) + 20
        cases.append(ser_case(w, fuel))
        raw.append({"calls": calls, "outcomes": outs, "log_entries": len(w.log), "nodes": len(w.dag)})
        if n_calls >= 5 and any(o[0] == "exc" for o in outs):
            nontrivial.add(json.dumps(calls))
    imports = ["UPV.Model.Dag", "UPV.Corr.Corr_C14"]
    bad = coq_failing_two_at_a_time(ctx, cases, "ok", imports, "", 50 if ctx.quick else 100)
    for f in oracle_fail[:20]:
        tags = ["c14", "fresh-env-oracle", "call:" + f["call"][0], "shared:" + f["shared_env"][1] if f["shared_env"][0] == "exc" else "shared:ok"]
        ctx.fail("oracle", "call %s answers %s on the shared environment but %s on a fresh one (after %d earlier calls)" % (
            f["call"][0], f["shared_env"], f["fresh_env"], f["step"]), tags, f, True)
    if len(bad) > 3:
        ctx.fail("corr", "%d further histories: walker log disagrees with the model (indices %s)" % (len(bad) - 3, bad[3:20]),
                 ["c14", "corr"], {"indices": bad[3:], "histories": [raw[i] for i in bad[3:8]]},
                 any(f["history"] in bad[3:] for f in oracle_fail))
    for rank, i in enumerate(bad[:3]):
        # the diagnosis recompiles the case; only the first few failing cases get one
        where = "(not computed)" if rank >= 3 else ctx.coq_show(
            "first_bad c", imports=imports, preamble="Definition c := %s.\n" % cases[i], timeout=600)
        ctx.fail("corr", "walker log: implementation and model disagree (corr:C14:walk/process) at log entry %s" % where[-40:],
                 ["c14", "corr"], {"history": raw[i], "first_bad_entry": where,
                                   "theorem_or_corr": "corr:C14:walk/process/evaluate"},
                 any(f["history"] == i for f in oracle_fail))
    if not ok_proofs:
        ctx.proof_broken()
    ctx.finish({
        "evaluations": stats["calls"],
        "histories": n_hist,
        "distinct_nontrivial": len(nontrivial),
        "rule": "one case = one history of 5-40 walker calls on one Environment; non-trivial = at least 5 calls and at "
                "least one call that raised; distinct by the list of calls; every call also run on a fresh Environment",
        "samples": raw[:1],
        "distribution": {"stats": stats, "call_kinds": kinds, "exception_classes": exc_classes, "failing_recipes": recipes},
        "traces_validated_against_impl": n_hist,
    }, "proof", assumptions=[
        "results are abstract in the walker model; what is compared with the model is control flow: returned/raised, "
        "the raising node, len(memoization), len(stack) after every walk",
        "the node at which a walk raised is taken from the observation (the model then has to reach exactly that node)",
    ])
