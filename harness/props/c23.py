"""C23 — The model only stores type-correct values.

Theorems: coq/theories/Props/C23.v (about coq/theories/Model/TypedStore.v).
Tie: correspondence.  A malformed stream of model-building calls -- every value kind (Boolean / integer / real constants,
objects of every user type, non-constant expressions of every type, something that cannot be promoted) against every
target type (Bool, Int, bounded and half-bounded Int/Real, user types with a hierarchy) through every storing API
(Problem(initial_defaults), add_fluent default, per-type default, set_initial_value, add_effect / add_increase_effect /
add_decrease_effect on InstantaneousAction, DurativeAction and Problem, ActionInstance) -- is run on the real classes;
Coq recomputes with the model which calls raise, the sizes of the stored collections after every call and the
complete stored content at the end.  Independently of the model, the property is evaluated on the implementation
(every stored value compatible/constant by a Python re-statement of the rule, nothing changed by a rejected call).
Numeric targets also include bounds that are not small integers (1/10, 1/3, 2/3, python floats -0.3 / 0.1, +-2^53) and
every bounded numeric type is crossed, through every entry point, with the values ADJACENT to its own bounds (the bound,
exact Fractions missing it by 1e-10 / 1e-20 / 2^-60 on either side, the nearest floats, the neighbouring integers --
2^53+1 included); model and oracle compare these exactly, as rationals, with the bounds the caller declared.
"""
import json
from fractions import Fraction

from harness.core import gn, gz, gnat, gbool, glist, gopt, gpair

META = {
    "level": "proof",
    "technique": "Coq proof (invariant preserved by every call, induction over histories; rejected call = identity) + "
                 "model/implementation correspondence by vm_compute on an exhaustive value-kind x target-type x API matrix",
    "text": "Invariant theorem over all histories of model-building calls (after any accepted constructor call) about a Gallina model "
            "of the storing entry points and of is_compatible_type; rejected calls leave the store unchanged; bad values are rejected. "
            "The model is tied to the implementation by differential evaluation of malformed call streams inside Coq.",
    "note": "Print Assumptions: closed under the global context (no axioms). The model starts after auto_promote (a value is the promoted "
            "expression, or 'unpromotable'); check_conflicting_effects' verdict is an input of add_effect (C24 covers it). "
            "The model describes the code after fix commit d8a6c6d (defaults type-checked, initial values must be constants, "
            "add_fluent checks before appending).",
}

IMPORTS = ["UPV.Model.TypedStore", "UPV.Corr.Corr_C23"]


class World:
    def __init__(self):
        import unified_planning as up
        from unified_planning.shortcuts import (Fluent, BoolType, IntType, RealType, UserType, Object, Plus, Times, FluentExp,
                                                get_environment, Not)
        self.env = get_environment()
        self.em = self.env.expression_manager
        Loc = UserType("C23Loc")
        Sub = UserType("C23SubLoc", Loc)
        Rob = UserType("C23Robot")
        self.utypes = [Loc, Sub, Rob]
        self.hier = [(0, None), (1, 0), (2, None)]
        self.types = [("bool", BoolType()), ("int", IntType()), ("int[0,10]", IntType(0, 10)), ("int[3,inf]", IntType(3, None)),
                      ("real", RealType()), ("real[0,1]", RealType(0, 1)), ("real[-inf,5/2]", RealType(None, Fraction(5, 2))),
                      ("Loc", Loc), ("SubLoc", Sub), ("Robot", Rob),
                      # appended (indices above are used by the hand-written sessions): bounds that are not small integers --
                      # thirds / tenths, bounds written as python floats (not exactly representable), bounds at +-2^53
                      ("real[0,1/10]", RealType(0, Fraction(1, 10))), ("real[1/3,2/3]", RealType(Fraction(1, 3), Fraction(2, 3))),
                      ("real[-0.3f,0.1f]", RealType(-0.3, 0.1)), ("int[-2^53,2^53]", IntType(-2 ** 53, 2 ** 53)),
                      ("real[-2^53,2^53]", RealType(-2 ** 53, 2 ** 53))]
        # the bounds as DECLARED by the caller (exact rationals; a python float stands for its exact binary value), per
        # numeric target type.  Calls are rendered for the model with these, the stored content with what the
        # implementation's Type objects say; the Python oracle judges stored constants against these, exactly.
        self.bounds = {1: (None, None), 2: (0, 10), 3: (3, None), 4: (None, None), 5: (0, 1), 6: (None, Fraction(5, 2)),
                       10: (0, Fraction(1, 10)), 11: (Fraction(1, 3), Fraction(2, 3)), 12: (Fraction(-0.3), Fraction(0.1)),
                       13: (-2 ** 53, 2 ** 53), 14: (-2 ** 53, 2 ** 53)}
        self.bounds = {ti: tuple(None if b is None else Fraction(b) for b in bs) for ti, bs in self.bounds.items()}
        self.boundary = {ti: self.boundary_values(bs) for ti, bs in self.bounds.items() if bs != (None, None)}
        self.objects = [Object("c23_l1", Loc), Object("c23_s1", Sub), Object("c23_r1", Rob)]
        self.obj_id = {o.name: i for i, o in enumerate(self.objects)}
        # source fluents used inside non-constant value expressions
        vb, vi, vI, vr = Fluent("c23_vb", BoolType()), Fluent("c23_vi", IntType(0, 10)), Fluent("c23_vI", IntType()), Fluent("c23_vr", RealType())
        vl, vs, vrob = Fluent("c23_vl", Loc), Fluent("c23_vs", Sub), Fluent("c23_vrob", Rob)
        self.cond_fluent = FluentExp(Fluent("c23_cond", BoolType()))
        self.nonconst = [vb(), Not(vb()), vi(), vI(), Plus(vi(), 1), Plus(vi(), 20), vr(), Times(vr(), 2), vl(), vs(), vrob()]
        self.expr_id = {}
        # the values of the stream (python values exactly as a user would pass them)
        self.values = [True, False, 0, 5, 12, -3, Fraction(1, 2), Fraction(7), 2.5, 0.0, Fraction(-1, 3)] + self.objects + \
            self.nonconst + ["abc"]

    @staticmethod
    def boundary_values(bounds):
        """Values adjacent to each declared bound, on both sides: the bound itself, exact Fractions with large denominators
        that miss it by 1e-10, 1e-20 and 2^-60 (inside and outside), the nearest python float and its two neighbours
        (floats are generally not exactly the bound), and for an integer bound the integers next to it (for +-2^53 these
        are integers no float represents).  Python values exactly as a user would pass them."""
        import math
        out = []
        for b in bounds:
            if b is None:
                continue
            vals = [b if b.denominator != 1 else int(b)]
            for d in (Fraction(1, 10 ** 10), Fraction(1, 10 ** 20), Fraction(1, 2 ** 60)):
                vals += [b - d, b + d]
            fl = float(b)
            vals += [fl, math.nextafter(fl, -math.inf), math.nextafter(fl, math.inf)]
            if b.denominator == 1:
                vals += [int(b) - 1, int(b) + 1]
            for v in vals:
                if not any(type(v) is type(u) and v == u for u in out):
                    out.append(v)
        return out

    # ---- Gallina renderings
    def gty_decl(self, ti):
        """The target type number ti as the caller declared it."""
        t = self.types[ti][1]
        if ti not in self.bounds:
            return self.gty(t)
        lo, hi = self.bounds[ti]
        if t.is_int_type():
            return "(TInt %s %s)" % (gopt(None if lo is None else gz(int(lo))), gopt(None if hi is None else gz(int(hi))))
        return "(TReal %s %s)" % (gopt(None if lo is None else gqq(lo)), gopt(None if hi is None else gqq(hi)))

    def gty(self, t):
        if t.is_bool_type():
            return "TBool"
        if t.is_int_type():
            return "(TInt %s %s)" % (gopt(None if t.lower_bound is None else gz(t.lower_bound)),
                                     gopt(None if t.upper_bound is None else gz(t.upper_bound)))
        if t.is_real_type():
            return "(TReal %s %s)" % (gopt(None if t.lower_bound is None else gqq(t.lower_bound)),
                                      gopt(None if t.upper_bound is None else gqq(t.upper_bound)))
        assert t.is_user_type()
        return "(TUser %s)" % gn(self.utypes.index(t))

    def gnode(self, node):
        """A promoted expression (FNode) as a Gallina val."""
        if node.is_bool_constant():
            return "(VBool %s)" % gbool(node.bool_constant_value())
        if node.is_int_constant():
            return "(VInt %s)" % gz(node.constant_value())
        if node.is_real_constant():
            return "(VReal %s)" % gqq(node.constant_value())
        if node.is_object_exp():
            o = node.object()
            return "(VObj %s %s)" % (gn(self.obj_id[o.name]), gn(self.utypes.index(o.type)))
        assert not node.is_constant()
        k = self.expr_id.setdefault(node, len(self.expr_id))
        return "(VExpr %s %s)" % (gn(k), self.gty(node.type))

    def promote(self, pyval):
        """What auto_promote makes of a python value: an FNode, or None when it raises."""
        try:
            (n,) = self.em.auto_promote(pyval)
            return n
        except Exception:
            return None

    def gval(self, pyval):
        n = self.promote(pyval)
        return "VBad" if n is None else self.gnode(n)

    # ---- an independent statement of the rule (used only to decide whether the PROPERTY fails somewhere)
    def py_compatible(self, tl, tr):
        if tl == tr:
            return True
        if tl.is_user_type() and tr.is_user_type():
            t = tr
            while t is not None:
                if t == tl:
                    return True
                t = t.father
            return False
        if (tl.is_int_type() and tr.is_int_type()) or (tl.is_real_type() and (tr.is_real_type() or tr.is_int_type())):
            lo_l, up_l, lo_r, up_r = tl.lower_bound, tl.upper_bound, tr.lower_bound, tr.upper_bound
            if lo_l is not None and up_r is not None and up_r < lo_l:
                return False
            if up_l is not None and lo_r is not None and lo_r > up_l:
                return False
            return True
        return False

    def value_ok(self, t, tis, v):
        """Does the stored expression v belong to the target type t?  A numeric constant is judged by EXACT rational
        comparison of its value with the declared bounds of every target-type number in `tis` (the bounds of t when
        there is none); everything else by py_compatible on the types."""
        if (t.is_int_type() or t.is_real_type()) and (v.is_int_constant() or v.is_real_constant()):
            if t.is_int_type() and not v.is_int_constant():
                return False
            x = Fraction(v.constant_value())
            for lo, hi in ([self.bounds[ti] for ti in tis if ti in self.bounds] or [(t.lower_bound, t.upper_bound)]):
                if (lo is not None and x < lo) or (hi is not None and x > hi):
                    return False
            return True
        return self.py_compatible(t, v.type)


def gqq(fr):
    fr = Fraction(fr)
    return "(Qmake %s %d%%positive)" % (gz(fr.numerator), fr.denominator)


class Session:
    """One constructor call + one history, on fresh objects."""

    def __init__(self, w, ds):
        """ds = [(target type number, python value)]: the initial_defaults dictionary."""
        from unified_planning.shortcuts import Problem, InstantaneousAction, DurativeAction, StartTiming, GlobalStartTiming
        self.w = w
        self.ctor_raised = False
        self.problem = None
        self.ds = list(ds)
        self.decl = {}           # fluent name -> number of the target type it was declared with
        self.instance_tis = []   # per stored ActionInstance: the target type numbers of its parameters
        try:
            self.problem = Problem("c23_p", initial_defaults={w.types[ti][1]: v for ti, v in ds})
        except Exception as e:
            self.ctor_raised = True
            self.ctor_exc = type(e).__name__
        self.inst = InstantaneousAction("c23_a")
        self.dur = DurativeAction("c23_d")
        self.t_dur = StartTiming()
        self.t_prob = GlobalStartTiming(5)
        self.instances = []
        self.fluent_ids = {}     # Fluent -> id
        self.key_ids = {}        # fluent expression -> key id
        self.unexpected = []

    def snapshot(self):
        w, p = self.w, self.problem
        fid = lambda f: self.fluent_ids[f]
        return (
            tuple((w.gty(t), w.gnode(v)) for t, v in p.initial_defaults.items()),
            tuple((fid(f), w.gty(f.type)) for f in p.fluents),
            tuple((fid(f), w.gty(f.type), w.gnode(v)) for f, v in p.fluents_defaults.items()),
            tuple((self.key_ids[k], w.gty(k.type), w.gnode(v)) for k, v in p.explicit_initial_values.items()),
            tuple(("SInst", e.kind.name, w.gty(e.fluent.type), w.gnode(e.value)) for e in self.inst.effects),
            tuple(("SDur", e.kind.name, w.gty(e.fluent.type), w.gnode(e.value)) for e in self.dur.effects.get(self.t_dur, [])),
            tuple(("SProb", e.kind.name, w.gty(e.fluent.type), w.gnode(e.value)) for e in p.timed_effects.get(self.t_prob, [])),
            tuple(tuple((w.gty(prm.type), w.gnode(v)) for prm, v in zip(ai.action.parameters, ai.actual_parameters))
                  for ai in self.instances),
        )

    def property_violations(self):
        """Every stored value belongs to its target type / is a constant where required, judged by World.value_ok (numeric
        constants: exact comparison with the DECLARED bounds; otherwise py_compatible)."""
        w, p, bad = self.w, self.problem, []
        of = lambda fluent: [self.decl[fluent.name]] if fluent.name in self.decl else []
        for t, v in p.initial_defaults.items():
            if not (v.is_constant() and w.value_ok(t, [ti for ti, _ in self.ds if w.types[ti][1] == t], v)):
                bad.append("type-default")
        for f, v in p.fluents_defaults.items():
            if not (v.is_constant() and w.value_ok(f.type, of(f), v)):
                bad.append("fluent-default")
        for k, v in p.explicit_initial_values.items():
            if not (v.is_constant() and w.value_ok(k.type, of(k.fluent()), v)):
                bad.append("initial-value")
        for effs in (self.inst.effects, self.dur.effects.get(self.t_dur, []), p.timed_effects.get(self.t_prob, [])):
            for e in effs:
                if not w.value_ok(e.fluent.type, of(e.fluent.fluent()), e.value):
                    bad.append("effect-value")
        # read the initial state back through the public API: what a fluent is given must fit the fluent
        for f in p.fluents:
            if f.arity == 0:
                v = p.initial_value(f())
                if v is not None and not (v.is_constant() and w.value_ok(f.type, of(f), v)):
                    bad.append("initial_value(f)-readback")
        for k, v in p.initial_values.items():
            if not (v.is_constant() and w.value_ok(k.type, of(k.fluent()), v)):
                bad.append("initial_values-readback")
        for ai, tis in zip(self.instances, self.instance_tis):
            for prm, ti, v in zip(ai.action.parameters, tis, ai.actual_parameters):
                if not (v.is_constant() and w.value_ok(prm.type, [ti], v)):
                    bad.append("instance-parameter")
        return sorted(set(bad))


EXPECTED = ("UPTypeError", "UPValueError", "UPExpressionDefinitionError", "UPProblemDefinitionError",
            "UPConflictingEffectsException", "UPUsageError")


def perform(sess, w, o):
    """Run one op on the implementation.  Returns (gallina op, raised, exception name)."""
    import unified_planning as up
    from unified_planning.shortcuts import Fluent, InstantaneousAction, FluentExp
    from unified_planning.plans import ActionInstance
    from unified_planning.model.timing import Timing, Timepoint, TimepointKind
    p = sess.problem
    kind = o[0]
    exc = None
    if kind == "add_fluent":
        _, name_id, ti, val = o            # val = ("none",) or ("val", pyvalue)
        t = w.types[ti][1]
        f = Fluent("c23_f%d" % name_id, t)
        sess.fluent_ids[f] = name_id
        g = "OpAddFluent %s %s %s" % (gn(name_id), w.gty_decl(ti), "None" if val[0] == "none" else "(Some %s)" % w.gval(val[1]))
        try:
            if val[0] == "none":
                p.add_fluent(f)
            else:
                p.add_fluent(f, default_initial_value=val[1])
            sess.decl[f.name] = ti          # accepted, so the name is new in this problem
        except Exception as e:
            exc = type(e).__name__
        return g, exc
    if kind == "set_init":
        _, key_id, ti, args_const, pyval = o
        t = w.types[ti][1]
        if args_const:
            fe = FluentExp(Fluent("c23_k%d" % key_id, t))
        else:
            fe = FluentExp(Fluent("c23_k%d" % key_id, t, l=w.utypes[0]), [w.nonconst[8]])
        sess.key_ids[fe] = key_id
        sess.decl[fe.fluent().name] = ti    # key ids determine the target type (see gen_ops)
        g = "OpSetInit %s %s %s %s" % (gn(key_id), w.gty_decl(ti), gbool(args_const), w.gval(pyval))
        try:
            p.set_initial_value(fe, pyval)
        except Exception as e:
            exc = type(e).__name__
        return g, exc
    if kind == "effect":
        _, site, ek, ti, pyval, cond_kind, timing_ok, fl_id = o
        t = w.types[ti][1]
        fe = FluentExp(Fluent("c23_e%d" % fl_id, t))
        sess.decl[fe.fluent().name] = ti    # effect fluent ids determine the target type (see gen_ops)
        cond = {"cond": w.cond_fluent, "true": True, "notbool": 5}[cond_kind]
        try:
            if site == "SInst":
                fn = {"EAssign": sess.inst.add_effect, "EIncrease": sess.inst.add_increase_effect, "EDecrease": sess.inst.add_decrease_effect}[ek]
                fn(fe, pyval, cond)
            elif site == "SDur":
                fn = {"EAssign": sess.dur.add_effect, "EIncrease": sess.dur.add_increase_effect, "EDecrease": sess.dur.add_decrease_effect}[ek]
                fn(sess.t_dur, fe, pyval, cond)
            else:
                tm = sess.t_prob if timing_ok else Timing(0, Timepoint(TimepointKind.GLOBAL_END))
                fn = {"EAssign": p.add_timed_effect, "EIncrease": p.add_increase_effect, "EDecrease": p.add_decrease_effect}[ek]
                fn(tm, fe, pyval, cond)
        except Exception as e:
            exc = type(e).__name__
        g = "OpAddEffect %s %s %s %s %s %s %s" % (site, ek, w.gty_decl(ti), w.gval(pyval), gbool(cond_kind != "notbool"), gbool(timing_ok),
                                                  gbool(exc == "UPConflictingEffectsException"))
        return g, exc
    if kind == "instance":
        _, params = o                      # [(type index, pyvalue)]
        a = InstantaneousAction("c23_act", **{"p%d" % i: w.types[ti][1] for i, (ti, _) in enumerate(params)})
        g = "OpInstance %s" % glist([gpair(w.gty_decl(ti), w.gval(v)) for ti, v in params])
        try:
            sess.instances.append(ActionInstance(a, tuple(v for _, v in params)))
            sess.instance_tis.append([ti for ti, _ in params])
        except Exception as e:
            exc = type(e).__name__
        return g, exc
    raise AssertionError(kind)


def gstore(snap):
    td, fl, fd, iv, e1, e2, e3, inst = snap
    kname = {"ASSIGN": "EAssign", "INCREASE": "EIncrease", "DECREASE": "EDecrease"}
    return ("{| type_defaults := %s; fluents := %s; fluent_defaults := %s; init_values := %s; effects := %s; instances := %s |}" % (
        glist([gpair(t, v) for t, v in td]),
        glist([gpair(gn(f), t) for f, t in fl]),
        glist(["(%s, %s, %s)" % (gn(f), t, v) for f, t, v in fd]),
        glist(["(%s, (%s, %s))" % (gn(k), t, v) for k, t, v in iv]),
        glist(["(%s, %s, %s, %s)" % (s, kname[k], t, v) for s, k, t, v in e1 + e2 + e3]),
        glist([glist([gpair(t, v) for t, v in ps]) for ps in inst])))


def sizes(snap):
    td, fl, fd, iv, e1, e2, e3, inst = snap
    return [len(fl), len(fd), len(iv), len(e1), len(e2), len(e3), len(inst)]


def gen_ops(w, rng, quick):
    """The full matrix value x target x API, shuffled, plus name clashes, non-constant fluent arguments, non-Boolean
    conditions, EndTiming on the Problem and repeated (conflicting) effects."""
    ops = []
    nT = len(w.types)
    name_id = [0]

    def fresh():
        name_id[0] += 1
        return name_id[0]
    for ti in range(nT):
        ops.append(("add_fluent", fresh(), ti, ("none",)))
        # every value of the common pool, and the values adjacent to the bounds of this very type
        for v in w.values + w.boundary.get(ti, []):
            ops.append(("add_fluent", fresh(), ti, ("val", v)))
            ops.append(("set_init", fresh(), ti, True, v))
            ops.append(("instance", [(ti, v)]))
            for site in ("SInst", "SDur", "SProb"):
                for ek in ("EAssign", "EIncrease", "EDecrease"):
                    ops.append(("effect", site, ek, ti, v, "cond", True, 1000 + ti))
    # extras
    for _ in range(40 if quick else 400):
        ti = rng.randrange(nT)
        v = rng.choice(w.values + w.boundary.get(ti, []))
        r = rng.random()
        if r < 0.15:
            ops.append(("add_fluent", rng.randint(1, 30), ti, ("val", v) if rng.random() < 0.5 else ("none",)))   # name clash likely
        elif r < 0.3:
            ac = rng.random() < 0.5
            ops.append(("set_init", 100000 + rng.randint(1, 6) * 64 + ti * 2 + int(ac), ti, ac, v))   # overwrite / non-constant args
        elif r < 0.45:
            ops.append(("effect", "SProb", "EAssign", ti, v, "cond", False, 1000 + ti))          # EndTiming
        elif r < 0.6:
            ops.append(("effect", rng.choice(["SInst", "SDur", "SProb"]), rng.choice(["EAssign", "EIncrease", "EDecrease"]), ti, v, "notbool", True, 1000 + ti))
        elif r < 0.8:
            ops.append(("effect", rng.choice(["SInst", "SDur", "SProb"]), rng.choice(["EAssign", "EIncrease"]), ti, v, "true", True, 2000 + ti))  # unconditional: conflicts
        else:
            k = rng.randint(2, 3)
            tis = [rng.randrange(nT) for _ in range(k)]
            ops.append(("instance", [(tj, rng.choice(w.values + w.boundary.get(tj, []))) for tj in tis]))
    rng.shuffle(ops)
    # conflicting pairs (the second raises UPConflictingEffectsException, an input of the model), kept adjacent
    for j in range(6 if quick else 40):
        ti = rng.choice([1, 2, 4, 5])
        site = rng.choice(["SInst", "SDur", "SProb"])
        pos = rng.randrange(len(ops))
        pos -= pos % 60
        ops.insert(pos, ("effect", site, "EAssign", ti, 0, "true", True, 3000 + j))
        ops.insert(pos + 1, ("effect", site, "EAssign", ti, 1, "true", True, 3000 + j))
    return ops


def gen_hierarchy_sessions(w):
    """Per-type defaults across the type hierarchy (both tiers, deterministic): a default given for a supertype / a subtype /
    a sibling / an unrelated or differently bounded numeric type of the fluents added afterwards.  Every session adds a
    fluent of EVERY target type without an explicit default (in two orders), then some with explicit defaults."""
    l1, s1, r1 = w.objects
    dicts = [
        [(7, l1)], [(7, s1)], [(8, s1)], [(9, r1)], [(7, l1), (8, s1)], [(7, l1), (9, r1)], [(8, s1), (9, r1)],
        [(7, s1), (8, s1), (9, r1)],
        [(1, 5)], [(2, 5)], [(3, 5)], [(4, 0)], [(4, Fraction(1, 2))], [(5, Fraction(1, 2))], [(6, -3)], [(0, True)],
        [(1, 5), (4, Fraction(1, 2)), (0, False), (7, l1)],
        # defaults sitting exactly on / just inside a bound that is not a small integer
        [(10, Fraction(1, 10))], [(11, Fraction(1, 3) + Fraction(1, 10 ** 20))], [(12, 0.1)], [(13, 2 ** 53)],
        [(14, Fraction(2 ** 54 - 1, 2))], [(5, 1 - Fraction(1, 2 ** 60)), (10, 0.1 - 2.0 ** -56), (12, -0.3)],
    ]
    nT = len(w.types)
    out = []
    for ds in dicts:
        for order in (list(range(nT)), list(reversed(range(nT)))):
            ops, k = [], 50000
            for ti in order:
                k += 1
                ops.append(("add_fluent", k, ti, ("none",)))
            for ti, v in ((8, s1), (7, s1), (8, l1), (2, 5), (5, 3)):
                k += 1
                ops.append(("add_fluent", k, ti, ("val", v)))
            for ti in order[:4]:
                k += 1
                ops.append(("add_fluent", k, ti, ("none",)))
            out.append((ds, ops))
    return out


def gen_defaults(w, rng, quick):
    """Constructor arguments: every single (type, value) pair, and a few valid multi-entry dictionaries."""
    T = [t for _, t in w.types]
    singles = [[(ti, v)] for ti in range(len(T)) for v in w.values + w.boundary.get(ti, [])]
    valid = [
        [],
        [(0, False), (4, 0), (7, w.objects[1])],              # Bool: False, Real: 0 (an int), Loc: an object of the subtype
        [(1, 5), (2, 5), (3, 5), (5, Fraction(1, 2)), (6, -3), (8, w.objects[1]), (9, w.objects[2])],
        [(10, Fraction(1, 10)), (11, Fraction(1, 3)), (12, 0.1), (13, -2 ** 53), (14, 2 ** 53), (6, Fraction(5, 2))],   # on the bounds
    ]
    return singles, valid


def run(ctx):
    import warnings
    warnings.simplefilter("ignore")
    ok_proofs = ctx.check_props(extra=["theories/Corr/Corr_C23.v"])
    w = World()
    rng = ctx.rng
    T = [t for _, t in w.types]
    ghier = glist([gpair(gn(a), gopt(None if b is None else gn(b))) for a, b in w.hier])

    cases, raw = [], []
    prop_fail = {}
    stats = {"constructor_calls": 0, "constructor_rejected": 0, "calls": 0, "calls_rejected": 0, "by_api": {}, "rejected_by_exception": {},
             "matrix": "(%d common values x %d target types + %d bound-adjacent values of %d bounded numeric types, each against its own "
                       "type) x 13 storing entry points" % (len(w.values), len(w.types), sum(len(b) for b in w.boundary.values()),
                                                            len(w.boundary))}

    def gdefaults(ds):
        return glist([gpair(w.gty_decl(ti), w.gval(v)) for ti, v in ds])

    def run_session(ds, ops):
        sess = Session(w, ds)
        stats["constructor_calls"] += 1
        idx = len(cases)
        info = {"initial_defaults": [(w.types[ti][0], repr(v)) for ti, v in ds], "ops": [], "constructor_raised": sess.ctor_raised}
        if sess.ctor_raised:
            stats["constructor_rejected"] += 1
            stats["rejected_by_exception"][sess.ctor_exc] = stats["rejected_by_exception"].get(sess.ctor_exc, 0) + 1
            if sess.ctor_exc not in EXPECTED:
                prop_fail.setdefault(idx, []).append("unexpected-exception:" + sess.ctor_exc)
            cases.append("Case %s %s true [] [] [] {| type_defaults := []; fluents := []; fluent_defaults := []; init_values := []; effects := []; instances := [] |}" % (
                ghier, gdefaults(ds)))
            raw.append(info)
            return
        gops, raised, szs = [], [], []
        before = sess.snapshot()
        reasons = sess.property_violations()
        for o in ops:
            g, exc = perform(sess, w, o)
            after = sess.snapshot()
            gops.append(g)
            raised.append(exc is not None)
            szs.append(sizes(after))
            stats["calls"] += 1
            stats["by_api"][o[0] if o[0] != "effect" else "effect:" + o[1]] = stats["by_api"].get(o[0] if o[0] != "effect" else "effect:" + o[1], 0) + 1
            info["ops"].append({"op": [repr(x) for x in o], "gallina": g, "raised": exc})
            if exc is not None:
                stats["calls_rejected"] += 1
                stats["rejected_by_exception"][exc] = stats["rejected_by_exception"].get(exc, 0) + 1
                if exc not in EXPECTED:
                    reasons.append("unexpected-exception:" + exc)
                if after != before:
                    reasons.append("rejected-call-changed-model:" + o[0])
            before = after
        reasons += sess.property_violations()
        if reasons:
            prop_fail[idx] = sorted(set(reasons))
        cases.append("Case %s %s false %s %s %s %s" % (
            ghier, gdefaults(ds), glist(gops), glist([gbool(b) for b in raised]),
            glist([glist([gnat(n) for n in s]) for s in szs]), gstore(before)))
        raw.append(info)

    singles, valid = gen_defaults(w, rng, ctx.quick)
    for ds in singles:
        run_session(ds, [])                                  # the constructor matrix: every value against every type
    for ds, ops in gen_hierarchy_sessions(w):
        run_session(ds, ops)                                 # per-type defaults across the type hierarchy
    passes = 1 if ctx.quick else 6
    for ps in range(passes):
        ops = gen_ops(w, rng, ctx.quick)
        chunk = 60
        for i in range(0, len(ops), chunk):
            run_session(valid[(i // chunk + ps) % len(valid)], ops[i:i + chunk])

    bad = ctx.coq_failing(cases, "ok", imports=IMPORTS, preamble="", shard=40, ty="case")
    groups_ = {}
    for i in bad:
        key = tuple(["c23"] + prop_fail.get(i, []))
        groups_.setdefault(key, []).append(i)
    for key, idxs in sorted(groups_.items()):
        idxs.sort(key=lambda i: (len(raw[i]["ops"]), i))
        for i in idxs[:2]:
            model = ctx.coq_show("model_view c", imports=IMPORTS, preamble="Definition c := %s.\n" % cases[i])
            reasons = prop_fail.get(i, [])
            ctx.fail("corr", "model-building calls: implementation and model disagree on which calls raise or on what is stored "
                     "(corr:C23:step/mk_problem)%s" % ("; property fails: " + ",".join(reasons) if reasons else ""),
                     list(key), {"case": raw[i], "gallina_case": cases[i][:6000], "model (per call (raised, sizes), final store)": model,
                                 "failing_cases_with_these_tags": len(idxs), "failing_cases_total": len(bad),
                                 "theorem_or_corr": "corr:C23:add_fluent/set_initial_value/add_effect/action_instance/mk_problem"}, bool(reasons))
    bad_set = set(bad)
    for i, reasons in [(i, r) for i, r in sorted(prop_fail.items()) if i not in bad_set][:5]:
        ctx.fail("oracle", "property fails on the implementation although model and implementation agree: %s" % ",".join(reasons),
                 ["c23"] + reasons, {"case": raw[i], "gallina_case": cases[i][:6000]}, True)
    if not ok_proofs:
        ctx.proof_broken()
    distinct = set()
    for r in raw:
        for o in r["ops"]:
            distinct.add(o["gallina"])
    ctx.finish({
        "evaluations": len(cases),
        "distinct_nontrivial": len(distinct),
        "rule": "a case = one constructor call + a history of up to 60 calls; distinct_nontrivial = distinct calls (API, target type, "
                "promoted value, flags) compared with the model; the matrix of every value against every target type through every "
                "entry point is enumerated completely (exhaustive over the stated value/type lists), the extras are random",
        "exhaustive": True,
        "exhaustive_scope": stats["matrix"],
        "samples": [{"initial_defaults": r["initial_defaults"], "constructor_raised": r["constructor_raised"], "ops": r["ops"][:4]}
                    for r in (raw[3:4] + raw[-2:])],
        "distribution": stats,
        "traces_validated_against_impl": len(cases),
    }, "proof", assumptions=[
        "a value is modelled after auto_promote: Boolean/integer/real constant, object, non-constant expression with its type, or unpromotable",
        "the verdict of check_conflicting_effects is an input of add_effect (property C24)",
        "fluent names are numbers; only clashes among fluents are modelled",
    ])
