"""C20 — Protobuf round trip is lossless.

Theorems: coq/theories/Props/C20.v (about coq/theories/Model/ProtoCodec.v): decode (encode x) = Some x for the component
codecs (types with every finite/infinite bound combination, numbers, expressions, timepoints/timings, intervals,
durations, effects, metrics).
Tie: correspondence on each component — the real ProtobufWriter().convert / ProtobufReader().convert are run on
generated components; the written protobuf message is compared field by field with the model's encoding, the object
read back with the model's decoding of that message and with the original (Coq, vm_compute).
Whole objects (problems incl. hierarchical and scheduling ones, plans, PlanGenerationResult, CompilerResult,
ValidationResult) are VALIDATED, not proved: reader(writer(x)) == x and equal kind, in Python.
"""
import dataclasses
import itertools
import re
import traceback
import warnings
from fractions import Fraction

from harness.core import gn, gz, gbool, glist, gopt, gpair

META = {
    "level": "proof",
    "technique": "Coq proofs of decode(encode x) = Some x for every component codec (tree induction for expressions) "
                 "+ field-by-field model/implementation correspondence by vm_compute + whole-message round-trip validation",
    "text": "Proved for all inputs: the component codecs of proto_writer.py/proto_reader.py (type strings with all four "
            "finite/infinite bound combinations for int and real, Real/int constants, Expression trees, timepoints, "
            "timings, time intervals, duration intervals, effects, timed effects/conditions, metrics) are inverted by "
            "their decoders.  The Gallina model is tied to the code by comparing, on generated components, the real "
            "protobuf message with the model's encoding and the real read-back object with the model's decoding.  "
            "Whole messages (problems incl. hierarchical/scheduling, plans, compiler/validation/plan-generation "
            "results) are only VALIDATED: reader(writer(x)) == x and equal kind on all shipped examples and on "
            "generated objects.",
    "note": "Level is 'proof' for the component codecs and 'validated' for whole messages.  Trusted: Coq kernel/"
            "vm_compute, the harness serialiser (incl. its parser of type strings into tokens), Python's str(int)/"
            "int(str)/Fraction.__str__/Fraction(str) (atoms of the token-level model), protobuf's own wire layer.  "
            "No axioms (Print Assumptions: closed under the global context).  int64 overflow of the protobuf fields "
            "makes the writer REJECT a value, which is outside the property.  CompilerResult holds callables, so its "
            "equality is checked extensionally (same problem/engine/metrics, map_back_action_instance of the result "
            "read back answering like the original on EVERY ground instance of the compiled actions, enumerated "
            "independently of the writer over the objects of the parameter types and of their subtypes; examples + "
            "generated problems over type hierarchies x 5 compilers; an exception raised by an object read back is "
            "a property failure).  Fixed in /repo: ecd0113, 355ac19, 91b5f1b, d21f318.  Open findings: C20-F1 (proto3 default "
            "collapse: ''/empty vs None), C20-F2 (empty SequentialPlan read as TimeTriggeredPlan), C20-F3 "
            "(ValidationResult fields absent from the schema), C20-F5 (user type occurring only as the type of a "
            "quantified / forall-effect variable is not written: reader raises).",
}

IMPORTS = ["UPV.Model.ProtoCodec", "UPV.Corr.Corr_C20"]

SYMS = {
    "up:plus": "(SOp OPlus)", "up:minus": "(SOp OMinus)", "up:times": "(SOp OTimes)", "up:div": "(SOp ODiv)",
    "up:le": "(SOp OLe)", "up:lt": "(SOp OLt)", "up:equals": "(SOp OEquals)", "up:and": "(SOp OAnd)",
    "up:or": "(SOp OOr)", "up:not": "(SOp ONot)", "up:implies": "(SOp OImplies)", "up:iff": "(SOp OIff)",
    "up:always": "(SOp OAlways)", "up:at_most_once": "(SOp OAtMostOnce)", "up:sometime": "(SOp OSometime)",
    "up:sometime_after": "(SOp OSometimeAfter)", "up:sometime_before": "(SOp OSometimeBefore)",
    "up:exists": "(SQuant QExists)", "up:forall": "(SQuant QForall)", "up:present": "SPresent",
    "up:start": "(STp Start)", "up:end": "(STp End_)", "up:global_start": "(STp GlobalStart)",
    "up:global_end": "(STp GlobalEnd)",
}
EKINDS = {0: "KUnknown", 1: "KConstant", 2: "KParameter", 7: "KVariable", 3: "KFluentSymbol", 4: "KFunctionSymbol",
          5: "KStateVariable", 6: "KFunctionApplication", 8: "KContainerId"}


def gq_raw(n, d):
    assert d > 0
    return "(Qmake (%d)%%Z %d%%positive)" % (n, d)


def gq(fr):
    fr = Fraction(fr)
    return gq_raw(fr.numerator, fr.denominator)


class SerError(Exception):
    """The harness cannot express an implementation output in the model's vocabulary (a broken tie, reported)."""


class Ser:
    """Python objects / protobuf messages -> Gallina literals; identifiers are interned per case ('' is 0)."""

    def __init__(self):
        self.tab = {"": 0}

    def n(self, s):
        if s not in self.tab:
            self.tab[s] = len(self.tab)
        return gn(self.tab[s])

    def optn(self, s):
        return gopt(None if s is None else self.n(s))

    # ---- model objects
    def ty(self, t):
        if t.is_bool_type():
            return "TyBool"
        if t.is_int_type():
            return "(TyInt %s %s)" % (gopt(None if t.lower_bound is None else gz(t.lower_bound)),
                                      gopt(None if t.upper_bound is None else gz(t.upper_bound)))
        if t.is_real_type():
            return "(TyReal %s %s)" % (gopt(None if t.lower_bound is None else gq(t.lower_bound)),
                                       gopt(None if t.upper_bound is None else gq(t.upper_bound)))
        if t.is_user_type():
            return "(TyUser %s)" % self.n(t.name)
        raise SerError("type outside the model: %r" % (t,))

    def timepoint(self, tp):
        kinds = {"GLOBAL_START": "GlobalStart", "GLOBAL_END": "GlobalEnd", "START": "Start", "END": "End_"}
        return "{| tp_kind := %s; tp_container := %s |}" % (kinds[tp.kind.name], self.optn(tp.container))

    def timing(self, t):
        return "{| tm_delay := %s; tm_tp := %s |}" % (gq(t.delay), self.timepoint(t.timepoint))

    def tinterval(self, i):
        return "{| ti_lower := %s; ti_upper := %s; ti_lopen := %s; ti_ropen := %s |}" % (
            self.timing(i.lower), self.timing(i.upper), gbool(i.is_left_open()), gbool(i.is_right_open()))

    def var(self, v):
        return gpair(self.n(v.name), self.ty(v.type))

    def expr(self, e):
        from unified_planning.model.operators import OperatorKind as K
        ops = {K.PLUS: "OPlus", K.MINUS: "OMinus", K.TIMES: "OTimes", K.DIV: "ODiv", K.LE: "OLe", K.LT: "OLt",
               K.EQUALS: "OEquals", K.AND: "OAnd", K.OR: "OOr", K.NOT: "ONot", K.IMPLIES: "OImplies", K.IFF: "OIff",
               K.ALWAYS: "OAlways", K.AT_MOST_ONCE: "OAtMostOnce", K.SOMETIME: "OSometime",
               K.SOMETIME_AFTER: "OSometimeAfter", K.SOMETIME_BEFORE: "OSometimeBefore"}
        if e.is_bool_constant():
            return "(EBool %s)" % gbool(e.bool_constant_value())
        if e.is_int_constant():
            return "(EInt %s)" % gz(e.int_constant_value())
        if e.is_real_constant():
            return "(EReal %s)" % gq(e.real_constant_value())
        if e.is_parameter_exp():
            return "(EParam %s %s)" % (self.n(e.parameter().name), self.ty(e.parameter().type))
        if e.is_variable_exp():
            return "(EVar %s %s)" % (self.n(e.variable().name), self.ty(e.variable().type))
        if e.is_object_exp():
            return "(EObj %s %s)" % (self.n(e.object().name), self.ty(e.object().type))
        if e.is_fluent_exp():
            return "(EFluent %s %s %s)" % (self.n(e.fluent().name), self.ty(e.fluent().type),
                                           glist([self.expr(a) for a in e.args]))
        if e.is_exists() or e.is_forall():
            return "(EQuant %s %s %s)" % ("QExists" if e.is_exists() else "QForall",
                                          glist([self.var(v) for v in e.variables()]), self.expr(e.arg(0)))
        if e.is_timing_exp():
            return "(ETiming %s)" % self.timing(e.timing())
        if e.is_present_exp():
            return "(EPresent %s)" % self.n(e.presence().container)
        if e.node_type in ops:
            return "(EOp %s %s)" % (ops[e.node_type], glist([self.expr(a) for a in e.args]))
        raise SerError("expression outside the model: %s" % e)

    def dinterval(self, i):
        return "{| di_lower := %s; di_upper := %s; di_lopen := %s; di_ropen := %s |}" % (
            self.expr(i.lower), self.expr(i.upper), gbool(i.is_left_open()), gbool(i.is_right_open()))

    def effect(self, e):
        kinds = {"ASSIGN": "Assign", "INCREASE": "Increase", "DECREASE": "Decrease"}
        return "{| ef_kind := %s; ef_fluent := %s; ef_value := %s; ef_cond := %s; ef_forall := %s |}" % (
            kinds[e.kind.name], self.expr(e.fluent), self.expr(e.value), self.expr(e.condition),
            glist([self.var(v) for v in e.forall]))

    def metric(self, m):
        from unified_planning.model import metrics as M
        if isinstance(m, M.MinimizeActionCosts):
            costs = sorted(((a.name, c) for a, c in m.costs.items()), key=lambda x: x[0])
            return "(MActionCosts %s %s)" % (glist([gpair(self.n(a), self.expr(c)) for a, c in costs]),
                                             gopt(None if m.default is None else self.expr(m.default)))
        if isinstance(m, M.MinimizeSequentialPlanLength):
            return "MSeqPlanLength"
        if isinstance(m, M.MinimizeMakespan):
            return "MMakespan"
        if isinstance(m, M.MinimizeExpressionOnFinalState):
            return "(MMinExpr %s)" % self.expr(m.expression)
        if isinstance(m, M.MaximizeExpressionOnFinalState):
            return "(MMaxExpr %s)" % self.expr(m.expression)
        if isinstance(m, M.TemporalOversubscription):
            return "(MTemporalOversub %s)" % glist(
                [gpair(gpair(self.tinterval(i), self.expr(g)), gq(w)) for (i, g), w in m.goals.items()])
        if isinstance(m, M.Oversubscription):
            return "(MOversub %s)" % glist([gpair(self.expr(g), gq(w)) for g, w in m.goals.items()])
        raise SerError("metric outside the model: %r" % (m,))

    def env(self, problem):
        return "{| e_utypes := %s; e_objs := %s; e_fluents := %s; e_actions := %s |}" % (
            glist([self.n(t.name) for t in problem.user_types]),
            glist([gpair(self.n(o.name), self.ty(o.type)) for o in problem.all_objects]),
            glist([gpair(self.n(f.name), self.ty(f.type)) for f in problem.fluents]),
            glist([self.n(a.name) for a in problem.actions]))

    # ---- protobuf messages (what the real writer produced)
    @staticmethod
    def tok(s):
        if s == "inf":
            return "TInf"
        if s == "-inf":
            return "TNegInf"
        if re.fullmatch(r"-?\d+", s):
            return "(TInt %s)" % gz(int(s))
        m = re.fullmatch(r"(-?\d+)/(\d+)", s)
        if m and int(m.group(2)) > 0:
            return "(TFrac %s)" % gq_raw(int(m.group(1)), int(m.group(2)))
        raise SerError("bound token outside the model: %r" % s)

    def tystr(self, s):
        if s == "up:bool":
            return "SBool"
        if s == "up:integer":
            return "SInt"
        if s == "up:real":
            return "SReal"
        m = re.fullmatch(r"up:(integer|real)\[([^,\[\]]+), ([^,\[\]]+)\]", s)
        if m:
            return "(%s %s %s)" % ("SIntB" if m.group(1) == "integer" else "SRealB", self.tok(m.group(2)), self.tok(m.group(3)))
        if s.startswith("up:") or s == "":
            raise SerError("type string outside the model: %r" % s)
        return "(SUser %s)" % self.n(s)

    def etype(self, s):
        fixed = {"": "YNone", "up:time": "YTime", "up:container": "YContainer", "up:operator": "YOperator"}
        return fixed[s] if s in fixed else "(YTy %s)" % self.tystr(s)

    def sym(self, s):
        if s in SYMS:
            return SYMS[s]
        if s.startswith("up:"):
            raise SerError("symbol outside the model: %r" % s)
        return "(SName %s)" % self.n(s)

    def real_msg(self, m):
        return gpair(gz(m.numerator), gz(m.denominator))

    def pexpr(self, m):
        if m.HasField("atom"):
            f = m.atom.WhichOneof("content")
            if f == "symbol":
                a = "(ASym %s)" % self.sym(m.atom.symbol)
            elif f == "int":
                a = "(AInt %s)" % gz(m.atom.int)
            elif f == "real":
                a = "(AReal %s %s)" % (gz(m.atom.real.numerator), gz(m.atom.real.denominator))
            elif f == "boolean":
                a = "(ABool %s)" % gbool(m.atom.boolean)
            else:
                raise SerError("atom without content")
            a = "(Some %s)" % a
        else:
            a = "None"
        return "(PE %s %s %s %s)" % (a, glist([self.pexpr(x) for x in m.list]), self.etype(m.type), EKINDS[m.kind])

    def timepoint_msg(self, m):
        return "{| tpm_kind := %s; tpm_container := %s |}" % (gn(m.kind), self.n(m.container_id))

    def timing_msg(self, m):
        return "{| tmm_tp := %s; tmm_delay := %s |}" % (
            self.timepoint_msg(m.timepoint), gopt(self.real_msg(m.delay) if m.HasField("delay") else None))

    def tinterval_msg(self, m):
        return "{| tim_lopen := %s; tim_lower := %s; tim_ropen := %s; tim_upper := %s |}" % (
            gbool(m.is_left_open), self.timing_msg(m.lower), gbool(m.is_right_open), self.timing_msg(m.upper))

    def interval_msg(self, m):
        return "{| im_lopen := %s; im_lower := %s; im_ropen := %s; im_upper := %s |}" % (
            gbool(m.is_left_open), self.pexpr(m.lower), gbool(m.is_right_open), self.pexpr(m.upper))

    def effect_msg(self, m):
        return "{| em_kind := %s; em_fluent := %s; em_value := %s; em_cond := %s; em_forall := %s |}" % (
            gn(m.kind), self.pexpr(m.fluent), self.pexpr(m.value), self.pexpr(m.condition),
            glist([self.pexpr(x) for x in m.forall]))

    def metric_msg(self, m):
        return ("{| mm_kind := %s; mm_expr := %s; mm_costs := %s; mm_default := %s; mm_goals := %s; mm_timed_goals := %s |}" % (
            gn(m.kind), gopt(self.pexpr(m.expression) if m.HasField("expression") else None),
            glist([gpair(self.n(k), self.pexpr(v)) for k, v in sorted(m.action_costs.items(), key=lambda kv: kv[0])]),
            gopt(self.pexpr(m.default_action_cost) if m.HasField("default_action_cost") else None),
            glist([gpair(self.pexpr(g.goal), self.real_msg(g.weight)) for g in m.goals]),
            glist([gpair(gpair(self.pexpr(g.goal), self.tinterval_msg(g.timing)), self.real_msg(g.weight)) for g in m.timed_goals])))


# ---------------------------------------------------------------------------------------------------- the world
INT64_MAX = 2 ** 63 - 1
INT64_MIN = -2 ** 63


class World:
    """A problem with user types, objects, fluents of every numeric shape, actions, variables, parameters."""

    def __init__(self):
        from unified_planning.shortcuts import (UserType, Fluent, BoolType, IntType, RealType, Object, Problem,
                                                InstantaneousAction, DurativeAction, Variable)
        p = Problem("c20")
        self.p = p
        self.em = p.environment.expression_manager
        T = UserType("T")
        T2 = UserType("T2", T)
        U = UserType("U")
        self.T, self.T2, self.U = T, T2, U
        self.objs = {"T": [Object("o1", T), Object("o2", T2), Object("o3", T)], "T2": [Object("o2", T2)], "U": [Object("u1", U)]}
        p.add_objects([Object("o1", T), Object("o2", T2), Object("o3", T), Object("u1", U)])
        self.objs = {"T": [p.object("o1"), p.object("o2"), p.object("o3")], "T2": [p.object("o2")], "U": [p.object("u1")]}
        fl = {}
        fl["b0"] = Fluent("b0")
        fl["b1"] = Fluent("b1", BoolType(), x=T)
        fl["b2"] = Fluent("b2", BoolType(), x=T2, y=U)
        fl["i0"] = Fluent("i0", IntType())
        fl["i1"] = Fluent("i1", IntType(0, None), x=T)
        fl["i2"] = Fluent("i2", IntType(None, 5))
        fl["i3"] = Fluent("i3", IntType(-3, 7))
        fl["r0"] = Fluent("r0", RealType())
        fl["r1"] = Fluent("r1", RealType(0, None))
        fl["r2"] = Fluent("r2", RealType(None, Fraction(7, 2)), x=U)
        fl["r3"] = Fluent("r3", RealType(Fraction(-10, 3), Fraction(10 ** 17, 7)))
        fl["loc"] = Fluent("loc", T, x=T2)
        for f in fl.values():
            p.add_fluent(f)
        self.fl = fl
        a1 = InstantaneousAction("a1", p=T, k=IntType(0, 10), q=T2)
        a2 = InstantaneousAction("a2")
        a3 = DurativeAction("a3", u=U, r=RealType(None, 0))
        for a in (a1, a2, a3):
            p.add_action(a)
        self.actions = [a1, a2, a3]
        self.params = {"T": [a1.parameter("p")], "T2": [a1.parameter("q")], "U": [a3.parameter("u")],
                       "num": [a1.parameter("k"), a3.parameter("r")]}
        self.vars = {"T": [Variable("v", T), Variable("v3", T)], "T2": [Variable("v2", T2)], "U": [Variable("w", U)]}
        self.containers = ["a1", "a3", "st1"]


def rand_int(rng):
    r = rng.random()
    if r < 0.5:
        return rng.randint(-20, 20)
    if r < 0.7:
        return rng.choice([INT64_MAX, INT64_MIN, 2 ** 62, -2 ** 62 + 1, 10 ** 18, -10 ** 18])
    return rng.randint(-10 ** 15, 10 ** 15)


def rand_frac(rng, positive=False):
    r = rng.random()
    if r < 0.45:
        n, d = rng.randint(-30, 30), rng.randint(1, 12)
    elif r < 0.65:
        n, d = rng.choice([INT64_MAX, INT64_MIN + 1, 10 ** 18 + 1, -(10 ** 17) - 3]), rng.choice([1, 2, 3, 7, 10 ** 9 + 7, INT64_MAX])
    else:
        n, d = rng.randint(-10 ** 15, 10 ** 15), rng.randint(1, 10 ** 12)
    f = Fraction(n, d)
    return abs(f) if positive else f


def rand_frac_mid(rng, positive=False):
    """Large and negative rationals that still leave head-room below int64 after a little arithmetic."""
    r = rng.random()
    if r < 0.5:
        n, d = rng.randint(-30, 30), rng.randint(1, 12)
    elif r < 0.8:
        n, d = rng.randint(-10 ** 15, 10 ** 15), rng.randint(1, 999)
    else:
        n, d = rng.choice([10 ** 17 + 1, -(10 ** 17) - 3, 2 ** 60 + 1]), rng.choice([1, 3, 7])
    f = Fraction(n, d)
    return abs(f) if positive else f


def rand_int_mid(rng):
    return rng.choice([rng.randint(-20, 20), rng.randint(-10 ** 15, 10 ** 15), 2 ** 62, -2 ** 62])


class ExprGen:
    def __init__(self, rng, W):
        self.rng, self.W, self.em = rng, W, W.em

    def obj(self, tn, bound):
        W, rng = self.W, self.rng
        pool = [self.em.ObjectExp(o) for o in W.objs[tn]]
        pool += [self.em.ParameterExp(q) for q in W.params.get(tn, [])]
        pool += [self.em.VariableExp(v) for v in bound if v.type.name == tn or (tn == "T" and v.type.name == "T2")]
        if tn == "T" and rng.random() < 0.3:
            pool.append(W.fl["loc"](self.obj("T2", bound)))
        return rng.choice(pool)

    def timing(self):
        from unified_planning.model.timing import Timing, Timepoint, TimepointKind
        rng = self.rng
        kind = rng.choice(list(TimepointKind))
        cont = rng.choice([None, None] + self.W.containers) if kind in (TimepointKind.START, TimepointKind.END) else None
        r = rng.random()
        delay = 0 if r < 0.3 else (rng.randint(-9, 9) if r < 0.55 else (rand_int(rng) if r < 0.65 else rand_frac(rng)))
        return Timing(delay, Timepoint(kind, cont))

    def numeric(self, d, bound):
        W, rng, em = self.W, self.rng, self.em
        r = rng.random()
        if d <= 0 or r < 0.35:
            c = rng.random()
            if c < 0.25:
                return em.Int(rand_int(rng))
            if c < 0.5:
                return em.Real(rand_frac(rng))
            if c < 0.6:
                return em.ParameterExp(rng.choice(W.params["num"]))
            f = rng.choice(["i0", "i1", "i2", "i3", "r0", "r1", "r2", "r3"])
            if f == "i1":
                return W.fl[f](self.obj("T", bound))
            if f == "r2":
                return W.fl[f](self.obj("U", bound))
            return W.fl[f]()
        op = rng.choice(["plus", "minus", "times", "div"])
        a, b = self.numeric(d - 1, bound), self.numeric(d - 1, bound)
        if op == "plus":
            return em.Plus(a, b, self.numeric(d - 2, bound)) if rng.random() < 0.3 else em.Plus(a, b)
        if op == "minus":
            return em.Minus(a, b)
        if op == "times":
            return em.Times(a, b)
        return em.Div(a, em.Real(rand_frac(rng, positive=True) + 1))

    def boolean(self, d, bound=()):
        W, rng, em = self.W, self.rng, self.em
        from unified_planning.model import Presence
        r = rng.random()
        if d <= 0 or r < 0.2:
            c = rng.random()
            if c < 0.1:
                return em.TRUE() if rng.random() < 0.5 else em.FALSE()
            if c < 0.35:
                return W.fl["b0"]()
            if c < 0.65:
                return W.fl["b1"](self.obj("T", bound))
            if c < 0.9:
                return W.fl["b2"](self.obj("T2", bound), self.obj("U", bound))
            return em.PresentExp(Presence(rng.choice(W.containers)))
        k = rng.choice(["not", "and", "or", "implies", "iff", "le", "lt", "eqn", "eqo", "exists", "forall", "tle"])
        if k == "not":
            return em.Not(self.boolean(d - 1, bound))
        if k in ("and", "or"):
            args = [self.boolean(d - 1, bound) for _ in range(rng.randint(2, 3))]
            return em.And(*args) if k == "and" else em.Or(*args)
        if k == "implies":
            return em.Implies(self.boolean(d - 1, bound), self.boolean(d - 1, bound))
        if k == "iff":
            return em.Iff(self.boolean(d - 1, bound), self.boolean(d - 1, bound))
        if k in ("le", "lt", "eqn"):
            a, b = self.numeric(d - 1, bound), self.numeric(d - 1, bound)
            return {"le": em.LE, "lt": em.LT, "eqn": em.Equals}[k](a, b)
        if k == "eqo":
            tn = rng.choice(["T", "U"])
            return em.Equals(self.obj(tn, bound), self.obj(tn, bound))
        if k == "tle":
            a, b = em.TimingExp(self.timing()), em.TimingExp(self.timing())
            return em.LE(a, b) if rng.random() < 0.5 else em.LT(a, b)
        tn = rng.choice(["T", "T2", "U"])
        vs = [v for v in W.vars[tn] if v not in bound]
        if not vs:
            return self.boolean(d - 1, bound)
        vs = vs[:rng.randint(1, len(vs))]
        if rng.random() < 0.3:
            other = [v for v in W.vars[rng.choice(["T", "U"])] if v not in bound and v not in vs]
            vs = vs + other[:1]
        body = self.boolean(d - 1, tuple(bound) + tuple(vs))
        return em.Exists(body, *vs) if k == "exists" else em.Forall(body, *vs)


def copy_msg(m):
    c = type(m)()
    c.CopyFrom(m)
    return c


# ---------------------------------------------------------------------------------------------------- the check
def run(ctx):
    warnings.filterwarnings("ignore")
    import time
    t0 = time.time()
    ok_proofs = ctx.check_props(extra=["theories/Corr/Corr_C20.v"])
    t1 = time.time()
    cases, raw, stats = component_cases(ctx)
    t2 = time.time()
    bad = ctx.coq_failing(cases, "ok", imports=IMPORTS, shard=500)
    t3 = time.time()
    for rank, i in enumerate(bad):
        c = raw[i]
        # the model's verdict is re-evaluated (one coqc run each) only for the first few failing cases
        view = (ctx.coq_show("model_view c", imports=IMPORTS, preamble="Definition c := %s.\n" % cases[i])
                if rank < 3 else "not evaluated (only for the first 3 failing cases of a run)")
        ctx.fail("corr", "protobuf %s codec: implementation and model disagree, or the round trip is lossy "
                         "(corr:C20:%s; model_view = (encoding agrees, decoding agrees, read == original))" % (c["kind"], c["kind"]),
                 ["component", c["kind"]] + c["tags"],
                 {"case": c, "gallina": cases[i][:6000], "model_view": view,
                  "theorem_or_corr": "corr:C20:%s" % c["kind"]}, c["property_fails"])
    whole = whole_objects(ctx)
    t4 = time.time()
    hist = history_objects(ctx)
    whole["objects"] += hist["objects"]
    whole["stats"]["histories"] = hist["stats"]
    stats["seconds_histories"] = round(time.time() - t4, 1)
    stats["seconds"] = {"proofs": round(t1 - t0, 1), "component_generation": round(t2 - t1, 1),
                        "coq_correspondence": round(t3 - t2, 1), "whole_objects": round(t4 - t3, 1)}
    if not ok_proofs:
        ctx.proof_broken()
    distinct = len(set(c for c, r in zip(cases, raw) if r["nontrivial"]))
    ctx.finish({
        "evaluations": len(cases) + whole["objects"],
        "distinct_nontrivial": distinct + whole["distinct"],
        "rule": "component cases: distinct Gallina case terms, not counting unbounded/bool types, bare constants and "
                "delay-free container-free timings; whole objects: distinct (class, repr) of objects the writer accepted",
        "samples": [dict(raw[i], gallina=cases[i][:400]) for i in range(0, len(raw), max(1, len(raw) // 4))][:4] + whole["samples"][:2],
        "distribution": {"components": stats, "whole_objects": whole["stats"]},
        "component_cases": len(cases),
        "whole_objects_validated": whole["objects"],
    }, "proof", assumptions=[
        "identifiers are interned as numbers; user identifiers do not start with 'up:' and do not contain 'up:integer['/'up:real['",
        "values outside int64 are rejected by the writer (protobuf ValueError): outside the property",
        "dict-valued fields (action costs) are compared as sorted association lists",
        "whole messages are validated on generated inputs, not proved",
        "CompilerResult equality is extensional (its fields are callables)",
    ])


def component_cases(ctx):
    import unified_planning as up
    from unified_planning.shortcuts import IntType, RealType, BoolType, UserType
    from unified_planning.model import Effect, EffectKind, metrics as M
    from unified_planning.model.timing import (Timing, Timepoint, TimepointKind, TimeInterval, DurationInterval)
    from unified_planning.grpc.proto_reader import ProtobufReader, convert_type_str
    from unified_planning.grpc.proto_writer import ProtobufWriter, proto_type
    import unified_planning.grpc.generated.unified_planning_pb2 as proto

    rng = ctx.rng
    W = World()
    p = W.p
    G = ExprGen(rng, W)
    w, r = ProtobufWriter(), ProtobufReader()
    scale = 1 if ctx.quick else 12
    cases, raw = [], []
    stats = {}

    def bump(k, n=1):
        stats[k] = stats.get(k, 0) + n

    def add(kind, tags, nontrivial, build, x, desc=None):
        """build(S, written, read) -> Gallina case; runs the real writer and reader on x."""
        S = Ser()
        try:
            written, reader = build["write"](x), build["read"]
        except Exception as e:  # the writer does not accept x: outside the property
            bump("writer_rejected:" + kind)
            return
        try:
            wtxt = build["wser"](S, written)
        except SerError as e:
            ctx.fail("corr", "C20 %s: writer output outside the model's vocabulary: %s" % (kind, e),
                     ["component", kind, "ser-error"], {"input": str(x)}, False)
            return
        try:
            back = reader(copy_msg(written) if hasattr(written, "CopyFrom") else written)
            err = None
        except Exception as e:
            back, err = None, "%s: %s" % (type(e).__name__, str(e)[:200])
        pyok = err is None and back == x
        try:
            rtxt = gopt(None if err is not None else build["oser"](S, back))
            xtxt = build["oser"](S, x)
        except SerError as e:
            ctx.fail("corr", "C20 %s: object outside the model's vocabulary: %s" % (kind, e),
                     ["component", kind, "ser-error"], {"input": str(x)}, not pyok)
            return
        cases.append(build["case"](S, xtxt, wtxt, rtxt, x))
        raw.append({"kind": kind, "tags": tags, "input": desc or str(x), "read_back": str(back) if err is None else err,
                    "python_eq": pyok, "property_fails": not pyok, "nontrivial": nontrivial})
        bump(kind)
        for t in tags:
            bump(kind + ":" + t)

    # ---------------- numbers (proto.Real)
    real_b = {"write": lambda q: w.convert(q), "read": lambda m: r.convert(m),
              "wser": lambda S, m: S.real_msg(m), "oser": lambda S, q: gq(q),
              "case": lambda S, x, wt, rt, _o: "CReal %s %s %s" % (x, wt, rt)}
    fr_pool = [Fraction(0), Fraction(1), Fraction(-1), Fraction(INT64_MAX), Fraction(INT64_MIN), Fraction(1, INT64_MAX),
               Fraction(INT64_MIN, INT64_MAX), Fraction(-7, 2), Fraction(10 ** 18 + 1, 10 ** 18)]
    for q in fr_pool + [rand_frac(rng) for _ in range(40 * scale)]:
        add("real", ["negative"] if q < 0 else ["nonnegative"], q.denominator != 1 or abs(q) > 1, real_b, q)
    # beyond int64 the writer must refuse (never silently truncate)
    for q in (Fraction(2 ** 63), Fraction(1, 2 ** 63), Fraction(-2 ** 63 - 1, 3)):
        try:
            m = w.convert(q)
            if r.convert(m) != q:
                ctx.fail("oracle", "C20 real: out-of-int64 fraction written and read back differently", ["component", "real", "int64"],
                         {"input": str(q), "read": str(r.convert(m))}, True)
        except Exception:
            bump("writer_rejected:real-int64")

    # ---------------- types
    tm = p.environment.type_manager
    type_b = {"write": lambda t: proto_type(t), "read": lambda s: convert_type_str(s, p),
              "wser": lambda S, s: S.tystr(s), "oser": lambda S, t: S.ty(t),
              "case": lambda S, x, wt, rt, _o: "CType %s %s %s %s" % (S.env(p), x, wt, rt)}

    def decl_father(t):
        return t.father.name if t.is_user_type() and t.father is not None else None
    decl_b = {"write": lambda t: w.convert(t), "read": lambda m: r.convert(m, p),
              "wser": lambda S, m: "{| td_name := %s; td_parent := %s |}" % (S.tystr(m.type_name), S.n(m.parent_type)),
              "oser": lambda S, t: gpair(S.ty(t), S.optn(decl_father(t))),
              "case": lambda S, x, wt, rt, t: "CTypeDecl %s %s %s %s %s" % (S.env(p), S.ty(t), S.optn(decl_father(t)), wt, rt)}
    types = [BoolType(), IntType(), RealType(), W.T, W.T2, W.U]
    for _ in range(45 * scale):
        lo, hi = sorted([rand_int(rng), rand_int(rng)])
        types += [tm.IntType(lo, hi), tm.IntType(lo, None), tm.IntType(None, hi)]
        flo, fhi = sorted([rand_frac(rng), rand_frac(rng)])
        types += [tm.RealType(flo, fhi), tm.RealType(flo, None), tm.RealType(None, fhi)]
    types += [tm.RealType(Fraction(0), None), tm.RealType(None, Fraction(0)), tm.RealType(Fraction(4, 2), Fraction(9, 3)),
              tm.IntType(0, None), tm.IntType(None, 0), tm.IntType(INT64_MIN, INT64_MAX)]
    for t in types:
        shape = []
        if t.is_int_type() or t.is_real_type():
            shape = [("int" if t.is_int_type() else "real") + "[" + ("-inf" if t.lower_bound is None else "fin") + ","
                     + ("inf" if t.upper_bound is None else "fin") + "]"]
        nontriv = bool(shape) and not (t.lower_bound is None and t.upper_bound is None)
        add("type", shape, nontriv, type_b, t)
        add("typedecl", shape, nontriv, decl_b, t)

    # ---------------- expressions
    expr_b = {"write": lambda e: w.convert(e), "read": lambda m: r.convert(m, p),
              "wser": lambda S, m: S.pexpr(m), "oser": lambda S, e: S.expr(e),
              "case": lambda S, x, wt, rt, _o: "CExpr %s %s %s %s" % (S.env(p), x, wt, rt)}
    em = W.em
    n_expr = 0
    for i in range(260 * scale):
        try:
            r0 = rng.random()
            if r0 < 0.55:
                e = G.boolean(rng.randint(1, 4))
            elif r0 < 0.75:
                e = G.numeric(rng.randint(0, 3), ())
            elif r0 < 0.85:
                e = em.TimingExp(G.timing())
            elif r0 < 0.9:
                e = G.obj(rng.choice(["T", "T2", "U"]), ())
            else:
                k = rng.choice(["always", "sometime", "amo", "sb", "sa"])
                a, b = G.boolean(2), G.boolean(2)
                e = {"always": lambda: em.Always(a), "sometime": lambda: em.Sometime(a), "amo": lambda: em.AtMostOnce(a),
                     "sb": lambda: em.SometimeBefore(a, b), "sa": lambda: em.SometimeAfter(a, b)}[k]()
        except up.exceptions.UPTypeError:
            bump("expr_gen_type_error")
            continue
        tags = sorted(set(expr_tags(e)))
        add("expr", tags, len(e.args) > 0 or e.is_timing_exp(), expr_b, e)
        n_expr += 1

    # ---------------- timings / intervals
    timing_b = {"write": lambda t: w.convert(t), "read": lambda m: r.convert(m),
                "wser": lambda S, m: S.timing_msg(m), "oser": lambda S, t: S.timing(t),
                "case": lambda S, x, wt, rt, _o: "CTiming %s %s %s" % (x, wt, rt)}
    interval_b = {"write": lambda t: w.convert(t), "read": lambda m: r.convert(m),
                  "wser": lambda S, m: S.tinterval_msg(m), "oser": lambda S, t: S.tinterval(t),
                  "case": lambda S, x, wt, rt, _o: "CInterval %s %s %s" % (x, wt, rt)}
    timings = []
    for kind in TimepointKind:
        for cont in (None, "a1"):
            for delay in (0, 5, -3, Fraction(1, 5), Fraction(-10 ** 15, 7)):
                timings.append(Timing(delay, Timepoint(kind, cont)))
    timings += [G.timing() for _ in range(60 * scale)]
    for t in timings:
        tags = [t.timepoint.kind.name, "container" if t.timepoint.container else "no-container",
                "delay0" if t.delay == 0 else ("int-delay" if isinstance(t.delay, int) else "frac-delay")]
        add("timing", tags, t.delay != 0 or t.timepoint.container is not None, timing_b, t)
    for lo, ro in itertools.product([False, True], repeat=2):
        for _ in range(25 * scale):
            i = TimeInterval(G.timing(), G.timing(), lo, ro)
            add("interval", ["%s%s" % ("(" if lo else "[", ")" if ro else "]")], True, interval_b, i)

    # ---------------- duration intervals
    dur_b = {"write": lambda d: w.convert(d).controllable_in_bounds,
             "read": lambda m: r.convert(proto.Duration(controllable_in_bounds=m), p),
             "wser": lambda S, m: S.interval_msg(m), "oser": lambda S, d: S.dinterval(d),
             "case": lambda S, x, wt, rt, _o: "CDuration %s %s %s %s" % (S.env(p), x, wt, rt)}
    for lo, ro in itertools.product([False, True], repeat=2):
        for _ in range(20 * scale):
            d = DurationInterval(G.numeric(rng.randint(0, 2), ()), G.numeric(rng.randint(0, 2), ()), lo, ro)
            add("duration", ["%s%s" % ("(" if lo else "[", ")" if ro else "]")], True, dur_b, d)

    # ---------------- effects
    eff_b = {"write": lambda e: w.convert(e), "read": lambda m: r.convert(m, p),
             "wser": lambda S, m: S.effect_msg(m), "oser": lambda S, e: S.effect(e),
             "case": lambda S, x, wt, rt, _o: "CEffect %s %s %s %s" % (S.env(p), x, wt, rt)}
    for i in range(130 * scale):
        try:
            bound = ()
            fa = []
            if rng.random() < 0.4:
                fa = [rng.choice(W.vars["T"])] + ([W.vars["U"][0]] if rng.random() < 0.4 else [])
                bound = tuple(fa)
            kind = rng.choice([EffectKind.ASSIGN, EffectKind.ASSIGN, EffectKind.INCREASE, EffectKind.DECREASE])
            if kind == EffectKind.ASSIGN and rng.random() < 0.5:
                f = rng.choice([W.fl["b0"](), W.fl["b1"](G.obj("T", bound)), W.fl["b2"](G.obj("T2", ()), G.obj("U", bound))])
                v = G.boolean(rng.randint(0, 1), bound) if rng.random() < 0.3 else rng.choice([em.TRUE(), em.FALSE()])
            elif kind == EffectKind.ASSIGN and rng.random() < 0.3:
                f, v = W.fl["loc"](G.obj("T2", ())), G.obj("T", bound)
            else:
                f = rng.choice([W.fl["i0"](), W.fl["i1"](G.obj("T", bound)), W.fl["r0"](), W.fl["r1"](), W.fl["r2"](G.obj("U", bound)), W.fl["r3"]()])
                v = G.numeric(rng.randint(0, 2), bound)
            c = em.TRUE() if rng.random() < 0.4 else G.boolean(rng.randint(0, 2), bound)
            e = Effect(f, v, c, kind, fa)
        except (up.exceptions.UPTypeError, up.exceptions.UPUnboundedVariablesError, up.exceptions.UPProblemDefinitionError):
            bump("effect_gen_error")
            continue
        add("effect", [kind.name, "conditional" if e.is_conditional() else "unconditional", "forall%d" % len(e.forall)], True, eff_b, e)

    # ---------------- metrics
    met_b = {"write": lambda m: w.convert(m), "read": lambda m: r.convert(m, p),
             "wser": lambda S, m: S.metric_msg(m), "oser": lambda S, m: S.metric(m),
             "case": lambda S, x, wt, rt, _o: "CMetric %s %s %s %s" % (S.env(p), x, wt, rt)}
    env = p.environment
    for i in range(70 * scale):
        k = i % 7
        try:
            if k == 0:
                acts = rng.sample(W.actions, rng.randint(0, 3))
                costs = {a: (em.Int(rng.randint(0, 9)) if rng.random() < 0.5 else G.numeric(1, ())) for a in acts}
                m = M.MinimizeActionCosts(costs, default=rng.choice([None, em.Int(1), em.Real(Fraction(1, 2))]), environment=env)
            elif k == 1:
                m = M.MinimizeSequentialPlanLength(environment=env)
            elif k == 2:
                m = M.MinimizeMakespan(environment=env)
            elif k == 3:
                m = M.MinimizeExpressionOnFinalState(G.numeric(2, ()), environment=env)
            elif k == 4:
                m = M.MaximizeExpressionOnFinalState(G.numeric(2, ()), environment=env)
            elif k == 5:
                m = M.Oversubscription({G.boolean(2): rng.choice([rand_frac(rng), rng.randint(-5, 50)]) for _ in range(rng.randint(1, 4))}, environment=env)
            else:
                m = M.TemporalOversubscription(
                    {(TimeInterval(G.timing(), G.timing(), rng.random() < 0.5, rng.random() < 0.5), G.boolean(2)):
                     rng.choice([rand_frac(rng), rng.randint(-5, 50)]) for _ in range(rng.randint(1, 3))}, environment=env)
        except (up.exceptions.UPTypeError, up.exceptions.UPUsageError, AssertionError):
            bump("metric_gen_error")
            continue
        add("metric", [type(m).__name__], k not in (1, 2), met_b, m)

    # ---------------- open finding C20-F1 at component level: "" container through the Timepoint message
    t = Timing(Fraction(3, 2), Timepoint(TimepointKind.START, ""))
    try:
        back = r.convert(w.convert(t))
        if back != t:
            collapse = back == Timing(Fraction(3, 2), Timepoint(TimepointKind.START, None))
            ctx.fail("oracle", "C20 timing: an empty-string container written through proto.Timepoint is read back as None "
                               "(theorem C20_timepoint_codec_without_wf_refuted)" if collapse else
                     "C20 timing: empty-string container read back wrongly",
                     ["component", "timing", "timepoint-container"] + (["proto3-default-collapse"] if collapse else []),
                     {"input": repr(t), "read_back": repr(back)}, True)
    except Exception as e:
        ctx.fail("oracle", "C20 timing with empty container: reader raised %r" % (e,), ["component", "timing"], {"input": repr(t)}, True)
    return cases, raw, stats


def expr_tags(e):
    out = []
    stack = [e]
    while stack:
        x = stack.pop()
        out.append(x.node_type.name)
        if x.is_timing_exp():
            t = x.timing()
            out.append("timing:" + t.timepoint.kind.name)
            out.append("timing:delay" if t.delay != 0 else "timing:nodelay")
        stack.extend(x.args)
    return out


# ---------------------------------------------------------------------------------------------------- whole objects
def gen_problem(rng, idx):
    """A random problem exercising half-bounded numeric fluents, big/negative rationals, all interval and timing forms."""
    import unified_planning as up
    from unified_planning.shortcuts import (UserType, Fluent, BoolType, IntType, RealType, Object, Problem,
                                            InstantaneousAction, DurativeAction, Variable, StartTiming, EndTiming,
                                            GlobalStartTiming, GlobalEndTiming, TimeInterval, Not, And, Or, LE, GE, LT, Equals, Plus,
                                            Minus, Times, Forall, Exists, Always, Sometime, AtMostOnce, SometimeBefore,
                                            MinimizeActionCosts, MinimizeSequentialPlanLength, MinimizeMakespan,
                                            MinimizeExpressionOnFinalState, MaximizeExpressionOnFinalState, Oversubscription,
                                            TemporalOversubscription, Int, Real)
    from unified_planning.model.timing import DurationInterval
    temporal = idx % 2 == 1
    p = Problem(None if idx % 7 == 3 else "gen%d" % idx)
    T = UserType("T")
    T2 = UserType("T2", T)
    objs = [Object("o%d" % i, T if i % 2 == 0 else T2) for i in range(rng.randint(1, 4))]
    p.add_objects(objs)
    bfl = [Fluent("b0"), Fluent("b1", BoolType(), x=T)]
    lo, hi = sorted([rand_int_mid(rng), rand_int_mid(rng)])
    flo, fhi = sorted([rand_frac_mid(rng), rand_frac_mid(rng)])
    shapes = [IntType(), IntType(lo, None), IntType(None, hi), IntType(lo, hi), RealType(), RealType(flo, None),
              RealType(None, fhi), RealType(flo, fhi)]
    rng.shuffle(shapes)
    nfl = []
    for i, t in enumerate(shapes[:rng.randint(2, 6)]):
        nfl.append(Fluent("n%d" % i, t) if rng.random() < 0.6 else Fluent("n%d" % i, t, x=T))
    ufl = Fluent("at", T, x=T2)

    def in_type(t):
        if t.is_int_type():
            a = t.lower_bound if t.lower_bound is not None else (t.upper_bound - 5 if t.upper_bound is not None else rand_int_mid(rng))
            return a
        a = t.lower_bound if t.lower_bound is not None else (t.upper_bound - Fraction(1, 3) if t.upper_bound is not None else rand_frac_mid(rng))
        return a
    for f in bfl:
        p.add_fluent(f, default_initial_value=rng.choice([None, False, True]))
    for f in nfl:
        p.add_fluent(f, default_initial_value=in_type(f.type) if rng.random() < 0.7 else None)
    p.add_fluent(ufl, default_initial_value=objs[0])

    def fexp(f, params):
        if f.arity == 0:
            return f()
        return f(rng.choice(params))
    for f in bfl + nfl:
        if rng.random() < 0.5:
            try:
                if f.arity == 0:
                    p.set_initial_value(f(), in_type(f.type) if not f.type.is_bool_type() else True)
                else:
                    p.set_initial_value(f(objs[0]), in_type(f.type) if not f.type.is_bool_type() else True)
            except Exception:
                pass
    v = Variable("v", T)

    def cond(params):
        c = rng.random()
        b = fexp(rng.choice(bfl), params)
        n = fexp(rng.choice(nfl), params)
        if c < 0.25:
            return b
        if c < 0.45:
            return Not(b)
        if c < 0.7:
            return rng.choice([LE, LT, GE, Equals])(n, rng.choice([rand_int_mid(rng), rand_frac_mid(rng)]))
        if c < 0.8:
            return Or(b, LE(Plus(n, Fraction(1, 3)), Times(n, 2)))
        if c < 0.9:
            return Exists(And(bfl[1](v), Not(Equals(v, params[0]))), v)
        return Forall(Or(bfl[1](v), b), v)

    def add_effects(a, params, timing=None):
        for _ in range(rng.randint(1, 3)):
            pre = (timing,) if timing is not None else ()
            c = rng.random()
            try:
                if c < 0.35:
                    f = rng.choice(bfl)
                    a.add_effect(*pre, fexp(f, params), rng.choice([True, False]), condition=cond(params) if rng.random() < 0.3 else True)
                elif c < 0.5:
                    a.add_effect(*pre, bfl[1](v), True, condition=Not(Equals(v, params[0])), forall=[v])
                elif c < 0.7:
                    f = rng.choice(nfl)
                    a.add_effect(*pre, fexp(f, params), in_type(f.type))
                elif c < 0.85:
                    f = rng.choice(nfl)
                    a.add_increase_effect(*pre, fexp(f, params), rng.choice([1, Fraction(1, 3), rand_frac_mid(rng, True)]))
                else:
                    f = rng.choice(nfl)
                    a.add_decrease_effect(*pre, fexp(f, params), rng.choice([2, Fraction(5, 7)]), condition=cond(params))
            except (up.exceptions.UPException, AssertionError):
                pass
    for i in range(rng.randint(1, 3)):
        a = InstantaneousAction("act%d" % i, x=T, k=IntType(0, 3)) if rng.random() < 0.7 else InstantaneousAction("act%d" % i, x=T2)
        params = [a.parameter("x")] + objs
        for _ in range(rng.randint(0, 2)):
            a.add_precondition(cond(params))
        add_effects(a, params)
        p.add_action(a)
    if temporal:
        def timing():
            base = rng.choice([StartTiming, EndTiming])
            d = rng.choice([0, 0, 1, Fraction(1, 3), rand_frac_mid(rng, True)])
            return base() + d if base is StartTiming else base() - d
        for i in range(rng.randint(1, 3)):
            d = DurativeAction("dur%d" % i, x=T)
            params = [d.parameter("x")] + objs
            lo_, hi_ = sorted([rand_frac_mid(rng, True), rand_frac_mid(rng, True)])
            lo_b = rng.choice([Int(rng.randint(0, 3)), Real(min(lo_, Fraction(7, 2))), Plus(fexp(nfl[0], params), 1)])
            hi_b = rng.choice([Int(rng.randint(4, 9)), Real(hi_ + 4)])
            d.set_duration_constraint(DurationInterval(lo_b, hi_b, rng.random() < 0.5, rng.random() < 0.5))
            for _ in range(rng.randint(1, 3)):
                if rng.random() < 0.5:
                    d.add_condition(timing(), cond(params))
                else:
                    d.add_condition(TimeInterval(StartTiming() + rng.choice([0, Fraction(1, 7)]), EndTiming() - rng.choice([0, 1]),
                                                 rng.random() < 0.5, rng.random() < 0.5), cond(params))
            add_effects(d, params, timing=timing())
            add_effects(d, params, timing=EndTiming())
            p.add_action(d)
        for _ in range(rng.randint(0, 2)):
            try:
                p.add_timed_effect(GlobalStartTiming() + rng.choice([1, Fraction(7, 3), rand_frac_mid(rng, True)]), bfl[0](), rng.choice([True, False]))
            except up.exceptions.UPException:
                pass
        for _ in range(rng.randint(0, 2)):
            a_, b_ = sorted([rand_frac_mid(rng, True), rand_frac_mid(rng, True) + 1])
            try:
                p.add_timed_goal(TimeInterval(GlobalStartTiming() + a_, GlobalStartTiming() + b_, rng.random() < 0.5, rng.random() < 0.5), cond(objs))
            except up.exceptions.UPException:
                pass
        if rng.random() < 0.5:
            p.add_timed_goal(GlobalEndTiming(), bfl[0]())
        if rng.random() < 0.5:
            p.epsilon = rng.choice([Fraction(1, 100), Fraction(3, 7), 2])
            p.self_overlapping = rng.random() < 0.5
            p.discrete_time = rng.random() < 0.3
    else:
        for _ in range(rng.randint(0, 2)):
            tc = rng.choice([lambda: Always(cond(objs)), lambda: Sometime(cond(objs)), lambda: AtMostOnce(bfl[0]()),
                             lambda: SometimeBefore(bfl[0](), cond(objs))])
            try:
                p.add_trajectory_constraint(tc())
            except (up.exceptions.UPException, AssertionError):
                pass
    for _ in range(rng.randint(1, 3)):
        p.add_goal(cond(objs))
    acts = list(p.actions)
    mk = rng.randrange(8)
    try:
        if mk == 0:
            p.add_quality_metric(MinimizeActionCosts({a: Int(rng.randint(0, 5)) for a in acts[:rng.randint(0, len(acts))] if not temporal or True},
                                                     default=rng.choice([None, Int(1), Real(Fraction(2, 3))])))
        elif mk == 1 and not temporal:
            p.add_quality_metric(MinimizeSequentialPlanLength())
        elif mk == 2 and temporal:
            p.add_quality_metric(MinimizeMakespan())
        elif mk == 3:
            p.add_quality_metric(MinimizeExpressionOnFinalState(Plus(fexp(nfl[0], objs), rand_frac_mid(rng))))
        elif mk == 4:
            p.add_quality_metric(MaximizeExpressionOnFinalState(Minus(fexp(nfl[0], objs), 3)))
        elif mk == 5:
            p.add_quality_metric(Oversubscription({cond(objs): rand_frac_mid(rng), bfl[0](): 7}))
        elif mk == 6 and temporal:
            p.add_quality_metric(TemporalOversubscription({(TimeInterval(GlobalStartTiming() + 1, GlobalStartTiming() + Fraction(9, 2), True, False), bfl[0]()): Fraction(5, 2)}))
    except (up.exceptions.UPException, AssertionError):
        pass
    return p


def gen_plans(rng, p):
    from unified_planning.plans import SequentialPlan, TimeTriggeredPlan, ActionInstance
    from unified_planning.model import DurativeAction
    from unified_planning.model.types import domain_size, domain_item
    em = p.environment.expression_manager

    def inst(a):
        ps = []
        for q in a.parameters:
            if q.type.is_user_type() or q.type.is_int_type():
                ps.append(domain_item(p, q.type, rng.randrange(domain_size(p, q.type))))
            else:
                ps.append(em.Real(rand_frac(rng)))
        return ActionInstance(a, tuple(ps))
    acts = [a for a in p.actions
            if all(not (q.type.is_user_type() or q.type.is_int_type()) or domain_size(p, q.type) > 0 for q in a.parameters)]
    out = []
    if not acts:
        return out
    inst_acts = [a for a in acts if not isinstance(a, DurativeAction)]
    if inst_acts:
        out.append(SequentialPlan([inst(rng.choice(inst_acts)) for _ in range(rng.randint(1, 5))]))
    tt = []
    for _ in range(rng.randint(1, 5)):
        a = rng.choice(acts)
        dur = None if not isinstance(a, DurativeAction) else rng.choice([Fraction(0), Fraction(1), rand_frac(rng, True), Fraction(10 ** 12 + 1, 7)])
        tt.append((rand_frac(rng, True), inst(a), dur))
    out.append(TimeTriggeredPlan(tt))
    return out


def gen_sched(rng, i):
    """A scheduling problem with half-bounded fluents, rational durations/timings, optional activities, scoped
    constraints, problem-level conditions/effects; plus a (not necessarily valid) Schedule for it."""
    from unified_planning.shortcuts import (UserType, RealType, IntType, Not, LE, LT, Or, Equals, TimeInterval,
                                            GlobalStartTiming, MinimizeMakespan)
    from unified_planning.model.scheduling import SchedulingProblem
    from unified_planning.plans import Schedule
    pb = SchedulingProblem("s%d" % i)
    T = UserType("M")
    ms = [pb.add_object("m%d" % j, T) for j in range(rng.randint(1, 3))]
    res = pb.add_resource("res", capacity=rng.randint(1, 4))
    lvl = pb.add_fluent("lvl", RealType(0, None) if rng.random() < 0.5 else RealType(None, rand_frac(rng, True) + 200),
                        default_initial_value=Fraction(7, 2))
    cnt = pb.add_fluent("cnt", IntType(None, 10) if rng.random() < 0.5 else IntType(-4, None), m=T, default_initial_value=0)
    busy = pb.add_fluent("busy", default_initial_value=False)
    v = pb.add_variable("x", IntType(0, 5))
    acts = []
    for j in range(rng.randint(1, 3)):
        a = pb.add_activity("a%d" % j, optional=rng.random() < 0.4)
        if rng.random() < 0.5:
            a.set_fixed_duration(rng.choice([3, Fraction(7, 2), rand_frac(rng, True) + 1]))
        else:
            a.set_duration_bounds(rng.choice([1, Fraction(1, 3)]), rng.choice([5, Fraction(16, 3)]))
        a.uses(res, rng.randint(1, 2))
        q = a.add_parameter("p", T)
        if rng.random() < 0.7:
            a.add_condition(a.start + rng.choice([0, Fraction(1, 3)]), Not(busy))
        if rng.random() < 0.7:
            a.add_condition(TimeInterval(a.start + 1, a.end - Fraction(1, 2), rng.random() < 0.5, rng.random() < 0.5), LE(lvl, 100))
        a.add_effect(a.end, busy, rng.random() < 0.5)
        if rng.random() < 0.6:
            a.add_increase_effect(a.end - 1, cnt(q), 1)
        if rng.random() < 0.6:
            a.add_decrease_effect(a.start, lvl, rng.choice([Fraction(1, 7), 2]))
        if rng.random() < 0.5:
            a.add_release_date(rng.randint(0, 3))
        if rng.random() < 0.5:
            a.add_deadline(Fraction(100, 3))
        if rng.random() < 0.5:
            a.add_constraint(LE(v, 4))
        acts.append(a)
    if len(acts) > 1:
        pb.add_constraint(LE(acts[0].end, acts[1].start), [acts[0].present] if acts[0].optional else [])
        pb.add_constraint(LT(acts[0].end + Fraction(1, 2), acts[1].start + 3))
    pb.add_constraint(Or(Equals(v, 1), LE(2, v)))
    if rng.random() < 0.6:
        pb.add_decrease_effect(Fraction(21, 2), res, 1)
    if rng.random() < 0.7:
        pb.add_condition(TimeInterval(GlobalStartTiming() + 1, GlobalStartTiming() + Fraction(9, 2), rng.random() < 0.5, rng.random() < 0.5), Not(busy))
    if rng.random() < 0.5:
        pb.add_quality_metric(MinimizeMakespan())
    chosen = [a for a in acts if not a.optional or rng.random() < 0.5] or acts[:1]
    asg = {}
    for k, a in enumerate(chosen):
        asg[a.start] = rng.choice([Fraction(3 * k, 2), 3 * k])
        asg[a.end] = 3 * k + 5
        asg[a.get_parameter("p")] = rng.choice(ms)
    asg[v] = rng.randint(0, 5)
    return pb, Schedule(chosen, asg)


def gen_htn(rng, i):
    """A hierarchical problem (temporal for even i) with subtask-timepoint constraints and a half-bounded real fluent."""
    from unified_planning.shortcuts import (UserType, RealType, BoolType, Fluent, InstantaneousAction, DurativeAction,
                                            StartTiming, EndTiming, Equals, Or, LE, LT, GE, Int, Real)
    from unified_planning.model.timing import DurationInterval
    from unified_planning.model.htn import HierarchicalProblem, Method
    htn = HierarchicalProblem("h%d" % i)
    L = UserType("L")
    ls = [htn.add_object("l%d" % j, L) for j in range(rng.randint(2, 4))]
    loc = htn.add_fluent("loc", L)
    fuel = htn.add_fluent("fuel", RealType(0, None), default_initial_value=rand_frac(rng, True))
    conn = Fluent("conn", BoolType(), a=L, b=L)
    htn.add_fluent(conn, default_initial_value=False)
    htn.set_initial_value(loc, ls[0])
    htn.set_initial_value(conn(ls[0], ls[1]), True)
    temporal = i % 2 == 0
    if temporal:
        move = DurativeAction("move", a=L, b=L)
        move.set_duration_constraint(DurationInterval(Real(Fraction(1, 2)), Int(3), rng.random() < 0.5, rng.random() < 0.5))
        move.add_condition(StartTiming(), Equals(loc, move.parameter("a")))
        move.add_effect(EndTiming(), loc, move.parameter("b"))
        move.add_decrease_effect(EndTiming(), fuel, Fraction(1, 3))
    else:
        move = InstantaneousAction("move", a=L, b=L)
        move.add_precondition(Equals(loc, move.parameter("a")))
        move.add_effect(loc, move.parameter("b"))
    htn.add_action(move)
    go = htn.add_task("go", target=L)
    m1 = Method("m-noop", target=L)
    m1.set_task(go)
    m1.add_precondition(Equals(loc, m1.parameter("target")))
    htn.add_method(m1)
    m2 = Method("m-rec", source=L, inter=L, target=L)
    m2.set_task(go, m2.parameter("target"))
    m2.add_precondition(conn(m2.parameter("source"), m2.parameter("inter")))
    t1 = m2.add_subtask(move, m2.parameter("source"), m2.parameter("inter"), ident="mv")
    t2 = m2.add_subtask(go, m2.parameter("target"))
    m2.set_ordered(t1, t2)
    if temporal:
        m2.add_constraint(LE(t1.end + rand_frac(rng, True), t2.start))
    htn.add_method(m2)
    g1 = htn.task_network.add_subtask(go, ls[-1], ident="g1")
    fin = htn.task_network.add_variable("fin", L)
    g2 = htn.task_network.add_subtask(go, fin)
    htn.task_network.add_constraint(Or(Equals(fin, ls[0]), Equals(fin, ls[1])))
    htn.task_network.set_strictly_before(g1, g2)
    if temporal:
        htn.task_network.add_constraint(LT(g1.start + rng.randint(1, 5), g2.end))
    htn.add_goal(GE(fuel, Fraction(1, 10)))
    return htn


# ------------------------------------------------------------------- problems for the CompilerResult round trip
def type_is_under(t, anc):
    """t is anc or a (transitive) subtype of it — own walk over the `father` links of the user types."""
    while t is not None:
        if t == anc:
            return True
        t = t.father
    return False


def all_ground_instances(problem):
    """EVERY ground instance of every action of `problem`, enumerated from the declarations only (no use of
    domain_size/domain_item/problem.objects(t), which is what the writer uses): the values of a user-type parameter
    are the objects whose type is the parameter's type OR ANY SUBTYPE of it, in declaration order; a bounded int
    parameter ranges over lb..ub; a bool parameter over False, True.  An action with a parameter of any other type
    has no finite set of instances (None is yielded once for it)."""
    from unified_planning.plans import ActionInstance
    em = problem.environment.expression_manager
    for a in problem.actions:
        doms = []
        for q in a.parameters:
            t = q.type
            if t.is_user_type():
                doms.append([em.ObjectExp(o) for o in problem.all_objects if type_is_under(o.type, t)])
            elif t.is_int_type() and t.lower_bound is not None and t.upper_bound is not None:
                doms.append([em.Int(v) for v in range(t.lower_bound, t.upper_bound + 1)])
            elif t.is_bool_type():
                doms.append([em.FALSE(), em.TRUE()])
            else:
                doms = None
                break
        if doms is None:
            yield None
            continue
        for ps in itertools.product(*doms):
            yield ActionInstance(a, tuple(ps))


def gen_typed_classical(rng, i):
    """A small classical problem whose actions stay LIFTED under the lifted compilers, over a user-type HIERARCHY
    (flat / chain A>B>C / tree A>{B,C}, plus an unrelated type D) with objects of the strict subtypes, so that
    objects of a subtype are arguments of parameters declared with a supertype.  Conditions contain negations,
    disjunctions and quantifiers, effects are conditional / universally quantified, so that each of the
    conditional-effects / negative-conditions / disjunctive-conditions / quantifiers removers (and the grounder) has
    work to do.  Returns (problem, shape name)."""
    import unified_planning as up
    from unified_planning.shortcuts import (UserType, Fluent, BoolType, IntType, Object, Problem, InstantaneousAction,
                                            Variable, Not, And, Or, Equals, Forall, Exists, LE)
    shape = ["chain", "tree", "flat", "chain2"][i % 4]
    A = UserType("A")
    D = UserType("D")
    if shape == "chain":
        B = UserType("B", A)
        C = UserType("C", B)
    elif shape == "tree":
        B = UserType("B", A)
        C = UserType("C", A)
    elif shape == "chain2":
        B = UserType("B", A)
        C = UserType("C", D)
    else:
        B = UserType("B")
        C = UserType("C")
    types = [A, B, C, D]
    p = Problem("typed%d" % i)
    objs = []
    for t in types:
        # a type may have no object of exactly that type (its values are then only those of its subtypes, or none)
        for j in range(rng.choice([0, 1, 1, 1, 1, 2, 2, 2])):
            objs.append(Object("%s%d" % (t.name.lower(), j), t))
    if shape != "flat" and not any(o.type in (B, C) and o.type.father is not None for o in objs):
        objs.append(Object("b9", B))
    rng.shuffle(objs)          # declaration order is not grouped by type
    p.add_objects(objs)
    flu = [Fluent("flag"), Fluent("p", BoolType(), x=A), Fluent("q", BoolType(), x=rng.choice([A, B])),
           Fluent("r", BoolType(), x=rng.choice([A, C]), y=D)]
    for f in flu:
        p.add_fluent(f, default_initial_value=rng.random() < 0.3)
    cnt = None
    if rng.random() < 0.4:
        cnt = Fluent("cnt", IntType(0, 3))
        p.add_fluent(cnt, default_initial_value=rng.randint(0, 3))
    em = p.environment.expression_manager
    # quantified variables range over types the problem DECLARES (types of its objects/fluent parameters and their
    # ancestors).  A type that occurs only as the type of a quantified variable is not in problem.user_types, the
    # writer does not write it and the reader raises 'UserType C is not defined' (a separate defect of the unchanged
    # library, reported to the coordinator; see notes/C20.md) - kept out of this family.
    vtypes = [t for t in types if p.has_type(t.name)]

    def arg(t, params):
        pool = [q for q in params if type_is_under(q.type, t)] + [em.ObjectExp(o) for o in objs if type_is_under(o.type, t)]
        return rng.choice(pool) if pool else None

    def atom(params):
        f = rng.choice(flu)
        args = [arg(s.type, params) for s in f.signature]
        if any(x is None for x in args):
            return flu[0]()
        return f(*args)

    def cond(params, d=2):
        c = rng.random()
        if d == 0 or c < 0.2:
            return atom(params)
        if c < 0.4:
            return Not(atom(params))
        if c < 0.55:
            return Or(cond(params, d - 1), cond(params, d - 1))
        if c < 0.65:
            return And(atom(params), Not(atom(params)))
        if c < 0.8:
            v = Variable("v%d" % d, rng.choice(vtypes))
            return rng.choice([Exists, Forall])(Or(cond(params + [em.VariableExp(v)], d - 1), atom(params)), v)
        if c < 0.9 and len(params) >= 2 and (type_is_under(params[0].type, params[1].type) or type_is_under(params[1].type, params[0].type)):
            return Not(Equals(params[0], params[1]))
        if cnt is not None:
            return LE(cnt, rng.randint(0, 3))
        return atom(params)

    for k in range(rng.randint(1, 3)):
        sig = {}
        for j in range(rng.randint(1, 3)):
            # mostly supertypes, so that the objects of the subtypes are among the values of the parameter
            sig["x%d" % j] = rng.choice([A, A, A, B, C, D] if shape != "flat" else types)
        if rng.random() < 0.25:
            sig["n"] = IntType(rng.randint(0, 1), 2)
        a = InstantaneousAction("act%d" % k, **sig)
        params = [em.ParameterExp(q) for q in a.parameters if q.type.is_user_type()]
        for _ in range(rng.randint(0, 2)):
            a.add_precondition(cond(params))
        for _ in range(rng.randint(1, 3)):
            c = rng.random()
            try:
                if c < 0.45:
                    a.add_effect(atom(params), rng.random() < 0.6)
                elif c < 0.8:
                    a.add_effect(atom(params), rng.random() < 0.6, condition=cond(params, 1))
                else:
                    v = Variable("w", rng.choice(vtypes))
                    ve = em.VariableExp(v)
                    f = rng.choice([g for g in flu[1:3]])
                    if type_is_under(v.type, f.signature[0].type):
                        a.add_effect(f(ve), True, condition=rng.choice([em.TRUE(), Not(atom(params + [ve]))]), forall=[v])
                    else:
                        a.add_effect(flu[0](), True)
            except (up.exceptions.UPException, AssertionError):
                pass
        if not a.effects:
            a.add_effect(flu[0](), True)
        p.add_action(a)
    # half of the problems have conjunctive goals only (a disjunctive goal makes the disjunctive-conditions remover add
    # a fake goal action that maps back to None, and the writer rejects such a result: outside the property)
    simple_goals = rng.random() < 0.5
    for _ in range(rng.randint(1, 2)):
        p.add_goal(rng.choice([atom([]), Not(atom([]))]) if simple_goals else cond([], 2))
    return p, shape


# ---------------------------------------------------------------------------------------------------- histories
def variant_problem(env, rng, tag):
    """One 'version of a client's model': the SAME identifiers every time (problem, types, objects, fluents,
    actions), but a randomly different type hierarchy, object typing, fluent signatures/types and action shapes."""
    import unified_planning as up
    from unified_planning.model import (Problem, Fluent, Object, InstantaneousAction, DurativeAction, Variable)
    from unified_planning.model.timing import StartTiming, EndTiming, DurationInterval
    tm, em = env.type_manager, env.expression_manager
    name = rng.choice(["client", "client", "other", None])
    # hierarchy over the names A, B, T: a user type is identified by its name AND its father
    shape = rng.randrange(5)
    if shape == 0:
        A = tm.UserType("A"); B = tm.UserType("B"); T = tm.UserType("T", A)
    elif shape == 1:
        A = tm.UserType("A"); B = tm.UserType("B"); T = tm.UserType("T", B)
    elif shape == 2:
        A = tm.UserType("A"); B = tm.UserType("B", A); T = tm.UserType("T", B)
    elif shape == 3:
        B = tm.UserType("B"); A = tm.UserType("A", B); T = tm.UserType("T")
    else:
        A = tm.UserType("A"); B = tm.UserType("B"); T = tm.UserType("T")
    p = Problem(name, env)
    otypes = [rng.choice([A, B, T]) for _ in range(3)]
    objs = [Object("o%d" % i, t, env) for i, t in enumerate(otypes)]
    p.add_objects(objs)
    ftypes = [tm.BoolType(), tm.IntType(0, None), tm.IntType(None, 7), tm.RealType(Fraction(-7, 2), None),
              tm.RealType(None, Fraction(10 ** 15, 7)), tm.RealType(), rng.choice([A, B, T])]
    fls = []
    for fname in ("f", "g"):
        ft = rng.choice(ftypes)
        sig = {}
        for pn in ("x", "y")[:rng.randint(0, 2)]:
            sig[pn] = rng.choice([A, B, T])
        fl = Fluent(fname, ft, environment=env, **sig)
        fls.append(fl)
        dv = None
        if ft.is_bool_type():
            dv = rng.choice([None, True, False])
        elif ft.is_int_type():
            dv = rng.choice([None, 3])
        elif ft.is_real_type():
            dv = rng.choice([None, Fraction(1, 3)])
        p.add_fluent(fl, default_initial_value=dv)

    def args_for(fl, pool):
        out = []
        for q in fl.signature:
            cands = [x for x in pool if x.type == q.type or (x.type.is_user_type() and q.type in x.type.ancestors)]
            if not cands:
                return None
            out.append(rng.choice(cands))
        return out
    for an in ("act", "act2"):
        ptypes = {pn: rng.choice([A, B, T]) for pn in ("p", "q")[:rng.randint(0, 2)]}
        dur = rng.random() < 0.4
        a = DurativeAction(an, _env=env, **ptypes) if dur else InstantaneousAction(an, _env=env, **ptypes)
        if dur:
            a.set_duration_constraint(DurationInterval(em.Int(1), em.Real(Fraction(7, 2)), rng.random() < 0.5, rng.random() < 0.5))
        pool = [em.ParameterExp(q) for q in a.parameters] + [em.ObjectExp(o) for o in objs]
        for fl in fls:
            ar = args_for(fl, pool)
            if ar is None:
                continue
            fe = fl(*ar)
            try:
                if fl.type.is_bool_type():
                    if dur:
                        a.add_condition(StartTiming(), em.Not(fe)); a.add_effect(EndTiming() - Fraction(1, 3), fe, True)
                    else:
                        a.add_precondition(em.Not(fe)); a.add_effect(fe, True)
                elif fl.type.is_int_type() or fl.type.is_real_type():
                    if dur:
                        a.add_increase_effect(EndTiming(), fe, 1)
                    else:
                        a.add_precondition(em.LE(fe, em.Int(5))); a.add_increase_effect(fe, 1)
                else:
                    vals = [x for x in pool if x.type == fl.type or (x.type.is_user_type() and fl.type in x.type.ancestors)]
                    if vals:
                        if dur:
                            a.add_effect(EndTiming(), fe, rng.choice(vals))
                        else:
                            a.add_effect(fe, rng.choice(vals))
            except (up.exceptions.UPException, AssertionError):
                pass
        p.add_action(a)
    v = Variable("v", rng.choice([A, B, T]), env)
    for fl in fls:
        if fl.type.is_bool_type():
            ar = args_for(fl, [em.VariableExp(v)] + [em.ObjectExp(o) for o in objs])
            if ar is not None:
                try:
                    p.add_goal(em.Exists(fl(*ar), v) if any(x.is_variable_exp() for x in ar) else fl(*ar))
                except (up.exceptions.UPException, AssertionError):
                    pass
    from unified_planning.model import metrics as M
    mk = rng.randrange(5)
    try:
        if mk == 0:
            p.add_quality_metric(M.MinimizeActionCosts({a: em.Int(rng.randint(0, 4)) for a in p.actions[:rng.randint(0, 2)]},
                                                       default=rng.choice([None, em.Real(Fraction(1, 2))]), environment=env))
        elif mk == 1:
            p.add_quality_metric(M.MinimizeSequentialPlanLength(env))
        elif mk == 2 and p.goals:
            p.add_quality_metric(M.Oversubscription({p.goals[0]: Fraction(7, 3)}, environment=env))
        elif mk == 3:
            nums = [fl for fl in fls if fl.arity == 0 and (fl.type.is_int_type() or fl.type.is_real_type())]
            if nums:
                p.add_quality_metric(M.MaximizeExpressionOnFinalState(nums[0](), environment=env))
    except (up.exceptions.UPException, AssertionError):
        pass
    return p, "shape%d" % shape


def fresh_reader_module():
    """A private copy of proto_reader.py executed in a new namespace: the module state of a fresh process."""
    import importlib.util
    import unified_planning.grpc.proto_reader as real
    spec = importlib.util.spec_from_file_location("c20_fresh_proto_reader", real.__file__)
    mod = importlib.util.module_from_spec(spec)
    spec.loader.exec_module(mod)
    return mod


def canon_msg(m):
    c = copy_msg(m)
    if hasattr(c, "features"):
        feats = sorted(c.features)
        del c.features[:]
        c.features.extend(feats)
    return c.SerializeToString(deterministic=True)


def history_objects(ctx):
    """Round-trip HISTORIES: several problems written and read in ONE process and ONE Environment, with the
    reader/writer instances reused or fresh.  Every read is compared with the original and with the same message read
    in a fresh process state (private copy of the reader module, fresh Environment)."""
    import unified_planning as up
    from unified_planning.environment import Environment
    from unified_planning.grpc.proto_reader import ProtobufReader
    from unified_planning.grpc.proto_writer import ProtobufWriter
    rng = ctx.rng
    stats = {"histories": 0, "steps": 0, "same_name_pairs_with_different_hierarchy": 0, "gen_error": 0}
    n_hist = 10 if ctx.quick else 120
    objects = 0
    for h in range(n_hist):
        env = Environment()
        shared_w, shared_r = ProtobufWriter(), ProtobufReader()
        reuse = h % 2 == 0
        trace = []
        seen_shapes = {}
        for step in range(rng.randint(4, 7)):
            try:
                p, shape = variant_problem(env, rng, "%d.%d" % (h, step))
            except (up.exceptions.UPException, AssertionError) as e:
                stats["gen_error"] += 1
                continue
            if any(s != shape for s in seen_shapes.get(p.name, ())):
                stats["same_name_pairs_with_different_hierarchy"] += 1
            seen_shapes.setdefault(p.name, set()).add(shape)
            w = shared_w if reuse else ProtobufWriter()
            r = shared_r if reuse else ProtobufReader()
            trace.append("%s name=%r %s" % ("reused" if reuse else "fresh", p.name, shape))
            payload = {"history": list(trace), "problem": str(p)[:2500], "reader_writer": "reused" if reuse else "fresh instances"}
            tags = ["history", "reused-instances" if reuse else "fresh-instances"]
            try:
                m = w.convert(p)
            except Exception as e:
                ctx.fail("oracle", "C20 history: the writer rejected a problem it accepts in a fresh process? %s: %s" % (type(e).__name__, str(e)[:200]),
                         tags + ["writer"], payload, False)
                continue
            objects += 1
            stats["steps"] += 1
            try:
                y = r.convert(copy_msg(m), env)
            except Exception as e:
                ctx.fail("oracle", "C20 history step %d: reading a message written from a legal problem raised %s: %s "
                                   "(earlier reads in the same process/Environment: see payload)" % (step, type(e).__name__, str(e)[:200]),
                         tags + ["reader-raised"], payload, True)
                continue
            if y != p or y.kind != p.kind:
                ctx.fail("oracle", "C20 history step %d: reader(writer(x)) != x after earlier reads in the same process/Environment" % step,
                         tags + ["not-equal"], dict(payload, read_back=str(y)[:2500]), True)
                continue
            # the same message read in a fresh process state must denote the same problem
            try:
                fm = fresh_reader_module()
                z = fm.ProtobufReader().convert(copy_msg(m), Environment())
                if canon_msg(ProtobufWriter().convert(z)) != canon_msg(ProtobufWriter().convert(y)) or canon_msg(m) != canon_msg(ProtobufWriter().convert(y)):
                    ctx.fail("oracle", "C20 history step %d: the read differs from the read of the same message in a fresh process state" % step,
                             tags + ["differs-from-fresh"], dict(payload, fresh=str(z)[:2500], read_back=str(y)[:2500]), True)
            except Exception as e:
                ctx.fail("oracle", "C20 history step %d: fresh-state read raised %s: %s" % (step, type(e).__name__, str(e)[:200]),
                         tags + ["fresh-raised"], payload, True)
        stats["histories"] += 1
    return {"objects": objects, "stats": stats}


def safe_str(y, limit=3000):
    """str(y) of an object READ BACK (its __str__ may raise if the object is malformed)."""
    try:
        return str(y)[:limit]
    except Exception as e:
        return "<str() of the object read back raised %s: %s>" % (type(e).__name__, str(e)[:200])


def normalise_result(x):
    """None == empty for the optional containers of a result object (proto3 cannot tell them apart)."""
    d = {}
    for f in dataclasses.fields(x):
        v = getattr(x, f.name)
        d[f.name] = None if v in ({}, []) else v
    return d


def whole_objects(ctx):
    import unified_planning as up
    from unified_planning.shortcuts import Problem, Compiler, CompilationKind
    from unified_planning.test.examples import get_example_problems
    from unified_planning.grpc.proto_reader import ProtobufReader
    from unified_planning.grpc.proto_writer import ProtobufWriter
    from unified_planning.plans import SequentialPlan, TimeTriggeredPlan, ActionInstance
    from unified_planning.engines import PlanGenerationResult, ValidationResult, LogMessage, CompilerResult
    from unified_planning.engines.results import (PlanGenerationResultStatus, ValidationResultStatus, LogLevel,
                                                  FailedValidationReason)
    from unified_planning.model.types import domain_size, domain_item
    from unified_planning.model.timing import Timing, Timepoint, TimepointKind

    rng = ctx.rng
    stats = {}
    seen = set()
    samples = []
    n = {"objects": 0}

    def bump(k):
        stats[k] = stats.get(k, 0) + 1

    def roundtrip(x, label, tags, read_args=(), equal=None, known=None, known_raise=None):
        """writer(x) -> reader; returns the object read back (or None).  Reports every failure.
        known(x, y) / known_raise(exception): extra tags (signature of a recorded open finding) when the inequality /
        the reader's exception is exactly the recorded behaviour, [] otherwise."""
        w, r = ProtobufWriter(), ProtobufReader()
        try:
            m = w.convert(x)
        except Exception as e:
            bump("writer_rejected:" + type(x).__name__)
            bump("writer_rejected_reason:%s:%s" % (type(e).__name__, re.sub(r"[^A-Za-z ]+", "#", str(e))[:60]))
            return None
        n["objects"] += 1
        bump(type(x).__name__)
        seen.add((type(x).__name__, label, repr(x)[:2000]))
        payload = {"label": label, "class": type(x).__name__, "object": str(x)[:3000]}
        try:
            y = r.convert(m, *read_args)
        except Exception as e:
            ctx.fail("oracle", "C20 whole object %s (%s): the reader raised %s: %s" % (type(x).__name__, label, type(e).__name__, str(e)[:200]),
                     ["whole-object", type(x).__name__] + tags + (known_raise(e) if known_raise else []), payload, True)
            return None
        # everything that touches the object READ BACK runs under this guard: an exception raised by it (by its
        # __eq__/kind/__str__, or by a callable it carries) means it is not usable like the original, which is a
        # failure of the property on this input, not a crash of the check
        try:
            eq = (x == y) if equal is None else equal(x, y)
            kind_differs = bool(eq and isinstance(x, up.model.AbstractProblem) and x.kind != y.kind)
            extra = known(x, y) if (known and not eq) else []
            if eq and isinstance(x, up.model.AbstractProblem):
                hash(y)
        except Exception as e:
            ctx.fail("oracle", "C20 whole object %s (%s): using the object read back (comparison with the original) raised %s: %s"
                     % (type(x).__name__, label, type(e).__name__, str(e)[:200]),
                     ["whole-object", type(x).__name__, "read-back-object-raised", "raised:" + type(e).__name__] + tags,
                     dict(payload, read_back=safe_str(y), traceback=traceback.format_exc()[-1500:]), True)
            return None
        if kind_differs:
            ctx.fail("oracle", "C20 problem %s: equal problems but different kinds" % label, ["whole-object", "kind"] + tags,
                     dict(payload, kind=str(x.kind), kind_read=safe_str(y.kind)), True)
        elif not eq:
            ctx.fail("oracle", "C20 whole object %s (%s): reader(writer(x)) != x" % (type(x).__name__, label),
                     ["whole-object", type(x).__name__] + tags + extra, dict(payload, read_back=safe_str(y)), True)
        if len(samples) < 2:
            samples.append(payload)
        return y

    # ---- shipped examples (incl. hierarchical and scheduling problems, all their plans)
    examples = get_example_problems()
    for name, ex in examples.items():
        p = ex.problem
        y = roundtrip(p, "example:" + name, ["example"])
        if y is None:
            continue
        try:
            hash_differs = p == y and hash(p) != hash(y)
        except Exception as e:
            hash_differs = False
            ctx.fail("oracle", "C20 example %s: ==/hash of the problem read back raised %s: %s" % (name, type(e).__name__, str(e)[:200]),
                     ["whole-object", "hash", "read-back-object-raised", "raised:" + type(e).__name__], {"label": name, "object": str(p)[:3000]}, True)
        if hash_differs:
            ctx.fail("oracle", "C20 example %s: equal problems with different hashes" % name, ["whole-object", "hash"], {"label": name}, True)
        for pl in list(ex.valid_plans) + list(ex.invalid_plans):
            roundtrip(pl, "example-plan:" + name, ["example", "plan"], read_args=(p,))
        if p.kind.has_continuous_time() and isinstance(p, Problem):
            q = p.clone()
            q.epsilon = rng.choice(["2", Fraction(1, 1000), Fraction(7, 3)])
            q.self_overlapping = True
            q.discrete_time = rng.random() < 0.5
            roundtrip(q, "example-timemodel:" + name, ["example", "time-model"])

    # ---- generated problems and plans
    n_gen = 40 if ctx.quick else 600
    gen = []
    for i in range(n_gen):
        try:
            p = gen_problem(rng, i)
        except (up.exceptions.UPException, AssertionError) as e:
            bump("gen_problem_error")
            continue
        gen.append(p)
        tags = ["generated"] + sorted(set(
            ("half-bounded-" + ("int" if f.type.is_int_type() else "real"))
            for f in p.fluents if (f.type.is_int_type() or f.type.is_real_type())
            and (f.type.lower_bound is None) != (f.type.upper_bound is None)))
        for t in tags:
            bump("tag:" + t)
        y = roundtrip(p, "generated:%d" % i, tags)
        for pl in gen_plans(rng, p):
            roundtrip(pl, "generated-plan:%d" % i, ["generated", "plan"], read_args=(p,))

    for i in range(12 if ctx.quick else 150):
        try:
            pb, sched = gen_sched(rng, i)
            htn = gen_htn(rng, i)
        except (up.exceptions.UPException, AssertionError):
            bump("gen_sched_htn_error")
            continue
        roundtrip(pb, "generated-sched:%d" % i, ["generated", "scheduling"])
        roundtrip(sched, "generated-schedule:%d" % i, ["generated", "plan", "scheduling"], read_args=(pb,))
        roundtrip(htn, "generated-htn:%d" % i, ["generated", "hierarchical"])

    # ---- results
    robot = examples["robot"]
    sp = robot.valid_plans[0]
    logs = [LogMessage(LogLevel.INFO, "hello"), LogMessage(LogLevel.ERROR, ""), LogMessage(LogLevel.DEBUG, "d"), LogMessage(LogLevel.WARNING, "w w")]
    for st in PlanGenerationResultStatus:
        for plan, prob in ((sp, robot.problem), (examples["matchcellar"].valid_plans[0], examples["matchcellar"].problem)):
            res = PlanGenerationResult(st, plan, "eng", metrics=rng.choice([None, {"a": "1", "b": "x y"}]),
                                       log_messages=rng.choice([None, logs[:rng.randint(1, 4)]]))
            roundtrip(res, "pgr:" + st.name, ["result"], read_args=(prob,))
    for st in ValidationResultStatus:
        for metrics in (None, {"k": "v"}):
            for lg in ([], logs[:2], logs):
                roundtrip(ValidationResult(st, "validator", lg, metrics=metrics), "vr:" + st.name, ["result"])

    # ---- compiler results (extensional equality: the fields are callables)
    # reader(writer(result)) must have an equal compiled problem / engine / metrics / log and a map_back_action_instance
    # that answers like the original one on EVERY ground instance of every compiled action.  The instances are
    # enumerated by all_ground_instances (objects of the parameter's type and of all its SUBTYPES), independently of
    # the writer's own enumeration; the result read back is queried like a client would (instance built on the action
    # of the compiled problem READ BACK).  Whatever the read-back result raises is a failure of the property.
    CR_MAX_INSTANCES = 3000

    def same_instance(a, b):
        if a is None or b is None:
            return a is None and b is None
        return a.action == b.action and tuple(a.actual_parameters) == tuple(b.actual_parameters)

    def roundtrip_cr(res, orig, label, tags):
        instances = list(itertools.islice(all_ground_instances(res.problem), CR_MAX_INSTANCES))
        if len(instances) >= CR_MAX_INSTANCES:
            bump("cr_skipped_too_many_instances")
            return
        w, r = ProtobufWriter(), ProtobufReader()
        try:
            m = w.convert(res)
        except Exception as e:
            bump("writer_rejected:CompilerResult")
            bump("writer_rejected_reason:%s:%s" % (type(e).__name__, re.sub(r"[^A-Za-z ]+", "#", str(e))[:60]))
            return
        n["objects"] += 1
        bump("CompilerResult")
        seen.add(("CompilerResult", label, repr(res.problem)[:2000]))
        base = ["whole-object", "CompilerResult"] + tags
        payload = {"label": label, "class": "CompilerResult", "engine": res.engine_name,
                   "original_problem": str(orig)[:5000], "compiled_problem": str(res.problem)[:5000],
                   "how_to_replay": "compile original_problem with the compiler `engine`, ProtobufReader().convert("
                                    "ProtobufWriter().convert(result), original_problem), call map_back_action_instance "
                                    "of the result read back on `instance`"}
        try:
            y = r.convert(m, orig)
        except Exception as e:
            ctx.fail("oracle", "C20 CompilerResult (%s): the reader raised %s: %s" % (label, type(e).__name__, str(e)[:200]),
                     base + ["reader-raised"], payload, True)
            return
        try:
            diffs = [fld for fld, same in (("problem", res.problem == y.problem), ("engine_name", res.engine_name == y.engine_name),
                                           ("metrics", (res.metrics or None) == (y.metrics or None)),
                                           ("log_messages", (res.log_messages or None) == (y.log_messages or None))) if not same]
            if "problem" not in diffs and res.problem.kind != y.problem.kind:
                diffs.append("problem.kind")
        except Exception as e:
            ctx.fail("oracle", "C20 CompilerResult (%s): comparing the fields of the result read back raised %s: %s"
                     % (label, type(e).__name__, str(e)[:200]),
                     base + ["read-back-object-raised", "raised:" + type(e).__name__],
                     dict(payload, traceback=traceback.format_exc()[-1500:]), True)
            return
        if diffs:
            ctx.fail("oracle", "C20 CompilerResult (%s): the result read back differs from the original in %s" % (label, ", ".join(diffs)),
                     base + ["field:" + d for d in diffs], dict(payload, read_back_problem=safe_str(getattr(y, "problem", None), 5000)), True)
        mism = []
        checked = with_sub = 0
        for ai in instances:
            if ai is None:
                bump("cr_action_without_finite_instances")
                continue
            try:
                expected = res.map_back_action_instance(ai)
            except Exception:
                bump("cr_original_map_back_raised")      # not an answer of the original: nothing to compare with
                continue
            checked += 1
            sub = any(v.is_object_exp() and v.object().type != q.type for q, v in zip(ai.action.parameters, ai.actual_parameters))
            with_sub += 1 if sub else 0
            how, got = None, None
            try:
                ai_y = ActionInstance(y.problem.action(ai.action.name), tuple(ai.actual_parameters))
                got = y.map_back_action_instance(ai_y)
                if not same_instance(expected, got):
                    how = "map-back-differs"
                got = safe_str(got, 300)
            except Exception as e:
                how, got = "map-back-raised:" + type(e).__name__, "raised %s: %s" % (type(e).__name__, str(e)[:200])
            if how:
                mism.append({"instance": str(ai), "expected": str(expected), "got": got, "how": how, "subtype_argument": sub})
        stats["cr_instances_compared"] = stats.get("cr_instances_compared", 0) + checked
        stats["cr_instances_with_subtype_argument"] = stats.get("cr_instances_with_subtype_argument", 0) + with_sub
        if with_sub and res.problem.actions and any(a.parameters for a in res.problem.actions):
            bump("cr_lifted_results_with_subtype_arguments")
        if mism:
            f0 = mism[0]
            shape_tags = sorted(set(x["how"] for x in mism))
            if all(x["subtype_argument"] for x in mism):
                shape_tags.append("only-instances-with-subtype-argument")
            ctx.fail("oracle", "C20 CompilerResult (%s): map_back_action_instance of the result read back, called on the ground instance "
                               "%s of a compiled action, gives: %s; the original result gives: %s.  The two disagree on %d of the %d "
                               "ground instances of the compiled actions%s"
                     % (label, f0["instance"], f0["got"], f0["expected"], len(mism), checked,
                        " (each of them has an object of a strict subtype of the parameter's type as argument)"
                        if "only-instances-with-subtype-argument" in shape_tags else ""),
                     base + ["map-back"] + shape_tags,
                     dict(payload, instance=f0["instance"], expected=f0["expected"], got=f0["got"],
                          instances_compared=checked, instances_failing=len(mism), failing=mism[:12]), True)
        if len(samples) < 3:
            samples.append({"label": label, "class": "CompilerResult", "instances_compared": checked,
                            "instances_with_subtype_argument": with_sub})

    kinds = [CompilationKind.GROUNDING, CompilationKind.CONDITIONAL_EFFECTS_REMOVING, CompilationKind.NEGATIVE_CONDITIONS_REMOVING,
             CompilationKind.QUANTIFIERS_REMOVING, CompilationKind.DISJUNCTIVE_CONDITIONS_REMOVING]

    def compile_and_roundtrip(p, label, tags):
        for ck in kinds:
            try:
                with Compiler(problem_kind=p.kind, compilation_kind=ck) as c:
                    res = c.compile(p, ck)
            except Exception:
                bump("compiler_unavailable")
                continue
            roundtrip_cr(res, p, "compiler:%s:%s" % (label, ck.name), ["result", "compiler-result", "compilation:" + ck.name] + tags)

    cr_sources = ["robot", "hierarchical_blocks_world", "matchcellar", "basic_conditional", "robot_fluent_of_user_type",
                  "robot_loader_adv", "basic_exists", "basic_forall"] if ctx.quick else [k for k in examples]
    for name in cr_sources:
        if name in examples:
            compile_and_roundtrip(examples[name].problem, name, ["example"])
    # generated classical problems over a user-type hierarchy, objects of strict subtypes used as action arguments
    for i in range(12 if ctx.quick else 150):
        try:
            p, shape = gen_typed_classical(rng, i)
        except (up.exceptions.UPException, AssertionError):
            bump("gen_typed_classical_error")
            continue
        bump("typed_classical:" + shape)
        roundtrip(p, "generated-typed:%d" % i, ["generated", "typed-classical", "hierarchy:" + shape])
        compile_and_roundtrip(p, "generated-typed:%d" % i, ["generated", "typed-classical", "hierarchy:" + shape])

    # ---- explicit probes for the OPEN findings (each must behave exactly as recorded, anything else is a violation)
    def collapse_only(norm):
        return lambda x, y: ["proto3-default-collapse"] if norm(x, y) else []
    # C20-F1: values equal to a proto3 field default are read back as absent
    def name_norm(x, y):
        y2 = y.clone()
        y2.name = ""
        return y.name is None and y2 == x
    roundtrip(Problem(""), "probe:empty-problem-name", ["probe", "problem-name"], known=collapse_only(name_norm))
    roundtrip(ValidationResult(ValidationResultStatus.VALID, "v", [], metrics={}), "probe:empty-metrics", ["probe", "result-metrics"],
              known=collapse_only(lambda x, y: normalise_result(x) == normalise_result(y)))
    roundtrip(PlanGenerationResult(PlanGenerationResultStatus.SOLVED_SATISFICING, sp, "e", metrics={}, log_messages=[]),
              "probe:empty-metrics-logs", ["probe", "result-metrics"], read_args=(robot.problem,),
              known=collapse_only(lambda x, y: normalise_result(x) == normalise_result(y)))
    # C20-F2: an empty SequentialPlan is read back as an (empty) TimeTriggeredPlan
    roundtrip(SequentialPlan([]), "probe:empty-sequential-plan", ["probe", "plan"], read_args=(robot.problem,),
              known=lambda x, y: ["empty-sequential-plan"] if isinstance(y, TimeTriggeredPlan) and len(y.timed_actions) == 0 else [])
    # C20-F3: ValidationResult fields that the schema does not carry
    def dropped(x, y):
        keep = dataclasses.replace(x, reason=None, inapplicable_action=None, trace=None, metric_evaluations=None,
                                   calculated_interpreted_functions=None)
        return ["validation-result-unrepresented-fields"] if keep == y else []
    roundtrip(ValidationResult(ValidationResultStatus.INVALID, "v", logs[:1], None, FailedValidationReason.INAPPLICABLE_ACTION, sp.actions[0]),
              "probe:validation-reason", ["probe", "result"], known=dropped)
    roundtrip(ValidationResult(ValidationResultStatus.VALID, "v", logs[:1], {up.model.metrics.MinimizeSequentialPlanLength(): 4}),
              "probe:validation-metric-evaluations", ["probe", "result"], known=dropped)
    # C20-F5: a user type that occurs ONLY as the type of a quantified variable / of a forall-effect variable is not in
    # problem.user_types (only the types of fluents, objects and action parameters are registered), so the writer
    # does not write it and the reader raises UPValueError 'UserType C is not defined!'
    def type_only_in_variable(variant):
        from unified_planning.shortcuts import UserType, Fluent, BoolType, Variable, InstantaneousAction, Exists
        A = UserType("A")
        C = UserType("C", A)
        q = Problem("only-in-variable-" + variant)
        flag = q.add_fluent("flag", default_initial_value=False)
        pa = Fluent("p", BoolType(), x=A)
        q.add_fluent(pa, default_initial_value=False)
        q.add_object("a0", A)
        v = Variable("v", C)
        act = InstantaneousAction("act")
        if variant == "quantifier":
            act.add_precondition(Exists(pa(v), v))
            act.add_effect(flag, True)
        else:
            act.add_effect(pa(v), True, forall=[v])
        q.add_action(act)
        q.add_goal(flag)
        return q

    def f5_raise(e):
        if isinstance(e, up.exceptions.UPValueError) and "UserType C is not defined" in str(e):
            return ["user-type-only-in-variable", "reader-raises", "UPValueError"]
        return []
    for variant in ("quantifier", "forall-effect"):
        q = type_only_in_variable(variant)
        if q.has_type("C"):
            continue            # the type is registered by the problem: nothing special about this input any more
        roundtrip(q, "probe:user-type-only-in-%s-variable" % variant, ["probe", "c20", "whole", "problem", "variable:" + variant],
                  known_raise=f5_raise)
    return {"objects": n["objects"], "distinct": len(seen), "stats": stats, "samples": samples}
