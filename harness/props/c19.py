"""C19 — ANML write/read round trip preserves problem semantics.

Validated property (see C18): generated problems of the ANML fragment (typed classical, numeric with bounded types,
object fluents, state invariants, durative actions with intermediate conditions/effects, timed initial effects, timed
goals) go through the real ANMLWriter and ANMLReader.  The classical part is compared inside Coq by the verified
`bisim_check`; the temporal structure (durations, timed conditions, timed effects, timed goals) by
`temporal_structure_eqb`, both under the writer's renaming.  The ANMLWriter keeps its renaming in a local dictionary
that is handed to ConverterToANMLString: the harness observes it there.
"""
import json
import warnings

from harness import iocheck as io
from harness.gen.pddlgen import IoGenProblem, add_temporal, corpus_anml, corpus_pddl
from harness.props.c18 import features, report

META = {
    "level": "translation_validation",
    "technique": "Coq-verified bisimulation checker and structural comparison of temporal structure (soundness proved for all inputs) run on the real ANMLWriter/ANMLReader output of generated problems; independent simulator oracle for every disagreement",
    "text": "bisim_check (equal runs, validity for all plans over the ground instances when the explored product graph is closed, up to the explored depth otherwise) compares the original and the re-read problem under the writer's renaming: objects per type, initial state, applicability, successors, goal verdicts; temporal_structure_eqb (structural equality => equal durations, equal sets of timed conditions/effects/goals) compares the temporal part.  Printer and parser are black boxes.",
    "note": "Not modelled: ANML printer/grammar/parser. Trusted: Coq kernel/vm_compute, harness serialiser, the observation of the writer's names_mapping at ConverterToANMLString.__init__. ANML has no metric syntax in this writer/reader: metrics are outside the fragment. Constructs the reader documents as unsupported (conditions inside a forall over assignments) are not generated.",
}


class Captured:
    """observes the renaming dictionary that ANMLWriter._write_problem hands to its expression converter"""

    def __init__(self):
        import unified_planning.io.anml_writer as aw
        self.aw = aw
        self.mapping = None

    def write(self, problem):
        aw = self.aw
        orig = aw.ConverterToANMLString.__init__
        cap = self

        def patched(conv, names_mapping, environment):
            cap.mapping = names_mapping
            orig(conv, names_mapping, environment)
        aw.ConverterToANMLString.__init__ = patched
        try:
            text = aw.ANMLWriter(problem).get_problem()
        finally:
            aw.ConverterToANMLString.__init__ = orig
        return text, dict(self.mapping)


def key_from_mapping(mapping):
    inv = {}
    for item, nm in mapping.items():
        if hasattr(item, "name"):
            inv.setdefault(nm, item.name)

    def key(kind, item):
        return inv.get(item.name, "<unmapped:%s>" % item.name)
    return key


def _norm_type(t, name_of):
    if t.is_bool_type():
        return ("bool",)
    if t.is_user_type():
        return ("user", name_of(t))
    return ("int" if t.is_int_type() else "real", t.lower_bound, t.upper_bound)


def types_differ(P, Q, mapping):
    """direct comparison of the declared types (fluent result and parameter types, action parameter types) of the
    original and the re-read problem under the writer's renaming; the bounds of numeric types are part of the type"""
    out = []
    inv = {v: k for k, v in mapping.items() if hasattr(k, "is_user_type")}
    idp = lambda t: t.name                                   # noqa: E731
    idq = lambda t: getattr(inv.get(t.name), "name", "?" + t.name)    # noqa: E731
    for f in P.fluents:
        try:
            fq = Q.fluent(mapping[f])
        except Exception:  # noqa
            out.append("fluent %s is missing" % f.name)
            continue
        a = [_norm_type(f.type, idp)] + [_norm_type(pp.type, idp) for pp in f.signature]
        b = [_norm_type(fq.type, idq)] + [_norm_type(pp.type, idq) for pp in fq.signature]
        if a != b:
            out.append("fluent %s: %s became %s" % (f.name, a, b))
    for a in P.actions:
        try:
            aq = Q.action(mapping[a])
        except Exception:  # noqa
            continue
        x = [_norm_type(pp.type, idp) for pp in a.parameters]
        y = [_norm_type(pp.type, idq) for pp in aq.parameters]
        if x != y:
            out.append("action %s parameters: %s became %s" % (a.name, x, y))
    return out


HUGE = (2 ** 53 + 1, 2 ** 53 - 1, 2 ** 63 + 1, 10 ** 20 + 1, -(2 ** 53 + 1))


def corpus_huge_constants():
    """corner problems whose numeric constants do not fit a binary double: REAL constants that are integral and above
    2**53 (2**53 +- 1, 2**63 + 1, 10**20 + 1, negative, built as a fraction that reduces to denominator 1), the
    near-integral reals c - 1/2 next to them, and Int constants of the same size; as initial values, in preconditions,
    as assigned values, in goals, and (second problem) as duration bounds, timed conditions/effects and timed goals.
    The exact rational constants of the model (Q) are the oracle: any printer/parser path through a float changes them."""
    from fractions import Fraction
    from unified_planning.model import Fluent, InstantaneousAction, DurativeAction
    from unified_planning.model.timing import StartTiming, EndTiming, GlobalStartTiming
    from harness.gen.pddlgen import Hand, _base
    out = []
    env, tm, em, T, p, o1, o2 = _base("huge-integral-real-constants")
    done = Fluent("done", tm.BoolType(), environment=env)
    p.add_fluent(done, default_initial_value=False)
    fls = []
    for k, c in enumerate(HUGE):
        r = Fluent("r%d" % k, tm.RealType(), environment=env)
        big = em.Real(Fraction(2 * c, 2)) if k % 2 else em.Real(Fraction(c))     # both reduce to denominator 1
        p.add_fluent(r, default_initial_value=big)
        fls.append(r)
        a = InstantaneousAction("close%d" % k, _env=env)
        a.add_precondition(em.GT(r, em.Real(Fraction(2 * c - 1, 2))))            # c - 1/2 < r: true exactly while r = c
        a.add_effect(r, em.Real(Fraction(c - 2)))                                # another integral real with no double
        a.add_effect(done, True)
        p.add_action(a)
        b = InstantaneousAction("open%d" % k, _env=env)
        b.add_precondition(em.Equals(r, em.Real(Fraction(c - 2))))
        b.add_effect(r, em.Plus(r, em.Real(Fraction(2))))                        # a small integral real (3.0-style)
        p.add_action(b)
    n = Fluent("n", tm.IntType(), environment=env)                               # Int constants of the same magnitude
    p.add_fluent(n, default_initial_value=em.Int(2 ** 53 + 1))
    a = InstantaneousAction("stepn", _env=env)
    a.add_precondition(em.GT(n, em.Int(2 ** 53)))
    a.add_effect(n, em.Int(2 ** 63 + 1))
    p.add_action(a)
    p.add_goal(em.And(done, em.LE(fls[0], em.Real(Fraction(HUGE[0] - 2))), em.Equals(n, em.Int(2 ** 63 + 1))))
    out.append(Hand(p, "huge-integral-real-constants"))

    env, tm, em, T, p, o1, o2 = _base("huge-real-constants-temporal")
    c = 2 ** 53 + 1
    r = Fluent("r", tm.RealType(), x=T, environment=env)
    p.add_fluent(r, default_initial_value=em.Real(Fraction(c)))
    a = DurativeAction("hold", x=T, _env=env)
    x = a.parameter("x")
    a.set_closed_duration_interval(em.Real(Fraction(c)), em.Real(Fraction(c + 2)))
    a.add_condition(StartTiming(), em.GT(r(x), em.Real(Fraction(2 * c - 1, 2))))
    a.add_effect(EndTiming(), r(x), em.Real(Fraction(10 ** 20 + 1)))
    p.add_action(a)
    p.add_timed_effect(GlobalStartTiming(5), r(em.ObjectExp(o1)), em.Real(Fraction(2 ** 63 + 1)))
    p.add_timed_goal(GlobalStartTiming(7), em.GE(r(em.ObjectExp(o1)), em.Real(Fraction(2 ** 63 + 1))))
    p.add_goal(em.Equals(r(em.ObjectExp(o2)), em.Real(Fraction(10 ** 20 + 1))))
    out.append(Hand(p, "huge-real-constants-temporal"))
    return out


def gen_anml(rng, temporal):
    g = IoGenProblem(rng, target="anml", metrics=False, obj_fluents=rng.random() < 0.6, undef_num=True, bounded=rng.random() < 0.5,
                     forall=rng.random() < 0.5, conditional=True)
    if g.bad:
        return g
    # the reader documents "no conditions in a forall over assignments": drop the condition of such effects is not
    # possible through the API, so regenerate instead
    for a in g.problem.actions:
        for e in a.effects:
            if e.is_forall() and e.is_conditional():
                g.bad = "conditional forall effect (documented as unsupported by the ANML reader)"
                return g
    if temporal:
        add_temporal(g, rng, "anml")
        for a in g.problem.actions:
            if hasattr(a, "preconditions"):
                continue
            for el in a.effects.values():
                for e in el:
                    if e.is_forall() and e.is_conditional():
                        g.bad = "conditional forall effect (documented as unsupported by the ANML reader)"
    return g


def run(ctx):
    import unified_planning as up
    from unified_planning.io import ANMLReader
    warnings.simplefilter("ignore")
    io.restore_tracebacks()
    ok_proofs = ctx.check_props(extra=["theories/Corr/Corr_C18.v"])
    io.tick(ctx, "proofs")
    rng = ctx.rng
    nprob = 30 if ctx.quick else 300
    depth, cap = (4, 25) if ctx.quick else (5, 40)
    stats = {"generated": 0, "generator_artefact": {}, "writer_documented_unsupported": {}, "reader_documented_unsupported": {},
             "compared": 0, "temporal": 0, "bisim": {"closed": 0, "bounded": 0}, "features": {}, "durative_actions": 0,
             "timed_effects": 0, "timed_goals": 0}
    cap_writer = Captured()
    cases, owners = [], []
    generated = attempts = 0
    hands = corpus_anml() + corpus_pddl() + corpus_huge_constants()      # hand-written corner problems first (not counted in nprob)
    stats["corner_corpus"] = [h.label for h in hands]
    while (generated < nprob or hands) and attempts < nprob * 8:
        attempts += 1
        if hands:
            g, temporal = hands.pop(0), False
            generated -= 1
        else:
            temporal = rng.random() < 0.5
            g = gen_anml(rng, temporal)
        if g.bad:
            stats["generator_artefact"][g.bad[:50]] = stats["generator_artefact"].get(g.bad[:50], 0) + 1
            continue
        P = g.problem
        generated += 1
        stats["generated"] += 1
        feats, names = features(P)
        for f in feats:
            stats["features"][f] = stats["features"].get(f, 0) + 1
        payload = {"problem": str(P), "names": names}
        try:
            text, mapping = cap_writer.write(P)
        except (up.exceptions.UPProblemDefinitionError, up.exceptions.UPUnsupportedProblemTypeError) as e:
            k = "%s: %s" % (type(e).__name__, str(e)[:70])
            stats["writer_documented_unsupported"][k] = stats["writer_documented_unsupported"].get(k, 0) + 1
            continue
        except Exception as e:  # noqa
            site = io.exc_site(e)
            ctx.fail("impl-exception", "ANMLWriter raised %s: %s" % (type(e).__name__, str(e)[:120]),
                     ["c19", "writer-crash", type(e).__name__, site[0]] + sorted(feats), dict(payload, site=site), True)
            continue
        payload["anml"] = text
        try:
            Q = ANMLReader().parse_problem_string(text)
        except (up.exceptions.UPUnsupportedProblemTypeError,) as e:
            k = "%s: %s" % (type(e).__name__, str(e)[:70])
            stats["reader_documented_unsupported"][k] = stats["reader_documented_unsupported"].get(k, 0) + 1
            continue
        except Exception as e:  # noqa
            site = io.exc_site(e)
            ctx.fail("impl-exception", "ANMLReader rejects the writer's output: %s: %s" % (type(e).__name__, " ".join(str(e).split())[:160]),
                     ["c19", "reader-anml", "reader-rejects", type(e).__name__, site[0]] + sorted(feats), dict(payload, site=site), True)
            continue
        td = types_differ(P, Q, mapping)
        if td:
            ctx.fail("oracle", "ANML round trip changes a declared type: %s" % td[0], ["c19", "reader-anml", "type-differs"] + sorted(feats),
                     dict(payload, reread=str(Q), type_differences=td), True)
        try:
            case, info = io.build_case(P, Q, key_from_mapping(mapping), depth, cap)
        except io.OutOfFragment as e:
            ctx.fail("corr", "re-read problem is outside the modelled fragment: %s" % e, ["c19", "out-of-model"] + sorted(feats),
                     dict(payload, reread=str(Q)), False)
            continue
        stats["compared"] += 1
        stats["temporal"] += bool(info["durative"] or info["timed_effects"])
        stats["durative_actions"] += info["durative"]
        stats["timed_effects"] += info["timed_effects"]
        stats["timed_goals"] += len(P.timed_goals)
        cases.append(case)
        owners.append({"P": P, "Q": Q, "mapping": mapping, "reader": "anml",
                       "rebuild": (lambda P2, Q2, mapping=mapping: io.build_case(P2, Q2, key_from_mapping(mapping), depth, cap)[0]), "payload": payload, "info": info, "feats": feats})
    io.tick(ctx, "implementation runs")
    codes = ctx.coq_codes(cases, "Corr_C18.code", imports=io.IMPORTS, shard=8, label="c19") if cases else []
    io.tick(ctx, "coq")
    nontrivial, samples = set(), []
    for k, (o, code) in enumerate(zip(owners, codes)):
        bis, tdiff, pfail, mdiff, nstates, bound = io.decode(code)
        o["size"] = (nstates, bound)
        if bis == 0:
            stats["bisim"]["closed"] += 1
        elif bis == 1:
            stats["bisim"]["bounded"] += 1
        if (nstates >= 2 and nstates * o["info"]["ninsts"] >= 5) or o["info"]["durative"]:
            nontrivial.add(o["payload"]["problem"])
        if len(samples) < 3:
            samples.append({"problem": o["payload"]["problem"][:600], "explored_states": nstates, "bound": bound,
                            "durative_actions": o["info"]["durative"],
                            "verdict": "closed" if bis == 0 else ("bounded" if bis == 1 else "fail")})
        if bis < 100 and not tdiff:
            continue
        mp = o["mapping"]
        report(ctx, "c19", o, cases[k], bis, tdiff, False, io.by_name_mapper(o["Q"], lambda item, mp=mp: mp[item]), depth, cap)
    if not ok_proofs:
        ctx.proof_broken()
    io.dump_failures(ctx)
    ctx.finish({
        "evaluations": len(cases),
        "distinct_nontrivial": len(nontrivial),
        "rule": "one evaluation = one generated problem compared with its re-read copy (bisim_check + temporal_structure_eqb); non-trivial = a reachable non-initial state and >= 5 checked (state, instance) edges, or at least one durative action compared structurally; distinct by problem text",
        "samples": samples,
        "distribution": stats,
        "explored": {"depth": depth, "state_cap": cap},
    }, META["level"], assumptions=["the renaming used to align the two problems is the names_mapping dictionary of ANMLWriter._write_problem"])
