"""C13 — Substitution replaces exactly the free occurrences of its keys.

Theorems: coq/theories/Props/C13.v (model + specification: coq/theories/Walkers/Subst.v, proofs: Proofs/Subst_proofs.v).
Tie: correspondence.  Typed random expressions (harness/gen/exprs.py) and substitution maps of 1-4 entries over
fluent expressions, parameters, variables and compound sub-terms (nested keys, keys under the binders of their
variables, quantifier keys, values that contain other keys, capturing values, Not-headed values, keys whose free variable
has the NAME of a variable bound around the occurrence but another type - a different Variable) are given to
FNode.substitute; Coq evaluates the model of the code and the specification on the same input and compares them
structurally with what the implementation returned, with an independent Python top-down replacement, and evaluates
the evaluation statements on the observed result under sampled interpretations wherever their hypotheses hold.
A malformed stream (one or two type-incompatible entries) must be rejected with UPTypeError naming the first
incompatible pair and leave the expression, the expression manager and the shared walker unchanged.
"""
import json
import re
from collections import Counter
from concurrent.futures import ThreadPoolExecutor
from fractions import Fraction

from harness.core import gn, gnat, gbool, glist, gopt, gpair, CoqError
from harness.ser import Names, ser_value, gqc
from harness import ser as _ser


def ser_expr(e, names):
    """harness.ser.ser_expr extended to the operator kinds Core/Expr.v has no constructor for.  They are encoded as
    UNINTERPRETED operators, which Walkers/Subst.v treats homomorphically exactly as IdentityDagWalker does:
      Dot(agent, x)   ->  EIFun <id of "dot:agent"> [x]      (walk_dot: manager.Dot(expression.agent(), args[0]))
      TimingExp / PresentExp (no children) -> EIFun <id> []   (walk_timing_exp / walk_present_exp)
    The ids are fresh interpreted-function ids (>= 2) with no table entry, so such nodes evaluate to "undefined"."""
    if not any(x.is_dot() or x.is_timing_exp() or x.is_present_exp() for x, _ in occurrences(e)):
        return _ser.ser_expr(e, names)
    def go(n):
        if n.is_dot():
            lab = "dot:" + n.agent()
            return "(EIFun %s [%s])" % (gn(names._id("ifun", lab, lab)), go(n.arg(0)))
        if n.is_timing_exp() or n.is_present_exp():
            lab = ("timing:" if n.is_timing_exp() else "present:") + str(n)
            return "(EIFun %s [])" % gn(names._id("ifun", lab, lab))
        a = [go(x) for x in n.args]
        if not n.args:
            return _ser.ser_expr(n, names)
        if n.is_fluent_exp():
            return "(EFluent %s %s)" % (gn(names.fl(n.fluent())), glist(a))
        if n.is_interpreted_function_exp():
            return "(EIFun %s %s)" % (gn(names.ifun(n.interpreted_function())), glist(a))
        if n.is_exists() or n.is_forall():
            return "(%s %s %s)" % ("EExists" if n.is_exists() else "EForall", _ser.ser_vars(n.variables(), names), a[0])
        nary = {"and": "EAnd", "or": "EOr", "plus": "EPlus", "times": "ETimes"}
        for test, con in nary.items():
            if getattr(n, "is_" + test)():
                return "(%s %s)" % (con, glist(a))
        fixed = {"not": "ENot", "implies": "EImplies", "iff": "EIff", "minus": "EMinus", "div": "EDiv", "le": "ELe", "lt": "ELt",
                 "equals": "EEquals", "always": "EAlways", "sometime": "ESometime", "sometime_before": "ESometimeBefore",
                 "sometime_after": "ESometimeAfter", "at_most_once": "EAtMostOnce"}
        for test, con in fixed.items():
            if getattr(n, "is_" + test)():
                return "(%s %s)" % (con, " ".join(a))
        raise ValueError("expression outside the modelled IR: %s" % n)

    return go(e)

META = {
    "level": "proof",
    "technique": "Coq proof (structural induction: code model = top-down replacement spec; coincidence lemma; "
                 "evaluation theorem under capture-freedom) + model/implementation correspondence by vm_compute",
    "text": "subst_spec (model of Substituter = topdown_replace on manager-built expressions), subst_eval (result evaluates like "
            "the original when keys and values agree, capture-free), the leaf-key corollary for the interpretation updated "
            "by the map, and rejection of type-incompatible maps before any change, about a Gallina model of "
            "substituter.py/identitydag.py; the model is tied to the code by differential evaluation inside Coq.",
    "note": "No axioms (Print Assumptions: closed under the global context). Trusted: Coq kernel/vm_compute, harness serialiser. "
            "Types of keys/values are taken from the implementation's TypeChecker (C15's subject); is_compatible_type is modelled. "
            "Expressions are restricted to those the ExpressionManager constructors build (nf). subst_eval assumes capture-freedom "
            "(DESIGN.md C13) and that a Not-headed replacement negates a Boolean-or-undefined expression (Not(Not y) collapses); "
            "both hypotheses are shown necessary by examples in Props/C13.v.",
}

IMPORTS = ["UPV.Core.Expr", "UPV.Core.Eval", "UPV.Core.Interp", "UPV.Walkers.Subst", "UPV.Corr.Corr_C13"]


# ---------------------------------------------------------------------------------------------------------------
# independent oracle over FNodes (written from the property text; does not use the Substituter or the FreeVarsOracle)
# ---------------------------------------------------------------------------------------------------------------
def is_quant(e):
    return e.is_exists() or e.is_forall()


def fv(e):
    if e.is_variable_exp():
        return frozenset([e.variable()])
    s = frozenset()
    for a in e.args:
        s |= fv(a)
    if is_quant(e):
        s -= frozenset(e.variables())
    return s


def rebuild(em, e, args):
    """put a node back together with the expression manager's public constructors"""
    if e.is_and():
        return em.And(args)
    if e.is_or():
        return em.Or(args)
    if e.is_not():
        return em.Not(args[0])
    if e.is_implies():
        return em.Implies(*args)
    if e.is_iff():
        return em.Iff(*args)
    if e.is_exists():
        return em.Exists(args[0], *e.variables())
    if e.is_forall():
        return em.Forall(args[0], *e.variables())
    if e.is_plus():
        return em.Plus(args)
    if e.is_minus():
        return em.Minus(*args)
    if e.is_times():
        return em.Times(args)
    if e.is_div():
        return em.Div(*args)
    if e.is_le():
        return em.LE(*args)
    if e.is_lt():
        return em.LT(*args)
    if e.is_equals():
        return em.Equals(*args)
    if e.is_fluent_exp():
        return em.FluentExp(e.fluent(), tuple(args))
    if e.is_interpreted_function_exp():
        return em.InterpretedFunctionExp(e.interpreted_function(), tuple(args))
    if e.is_dot():
        return em.Dot(e.agent(), args[0])
    if e.is_always():
        return em.Always(args[0])
    if e.is_sometime():
        return em.Sometime(args[0])
    if e.is_at_most_once():
        return em.AtMostOnce(args[0])
    if e.is_sometime_before():
        return em.SometimeBefore(*args)
    if e.is_sometime_after():
        return em.SometimeAfter(*args)
    assert not e.args, e
    return e


def wrap_dots(em, e, rng, p):
    """copy of e in which each OCCURRENCE of a fluent expression is, with probability p, put under Dot(agent, .)"""
    if e.is_dot():
        return e
    args = [wrap_dots(em, a, rng, p) for a in e.args]
    r = rebuild(em, e, args) if e.args else e
    if r.is_fluent_exp() and rng.random() < p:
        return em.Dot(rng.choice(["ag0", "ag1"]), r)
    return r


def topdown(em, e, subs):
    """each maximal occurrence of a key replaced, top-down, nothing re-substituted inside inserted values;
    under a quantifier the keys mentioning one of its variables are out of play"""
    if e in subs:
        return subs[e]
    if is_quant(e):
        vs = frozenset(e.variables())
        inner = {k: v for k, v in subs.items() if not (fv(k) & vs)}
        return rebuild(em, e, [topdown(em, e.arg(0), inner)])
    return rebuild(em, e, [topdown(em, a, subs) for a in e.args])


def capture_free(e, subs, bound=frozenset()):
    if e in subs:
        return not (fv(subs[e]) & bound)
    if is_quant(e):
        vs = frozenset(e.variables())
        inner = {k: v for k, v in subs.items() if not (fv(k) & vs)}
        return capture_free(e.arg(0), inner, bound | vs)
    return all(capture_free(a, subs, bound) for a in e.args)


def occurrences(e, bound=(), acc=None):
    if acc is None:
        acc = []
    acc.append((e, bound))
    b2 = bound + tuple(e.variables()) if is_quant(e) else bound
    for a in e.args:
        occurrences(a, b2, acc)
    return acc


def n_ops(e):
    return (1 if e.args else 0) + sum(n_ops(a) for a in e.args)


def homonym_under(x, b):
    """x (occurring under the binders b) has a FREE variable h whose NAME is also the name of a variable of b that is a
    different Variable (other type: Variable equality is name + type).  h is not bound there: keys made of x stay in play"""
    return any(h not in b and any(v.name == h.name for v in b) for h in fv(x))


# ---------------------------------------------------------------------------------------------------------------
# serialisation
# ---------------------------------------------------------------------------------------------------------------
def ser_bound(b):
    return gopt(None if b is None else gqc(Fraction(b)))


def ser_ty(t, names):
    if t.is_bool_type():
        return "TyBool"
    if t.is_int_type():
        return "(TyInt %s %s)" % (ser_bound(t.lower_bound), ser_bound(t.upper_bound))
    if t.is_real_type():
        return "(TyReal %s %s)" % (ser_bound(t.lower_bound), ser_bound(t.upper_bound))
    if t.is_user_type():
        return "(TyUser %s %s)" % (gn(names.ty(t)), glist([gn(names.ty(a)) for a in t.ancestors]))
    return "(TyOther 0%N)"


def ser_fi(fl, par, var, objs, names):
    gfl = glist(["(%s, %s, %s)" % (gn(names.fl(f)), glist([ser_value(a, names) for a in args]), ser_value(v, names))
                 for (f, args), v in fl.items()])
    gpar = glist([gpair(gn(names.par(p)), ser_value(v, names)) for p, v in par.items()])
    gvar = glist([gpair(gn(names.var(x)), ser_value(v, names)) for x, v in var.items()])
    gob = glist([gpair(gn(names.ty(t)), glist([gn(names.obj(o)) for o in os])) for t, os in objs.items()])
    return "{| f_fl := %s; f_par := %s; f_var := %s; f_ifun := IFT; f_objs := %s |}" % (gfl, gpar, gvar, gob)


def ift_preamble():
    rows = []
    for x in range(-3, 4):
        rows.append("(0%%N, [VNum %s], VNum %s)" % (gqc(x), gqc(x * x - 2)))
        for y in range(0, 11):
            rows.append("(1%%N, [VNum %s; VNum %s], VBool %s)" % (gqc(x), gqc(y), gbool(x < y - 4)))
    return "Definition IFT : list (N * list value * value) := %s.\n" % glist(rows)


# ---------------------------------------------------------------------------------------------------------------
# generation
# ---------------------------------------------------------------------------------------------------------------
class Gen:
    def __init__(self, rng, World):
        self.rng = rng
        self.World = World
        self.w = None
        self.left = 0
        self.stats = Counter()
        self.depths = [2, 3, 3, 4]

    def world(self):
        if self.left <= 0:
            self.w = self.World(self.rng)
            self.left = 12
        self.left -= 1
        return self.w

    def homonym_vars(self, w, made, p=0.6):
        """replacement for w.fresh_var during ONE generation attempt: with probability p the new variable takes the NAME of a
        variable already made for this expression (free, or bound further out / in a sibling) and the OTHER type, i.e. it is
        a different Variable with the same name (sub-formulae written separately that all call their variable `x`)"""
        rng = self.rng

        def fresh(t):
            taken = {(v.name, v.type) for v in made}
            cands = sorted({v.name for v in made if v.type != t and (v.name, t) not in taken})
            if cands and rng.random() < p:
                v = w.Variable(rng.choice(cands), t, w.env)
                self.stats["homonym_variables_made"] += 1
            else:
                w.nvars += 1
                v = w.Variable("v%d" % w.nvars, t, w.env)
            made.append(v)
            return v
        return fresh

    def retry(self, f, n=8):
        for _ in range(n):
            try:
                return f()
            except ZeroDivisionError:      # the TypeChecker cannot type  x / 0  with a bounded numerator: not C13's subject
                self.stats["gen_zero_division_retries"] += 1
        return None

    # ---- values ----
    def value_for(self, k, mode, scope_free, scope_all, keys, kb=()):
        w, rng, em = self.w, self.rng, self.w.em
        t = k.type
        scope = scope_all if mode == "capture" else scope_free
        if mode == "fluentexp":
            # another fluent expression of a compatible type (the only thing Dot accepts as its child)
            fs = [f for f in w.fluents if t.is_compatible(f.type)]
            return w.gen_fluent(rng.choice(fs), 1, scope) if fs else None
        if mode == "capture" and kb:
            # a value that mentions a variable bound where the key occurs
            x = em.VariableExp(rng.choice(kb))
            b1 = [f for f in w.fluents if f.name == "b1"][0]
            i1 = [f for f in w.fluents if f.name == "i1"][0]
            o1 = [f for f in w.fluents if f.name == "o1"][0]
            if t.is_bool_type():
                return rng.choice([lambda: em.FluentExp(b1, (x,)),
                                   lambda: em.Equals(x, em.ObjectExp(rng.choice(w.objects_of(x.type)))),
                                   lambda: em.Or(w.gen_bool(0, scope_free), em.FluentExp(b1, (x,))),
                                   lambda: em.Not(em.FluentExp(b1, (x,)))])()
            if t.is_user_type():
                return x if t.is_compatible(x.type) else em.FluentExp(o1, (x,))
            return rng.choice([lambda: em.FluentExp(i1, (x,)), lambda: em.Plus(em.FluentExp(i1, (x,)), 1),
                               lambda: em.Times(k, em.FluentExp(i1, (x,)))])()
        if mode == "equiv":
            if t.is_bool_type():
                return rng.choice([lambda: em.And(k, em.TRUE()), lambda: em.Or(em.FALSE(), k), lambda: em.Iff(k, em.TRUE()),
                                   lambda: em.Implies(em.TRUE(), k), lambda: em.Not(em.Iff(k, em.FALSE()))])()
            if t.is_int_type() or t.is_real_type():
                return rng.choice([lambda: em.Plus(k, 0), lambda: em.Times(1, k), lambda: em.Minus(k, 0), lambda: em.Div(k, 1)])()
            mode = "plain"
        if mode == "otherkey" and keys:
            cands = [x for x in keys if x is not k and t.is_compatible(x.type)]
            if cands:
                x = rng.choice(cands)
                if t.is_bool_type() and rng.random() < 0.5:
                    return em.Or(x, w.gen_bool(0, scope))
                return x
            mode = "plain"
        if mode == "const":
            if t.is_bool_type():
                return em.Bool(rng.random() < 0.5)
            if t.is_user_type():
                return em.ObjectExp(rng.choice(w.objects_of(t)))
            c = w.const_num(want_int=t.is_int_type())
            return em.Int(c) if isinstance(c, int) else em.Real(Fraction(c))
        if t.is_bool_type():
            if mode == "not":
                return em.Not(w.gen_bool(rng.randint(0, 1), scope))
            return w.gen_bool(rng.randint(0, 2), scope)
        if t.is_user_type():
            return w.gen_obj(t, rng.randint(0, 1), list(scope))
        return w.gen_num(rng.randint(0, 2), scope)

    def bad_value_for(self, k):
        """a value whose type cannot be assigned to the key's type: kind mismatch, supertype for a subtype key,
        real for an integer key, disjoint numeric ranges"""
        w, rng, em = self.w, self.rng, self.w.em
        t = k.type
        b0 = em.FluentExp([f for f in w.fluents if f.name == "b0"][0])
        i0 = em.FluentExp([f for f in w.fluents if f.name == "i0"][0])
        r0 = em.FluentExp([f for f in w.fluents if f.name == "r0"][0])
        a0 = em.ObjectExp(w.objs[w.T0][0])
        if t.is_bool_type():
            return rng.choice([em.Int(1), i0, a0, em.Real(Fraction(1, 2))]), "bool<-nonbool"
        if t.is_user_type():
            if t == w.T1 and rng.random() < 0.6:
                o0 = em.FluentExp([f for f in w.fluents if f.name == "o0"][0])
                return rng.choice([a0, o0, em.ParameterExp(w.params[0])]), "subtype<-supertype"
            return rng.choice([em.Int(0), b0, em.TRUE()]), "object<-nonobject"
        opts = [(b0, "number<-bool"), (a0, "number<-object")]
        if t.is_int_type():
            opts += [(r0, "int<-real"), (em.Real(Fraction(1, 3)), "int<-real")]
        if t.upper_bound is not None:
            opts += [(em.Int(int(t.upper_bound) + 7), "disjoint-ranges")] * 2
        if t.lower_bound is not None:
            opts += [(em.Int(int(t.lower_bound) - 7) if t.is_int_type() else em.Real(Fraction(t.lower_bound) - Fraction(15, 2)), "disjoint-ranges")]
        return rng.choice(opts)

    # ---- one case ----
    def fixed_identity_case(self):
        """corpus case:  {(a & b): (a & b), a: c}  applied to  (a & b) | a   must give  (a & b) | c"""
        w = self.world()
        em = w.em
        a = em.FluentExp([f for f in w.fluents if f.name == "b0"][0])
        b = em.ParameterExp([p for p in w.params if p.name == "pb"][0])
        c = em.FluentExp([f for f in w.fluents if f.name == "b1"][0], (em.ObjectExp(w.objs[w.T0][0]),))
        ab = em.And(a, b)
        return {"raw": False, "w": w, "e": em.Or(ab, a), "entries": [(ab, ab), (a, c)], "shapes": ["identity:identity", "nested:plain"],
                "flavor": "identity", "free": [], "bound": [], "malformed": False, "bad_kinds": []}

    def walker_corpus(self):
        """one small expression per OperatorKind; the map replaces every leaf that occurs in a child position, so each
        IdentityDagWalker.walk_* method has to rebuild its node from the REWRITTEN children"""
        from fractions import Fraction as Fr
        from unified_planning.model.timing import StartTiming, EndTiming
        from unified_planning.model.presence import Presence
        w = self.world()
        em = w.em
        fl = {f.name: f for f in w.fluents}
        par = {p.name: p for p in w.params}
        a0, a1 = [em.ObjectExp(o) for o in w.objs[w.T0]]
        c0 = em.ObjectExp(w.objs[w.T1][0])
        b0, i0, i2, o0 = em.FluentExp(fl["b0"]), em.FluentExp(fl["i0"]), em.FluentExp(fl["i2"]), em.FluentExp(fl["o0"])
        pb, pi, p0 = em.ParameterExp(par["pb"]), em.ParameterExp(par["pi"]), em.ParameterExp(par["p0"])
        b1 = lambda x: em.FluentExp(fl["b1"], (x,))
        i1 = lambda x: em.FluentExp(fl["i1"], (x,))
        v = w.fresh_var(w.T0)
        vf = w.fresh_var(w.T0)
        xv, xf = em.VariableExp(v), em.VariableExp(vf)
        t0, t1 = em.TimingExp(StartTiming()), em.TimingExp(EndTiming())
        pr = em.PresentExp(Presence("act"))
        m = [(b0, b1(a0)), (pb, b1(a1)), (i0, i2), (pi, i1(a0)), (o0, c0), (p0, a1), (xf, a0), (t0, t1)]
        exprs = [em.And(b0, pb), em.Or(pb, b0), em.Not(b0), em.Implies(b0, pb), em.Iff(pb, b0),
                 em.Exists(em.And(b1(xv), b0, b1(p0)), v), em.Forall(em.Or(b1(xv), pb), v),
                 b1(p0), em.FluentExp(fl["b2"], (c0, p0)), em.InterpretedFunctionExp(w.ifuns[0], [pi]),
                 em.InterpretedFunctionExp(w.ifuns[1], [pi, i0]), pb, em.Equals(xf, p0), em.Equals(a0, o0),
                 em.And(em.TRUE(), b0), em.LE(em.Int(3), i0), em.LT(em.Real(Fr(1, 2)), pi), em.Plus(i0, pi, 1), em.Minus(pi, i0),
                 em.Times(i0, 2, pi), em.Div(i0, em.Plus(pi, 5)), em.LE(i0, pi), em.LT(pi, i0), em.Equals(i0, pi),
                 em.Always(b0), em.Sometime(pb), em.SometimeBefore(b0, pb), em.SometimeAfter(pb, b0), em.AtMostOnce(b0),
                 em.Dot("ag0", b1(p0)), em.And(em.Dot("ag1", b1(p0)), b1(p0)), em.Dot("ag0", em.FluentExp(fl["b2"], (c0, em.FluentExp(fl["o0"])))),
                 t0, em.And(pr, b0)]
        out = []
        for e in exprs:
            out.append({"raw": False, "w": w, "e": e, "entries": list(m), "shapes": ["corpus:leaf"] * len(m), "flavor": "walker-corpus",
                        "free": [vf], "bound": [v], "malformed": False, "bad_kinds": [], "steps": None})
        return out

    def case(self, malformed, w=None, flavor=None, history=False):
        w, rng = w or self.world(), self.rng
        self.w = w
        em = w.em
        flavor = flavor or rng.choice(["mixed", "nested", "binder", "binder", "leaf", "chain", "equiv", "not", "capture", "capture",
                                       "quant", "absent", "identity", "dot", "dot", "homonym", "homonym"])
        homonym = flavor == "homonym"
        need_q = flavor in ("binder", "capture", "quant", "homonym") or rng.random() < 0.3
        hom_on = homonym or rng.random() < 0.1
        e = None
        for _attempt in range(150 if homonym else 25):
            if hom_on:
                # same-name / different-type variable pairs: free vs bound, outer vs inner binder, sibling binders
                w.fresh_var = self.homonym_vars(w, [], 0.9 if homonym else 0.6)
            try:
                free = [w.fresh_var(rng.choice(w.all_types())) for _ in range(rng.choice([1, 1, 2] if homonym else [0, 1, 1, 2]))]
                depth = rng.choice(self.depths)
                if rng.random() < 0.12 and not need_q:
                    e = self.retry(lambda: w.gen_num(depth, tuple(free)))
                else:
                    e = self.retry(lambda: w.gen_bool(depth, tuple(free), leaf_bias=0.1))
            finally:
                if hom_on:
                    del w.fresh_var
            if e is None:
                continue
            if homonym and not any(homonym_under(x, b) for x, b in occurrences(e)):
                e = None
                continue
            if n_ops(e) < 3 and rng.random() < 0.92:
                e = None
                continue
            if need_q and not any(b and (fv(x) & set(b)) for x, b in occurrences(e)):
                e = None
                continue
            if flavor == "not" and not any(x.is_not() for x, _ in occurrences(e)) and rng.random() < 0.8:
                e = None
                continue
            if flavor == "dot" or rng.random() < 0.1:
                e0 = e
                e = self.retry(lambda: wrap_dots(em, e0, rng, 0.5))
                if e is None or (flavor == "dot" and not any(x.is_dot() and x.arg(0).args for x, _ in occurrences(e))):
                    e = None
                    continue
            break
        if e is None:
            return None
        occ = occurrences(e)
        bound_all = []
        for _, b in occ:
            for v in b:
                if v not in bound_all:
                    bound_all.append(v)
        scope_free, scope_all = tuple(free), tuple(free) + tuple(bound_all)
        nent = rng.randint(1, 4)
        keys, entries, shapes = [], [], []

        def add(k, v, shape):
            if k is None or v is None or k in keys:
                return
            if not k.type.is_compatible(v.type):
                return
            keys.append(k)
            entries.append((k, v))
            shapes.append(shape)

        nonconst = [(x, b) for x, b in occ if not x.is_constant()] or occ
        compound = [(x, b) for x, b in occ if x.args] or nonconst
        under_binder = [(x, b) for x, b in occ if b and (fv(x) & set(b))]
        quants = [(x, b) for x, b in occ if is_quant(x)]
        leaves = [(x, b) for x, b in occ if x.is_parameter_exp() or (x.is_variable_exp() and x.variable() in free)
                  or (x.is_fluent_exp() and all(a.is_object_exp() for a in x.args))]
        homs = [(x, b) for x, b in nonconst if homonym_under(x, b)]
        if homs:
            self.stats["targets_with_free_homonym_under_binder"] += 1
        if flavor == "identity":
            # an identity entry on a compound sub-term K plus 1-2 keys that occur inside K: K's occurrences stay untouched
            cands = [x for x, _ in compound if [y for y, _ in occurrences(x)[1:] if not y.is_constant()]]
            if not cands:
                return None
            K = rng.choice(cands)
            inner = [y for y, _ in occurrences(K)[1:] if not y.is_constant()]
            for _ in range(rng.choice([1, 1, 2])):
                kk = rng.choice(inner)
                md = rng.choice(["plain", "const", "equiv", "not" if kk.type.is_bool_type() else "plain"])
                add(kk, self.retry(lambda: self.value_for(kk, md, scope_free, scope_all, keys)), "inside-identity:" + md)
            if not entries:
                return None
            pos = rng.randint(0, len(entries))
            keys.insert(pos, K)
            entries.insert(pos, (K, K))
            shapes.insert(pos, "identity:identity")
            nent = max(nent, len(entries)) if rng.random() < 0.5 else len(entries)
        tries = 0
        while len(entries) < nent and tries < 25:
            tries += 1
            f = flavor if rng.random() < 0.7 else "mixed"
            if f == "identity":
                f = "mixed"
            k, mode, shape, kb = None, "plain", f, ()
            if f == "mixed":
                k, kb = rng.choice(nonconst if rng.random() < 0.9 else occ)
                mode = rng.choice(["plain", "plain", "capture", "equiv", "otherkey", "const", "not"])
            elif f == "nested":
                if keys and rng.random() < 0.7:
                    base = rng.choice(keys)
                    inner = [x for x, _ in occurrences(base)[1:] if not x.is_constant()]
                    outer = [x for x, _ in compound if x is not base and any(y is base for y, _ in occurrences(x))]
                    pool = inner + outer
                    k = rng.choice(pool) if pool else rng.choice(compound)[0]
                else:
                    k = rng.choice(compound)[0]
            elif f == "binder":
                if under_binder:
                    k, kb = rng.choice(under_binder)
                    mode = rng.choice(["plain", "capture", "const"])
                else:
                    k, shape = rng.choice(nonconst)[0], "mixed"
            elif f == "leaf":
                if leaves:
                    k = rng.choice(leaves)[0]
                else:
                    k = em.ParameterExp(rng.choice(w.params))
                mode = rng.choice(["const", "const", "plain"])
            elif f == "chain":
                k = rng.choice(nonconst)[0]
                mode = "otherkey" if keys else "plain"
            elif f == "equiv":
                k = rng.choice(nonconst)[0]
                mode = "equiv"
            elif f == "not":
                nots = [x.arg(0) for x, _ in occ if x.is_not()]
                k = rng.choice(nots) if nots else rng.choice(nonconst)[0]
                mode = "not" if k.type.is_bool_type() else "plain"
            elif f == "capture":
                ub = [(x, b) for x, b in nonconst if b and not (fv(x) & set(b))] or [(x, b) for x, b in nonconst if b]
                k, kb = rng.choice(ub or nonconst)
                mode = "capture"
            elif f == "quant":
                k = rng.choice(quants)[0] if quants else rng.choice(compound)[0]
            elif f == "absent":
                k = self.retry(lambda: w.gen_bool(1, scope_free))
            elif f == "homonym":
                # a key with a free variable named like a variable bound around the occurrence (other type, hence another
                # Variable): it is NOT out of play under that binder.  Mostly keys free of the really bound variables (must be
                # replaced), sometimes keys that also mention one (must stay); the variable leaf itself included
                must = [(x, b) for x, b in homs if not (fv(x) & set(b))]
                k, kb = rng.choice(must if must and rng.random() < 0.75 else homs)
                mode = rng.choice(["plain", "plain", "const", "const", "equiv", "capture"])
            elif f == "dot":
                # keys inside Dot nodes: arguments of the inner fluent expression, the inner fluent expression, the Dot node
                dots = [x for x, _ in occ if x.is_dot()]
                if dots:
                    dn = rng.choice(dots)
                    inside = [(y, b) for y, b in occurrences(dn)[2:] if not y.is_constant()]
                    r = rng.random()
                    if inside and r < 0.6:
                        k, kb = rng.choice(inside)
                        mode = rng.choice(["plain", "const", "equiv", "capture"])
                    elif r < 0.85:
                        k, mode = dn.arg(0), "fluentexp"
                    else:
                        k, mode = dn, rng.choice(["plain", "fluentexp"])
                else:
                    k, shape = rng.choice(nonconst)[0], "mixed"
            if k is None:
                continue
            kk, kkb = k, kb
            v = self.retry(lambda: self.value_for(kk, mode, scope_free, scope_all, keys, kkb))
            add(k, v, shape + ":" + mode)
        if not entries:
            return None
        bad_kinds = []
        if malformed:
            for _ in range(rng.choice([1, 1, 2])):
                k = rng.choice([x for x, _ in nonconst if x not in keys] or [em.ParameterExp(rng.choice(w.params))])
                if k in keys:
                    continue
                v, kind = self.bad_value_for(k)
                pos = rng.randint(0, len(entries))
                keys.insert(pos, k)
                entries.insert(pos, (k, v))
                shapes.insert(pos, "bad:" + kind)
                bad_kinds.append(kind)
            if not bad_kinds:
                return None
        steps = None
        if history:
            # in-place mutations of the SAME dict between calls (its size never changes)
            js = [i for i, sh in enumerate(shapes) if not sh.startswith("identity")]
            j = rng.choice(js)
            kj, v0 = entries[j]
            v1 = None
            for _ in range(6):
                cand = self.retry(lambda: self.value_for(kj, rng.choice(["plain", "const", "equiv"]), scope_free, scope_all, keys))
                if cand is not None and cand is not v0 and kj.type.is_compatible(cand.type):
                    v1 = cand
                    break
            if v1 is None:
                return None
            vbad, kind = self.bad_value_for(kj)
            steps = [("same", j, v0), ("compatible", j, v1), ("same", j, v1), ("incompatible:" + kind, j, vbad), ("compatible", j, v0),
                     ("compatible", j, v1)]
            steps = [(a, b, c, rng.random() < 0.5) for a, b, c in steps]       # True: through env.substituter.substitute
        return {"raw": rng.random() < 0.15 and not history, "w": w, "e": e, "entries": entries, "shapes": shapes, "flavor": flavor,
                "free": free, "bound": bound_all, "malformed": malformed, "bad_kinds": bad_kinds, "steps": steps}


def demote(x, is_key):
    """the non-FNode spelling of an expression where one exists (auto_promote turns it back into the same node)"""
    if x.is_fluent_exp() and not x.args:
        return x.fluent()
    if x.is_parameter_exp():
        return x.parameter()
    if x.is_variable_exp():
        return x.variable()
    if is_key:
        return x            # constants as dict keys would collide (1 == True)
    if x.is_object_exp():
        return x.object()
    if x.is_bool_constant():
        return x.bool_constant_value()
    if x.is_int_constant():
        return x.constant_value()
    if x.is_real_constant() and x.constant_value().denominator != 1:
        return x.constant_value()           # an integral Real node would come back as an Int node: keep the FNode
    return x


def sample_interps(w, c, rng, n):
    out = []
    for i in range(n):
        fl, par, _ifun = w.rand_interp(undefined_rate=rng.choice([0.0, 0.0, 0.1]), corner=rng.random() < 0.2)
        var = {}
        for v in c["free"]:
            var[v] = rng.choice(w.objects_of(v.type))
        for v in c["bound"]:
            if rng.random() < 0.4:
                var[v] = rng.choice(w.objects_of(v.type))
        out.append((fl, par, var))
    return out


# ---------------------------------------------------------------------------------------------------------------
def run(ctx):
    # regenerate Gen/Gen_Walkers.v (walker dispatch tables) from $UP_REPO before the theorems are re-checked
    from harness.ext._dispatch_common import prepare as _prepare_dispatch
    _prepare_dispatch(ctx)
    import unified_planning as up
    from unified_planning.exceptions import UPTypeError
    from harness.gen.exprs import World

    ok_proofs = ctx.check_props(extra=["theories/Corr/Corr_C13.v"])
    # private directory for the generated case files: a concurrent `./check C13` empties build/cases/C13 when it starts
    import os
    import shutil
    ctx.dir = os.path.join(ctx.dir, "run_%d" % os.getpid())
    os.makedirs(ctx.dir, exist_ok=True)
    rng = ctx.rng
    n_good = 270 if ctx.quick else 2400
    n_bad = 70 if ctx.quick else 480
    n_interp = 3 if ctx.quick else 4
    gen = Gen(rng, World)
    if not ctx.quick:
        gen.depths = [2, 3, 3, 4, 4, 5]
    cases, raw = [], []
    dist = Counter()
    distinct = set()
    direct_failures = 0

    def observe(c):
        """run the real implementation; returns the raw record or None when the case is outside the property's scope"""
        nonlocal direct_failures
        w, e, entries = c["w"], c["e"], c["entries"]
        em, env = w.em, w.env
        subs = dict(entries)
        raw_entries = list(entries)
        if c.get("raw"):
            raw_entries = [(demote(k, True), demote(v, False)) for k, v in entries]
            dist["maps_with_non_FNode_entries"] += 1
        given = dict(raw_entries)
        assert len(given) == len(entries)
        sub = env.substituter
        names = Names()
        for f in w.ifuns:
            names.ifun(f)
        rec = {"e": str(e), "map": [(str(k), str(v), str(k.type), str(v.type)) for k, v in entries], "shapes": c["shapes"],
               "flavor": c["flavor"], "malformed": c["malformed"]}
        # variables print by name only: list the names that stand for two Variables (same name, different type)
        vs_all = set()
        for x in [e] + [y for kv in entries for y in kv]:
            for y, b in occurrences(x):
                vs_all |= set(b) | (set([y.variable()]) if y.is_variable_exp() else set())
        hom = {n: sorted(str(v.type) for v in vs_all if v.name == n) for n in {v.name for v in vs_all}}
        hom = {n: ts for n, ts in hom.items() if len(ts) > 1}
        if hom:
            rec["same_name_variables"] = hom
            dist["cases_with_same_name_variables"] += 1
        # --- independent oracle first (it may create nodes; the implementation's bookkeeping is sampled after it) ---
        spec, spec_exc = None, None
        if not c["malformed"]:
            try:
                spec = topdown(em, e, subs)
            except BaseException as ex:          # the specified result is not an expression the manager accepts
                spec_exc = type(ex).__name__
        n_nodes, memo_len, stack_len, e_id, e_str = len(em.expressions), len(sub.memoization), len(sub.stack), e.node_id, str(e)
        try:
            got, exc = e.substitute(given), None
        except BaseException as ex:
            got, exc = None, ex
        rec["observed"] = str(got) if exc is None else "%s: %s" % (type(exc).__name__, exc)
        tags = ["c13", "flavor:" + c["flavor"]] + ["shape:" + s for s in c["shapes"]]
        if c["malformed"]:
            dist["malformed"] += 1
            for k in c["bad_kinds"]:
                dist["bad:" + k] += 1
            if exc is None:
                direct_failures += 1
                ctx.fail("oracle", "a map with a type-incompatible entry (%s) was accepted by FNode.substitute" % c["bad_kinds"],
                         tags + ["incompatible-map-accepted"], rec, True)
                return None
            if not isinstance(exc, UPTypeError):
                direct_failures += 1
                ctx.fail("oracle", "a map with a type-incompatible entry was rejected with %s instead of UPTypeError" % type(exc).__name__,
                         tags + ["wrong-exception:" + type(exc).__name__], rec, True)
                return None
            changed = []
            if len(em.expressions) != n_nodes:
                changed.append("expression manager table grew by %d" % (len(em.expressions) - n_nodes))
            if len(sub.memoization) != memo_len or len(sub.stack) != stack_len:
                changed.append("shared substituter: memoization %d->%d stack %d->%d" % (memo_len, len(sub.memoization), stack_len, len(sub.stack)))
            if e.node_id != e_id or str(e) != e_str:
                changed.append("expression changed")
            good = {k: v for (k, v), s in zip(raw_entries, c["shapes"]) if not s.startswith("bad:")}
            good_f = {k: v for (k, v), s in zip(entries, c["shapes"]) if not s.startswith("bad:")}
            try:
                want = topdown(em, e, good_f) if good else e
            except BaseException:
                want = None          # the specified result of the compatible part cannot be built (x / 0, Dot over a non-fluent)
            if want is not None:
                try:
                    after = e.substitute(good) if good else e
                    if after != want:
                        changed.append("a later call with the compatible part of the map returns %s instead of %s" % (after, want))
                except BaseException as ex:
                    changed.append("a later call with the compatible part of the map raises %r" % (ex,))
            if changed:
                direct_failures += 1
                rec["changed"] = changed
                ctx.fail("oracle", "rejecting an incompatible map changed something: " + "; ".join(changed),
                         tags + ["rejection-not-clean"], rec, True)
                return None
            msg = str(exc)
            idx = [i for i, (k, v) in enumerate(raw_entries)
                   if msg == "The expression type of %s is not compatible with the given substitution %s" % (str(k), str(v))]
            rec["err_index"] = idx[0] if idx else None
            if not idx:
                direct_failures += 1
                ctx.fail("corr", "UPTypeError message names no entry of the map: %s" % msg, tags + ["error-names-no-entry"], rec, False)
                return None
            obs = "TypeErr %s" % gnat(idx[0])
            pyspec, cf = "None", True
        else:
            if exc is not None:
                if spec_exc is not None and type(exc).__name__ == spec_exc:
                    dist["result_not_constructible:" + spec_exc] += 1      # e.g. x/0 under a bounded numerator: no result exists
                    return None
                direct_failures += 1
                ctx.fail("oracle", "FNode.substitute raised %s on a type-compatible map (independent replacement: %s)" % (
                    rec["observed"], spec if spec_exc is None else spec_exc), tags + ["raises-on-compatible-map:" + type(exc).__name__], rec, True)
                return None
            if spec_exc is not None:
                direct_failures += 1
                ctx.fail("oracle", "independent replacement raised %s but FNode.substitute returned %s" % (spec_exc, got),
                         tags + ["oracle-raises"], rec, False)
                return None
            rec["topdown"] = str(spec)
            if got != spec:
                direct_failures += 1
                rec["py_oracle_failed"] = True      # the case still goes to Coq, which must flag it as well
                ctx.fail("oracle", "FNode.substitute returned %s; replacing the maximal key occurrences top-down gives %s" % (got, spec),
                         tags + ["result!=topdown"], dict(rec), True)
            if len(sub.memoization) != 0 or len(sub.stack) != 0:
                direct_failures += 1
                ctx.fail("corr", "shared substituter keeps state after a call: memoization %d, stack %d" % (len(sub.memoization), len(sub.stack)),
                         tags + ["walker-state-left"], rec, False)
                return None
            obs = "Done %s" % ser_expr(got, names)
            pyspec = "(Some %s)" % ser_expr(spec, names)
            cf = capture_free(e, subs)
            rec["capture_free"] = cf
            dist["capture_free" if cf else "capturing (outside subst_eval's hypothesis)"] += 1
            dist["changed" if got != e else "unchanged"] += 1
            if not cf and "capturing_example" not in dist_examples:
                dist_examples["capturing_example"] = {"e": str(e), "map": rec["map"], "result": str(got)}
        gmap = glist(["(%s, %s, %s, %s)" % (ser_expr(k, names), ser_expr(v, names), ser_ty(k.type, names), ser_ty(v.type, names))
                      for k, v in entries])
        interps = [] if c["malformed"] else sample_interps(w, c, rng, n_interp)
        gi = glist([ser_fi(fl, par, var, w.objs_table(), names) for fl, par, var in interps])
        term = "{| c_e := %s; c_map := %s; c_obs := %s; c_pyspec := %s; c_cfree := %s; c_interps := %s |}" % (
            ser_expr(e, names), gmap, obs, pyspec, gbool(cf), gi)
        rec["names"] = names.table()
        rec["tags"] = tags
        for s in c["shapes"]:
            dist["entry:" + s.split(":")[0]] += 1
            dist["value:" + s.split(":")[1]] += 1
        dist["entries=%d" % len(entries)] += 1
        dist["ops>=3" if n_ops(e) >= 3 else "ops<3"] += 1
        if n_ops(e) >= 3 and (c["malformed"] or got != e):
            distinct.add(json.dumps([rec["e"], rec["map"]]))
        return rec, term

    dist_examples = {}
    produced = {"good": 0, "bad": 0}
    attempts = 0
    while (produced["good"] < n_good or produced["bad"] < n_bad) and attempts < 20 * (n_good + n_bad):
        attempts += 1
        malformed = produced["good"] >= n_good or (produced["bad"] < n_bad and rng.random() < n_bad / float(n_good + n_bad))
        c = gen.case(malformed)
        if c is None:
            continue
        r = observe(c)
        produced["bad" if malformed else "good"] += 1
        if r is None:
            continue
        raw.append(r[0])
        cases.append(r[1])

    # ---- walker corpus: one expression per OperatorKind, every child position holding a key (IdentityDagWalker.walk_*) ----
    from unified_planning.model.operators import OperatorKind
    corpus = gen.walker_corpus()
    kinds = set()
    for c in corpus:
        kinds |= {x.node_type for x, _ in occurrences(c["e"])}
        r = observe(c)
        dist["walker_corpus"] += 1
        if r is not None:
            raw.append(r[0])
            cases.append(r[1])
    if set(OperatorKind) - kinds:
        ctx.fail("harness", "walker corpus does not cover operator kinds %s" % sorted(k.name for k in set(OperatorKind) - kinds),
                 ["c13", "corpus-incomplete"], {}, False)

    # ---- fixed corpus case: identity entry on a compound key + a key inside it ----
    r = observe(gen.fixed_identity_case())
    if r is not None:
        if r[0]["observed"] != "((b0 and pb) or b1(a0))":
            ctx.fail("oracle", "corpus case {(a & b): (a & b), a: c} on (a & b) | a returned %s" % r[0]["observed"],
                     ["c13", "corpus:identity-entry"], r[0], True)
        raw.append(r[0])
        cases.append(r[1])

    # ---- histories on the shared env.substituter: the SAME dict object, mutated in place between calls ----
    import random as _random
    from unified_planning.model.walkers import Substituter

    last = {}

    def outcome_sig(f):
        try:
            last["node"] = f()
            return ("ok", ser_expr(last["node"], Names()))
        except BaseException as ex:
            last["node"] = None
            return ("exc", type(ex).__name__, str(ex))

    n_hist = 30 if ctx.quick else 200
    hist_done = 0
    for _h in range(4 * n_hist):
        if hist_done >= n_hist:
            break
        w = gen.world()
        state, nv0 = rng.getstate(), w.nvars
        c = gen.case(False, w=w, history=True)
        if c is None:
            continue

        def replica():
            r2 = _random.Random()
            r2.setstate(state)
            g2 = Gen(r2, World)
            g2.depths = gen.depths
            w2 = World(r2)
            w2.nvars = nv0
            return g2.case(False, w=w2, history=True)

        hist_done += 1
        dist["history_sequences"] += 1
        e, em, sub = c["e"], w.em, w.env.substituter
        d = dict(c["entries"])                       # the one dict object used for the whole sequence
        for ci, (what, j, val, via_walker) in enumerate(c["steps"]):
            kj = c["entries"][j][0]
            d[kj] = val                              # in place, size unchanged
            content = list(d.items())
            dist["history_calls"] += 1
            dist["history_call:" + what.split(":")[0]] += 1
            tags = ["c13", "history", "same-dict-mutated", "step:" + what.split(":")[0],
                    "via:" + ("env.substituter.substitute" if via_walker else "FNode.substitute")]
            rec = {"e": str(e), "call": ci, "step": what, "via": tags[-1], "map_now": [(str(k), str(v)) for k, v in content],
                   "history": [(a, str(c["entries"][b][0]), str(v)) for a, b, v, _ in c["steps"][:ci + 1]], "malformed": what.startswith("incompatible"),
                   "tags": tags}
            n_nodes = len(em.expressions)
            if via_walker:
                got = outcome_sig(lambda: sub.substitute(e, d))
            else:
                got = outcome_sig(lambda: e.substitute(d))
            res = last["node"]        # nothing else may call the shared walker between the calls of the sequence
            c2 = replica()
            if c2 is None or ser_expr(c2["e"], Names()) != ser_expr(e, Names()):
                ctx.fail("harness", "history replica in a fresh Environment is not the same case", ["c13", "replica-differs"], rec, False)
                break
            d2 = dict(c2["entries"])
            for (_a, jj, vv, _v) in c2["steps"][:ci + 1]:
                d2[c2["entries"][jj][0]] = vv
            fresh_env = outcome_sig(lambda: c2["e"].substitute(dict(d2)))
            fresh_walker = outcome_sig(lambda: Substituter(w.env).substitute(e, dict(content)))
            rec["observed"], rec["fresh_environment"], rec["fresh_walker_fresh_dict"] = got, fresh_env, fresh_walker
            if got != fresh_env or got != fresh_walker:
                direct_failures += 1
                ctx.fail("oracle", "call #%d on the same dict object (mutated in place: %s) answers %s; the same call on a fresh Environment "
                         "answers %s, on a fresh walker and dict %s" % (ci, what, got[:2], fresh_env[:2], fresh_walker[:2]), tags + ["history-dependent"], rec, True)
                continue
            if what.startswith("incompatible"):
                if got[0] != "exc" or got[1] != "UPTypeError":
                    direct_failures += 1
                    ctx.fail("oracle", "in-place change to an incompatible value was not rejected with UPTypeError: %s" % (got[:2],),
                             tags + ["incompatible-map-accepted"], rec, True)
                    continue
                if len(em.expressions) != n_nodes or sub.memoization or sub.stack:
                    direct_failures += 1
                    ctx.fail("oracle", "rejecting the in-place changed map changed something", tags + ["rejection-not-clean"], rec, True)
                    continue
                idx = [i for i, (k, v) in enumerate(content)
                       if got[2] == "The expression type of %s is not compatible with the given substitution %s" % (str(k), str(v))]
                if not idx:
                    ctx.fail("corr", "UPTypeError message names no entry of the map: %s" % got[2], tags + ["error-names-no-entry"], rec, False)
                    continue
                obs, pyspec, cf = "TypeErr %s" % gnat(idx[0]), "None", True
                names = Names()
                for f in w.ifuns:
                    names.ifun(f)
            else:
                if got[0] == "exc":
                    dist["result_not_constructible:" + got[1]] += 1       # same exception everywhere: no result exists
                    continue
                names = Names()
                for f in w.ifuns:
                    names.ifun(f)
                try:
                    spec = topdown(em, e, dict(content))
                except BaseException as ex:
                    direct_failures += 1
                    ctx.fail("oracle", "history call: independent replacement raised %r but the implementation returned %s" % (ex, res),
                             tags + ["oracle-raises"], rec, False)
                    continue
                if res != spec:
                    direct_failures += 1
                    ctx.fail("oracle", "history call: result %s != top-down replacement %s" % (res, spec), tags + ["result!=topdown"], rec, True)
                    continue
                obs, pyspec, cf = "Done %s" % ser_expr(res, names), "(Some %s)" % ser_expr(spec, names), capture_free(e, dict(content))
            gmap = glist(["(%s, %s, %s, %s)" % (ser_expr(k, names), ser_expr(v, names), ser_ty(k.type, names), ser_ty(v.type, names))
                          for k, v in content])
            raw.append(rec)
            cases.append("{| c_e := %s; c_map := %s; c_obs := %s; c_pyspec := %s; c_cfree := %s; c_interps := [] |}" % (
                ser_expr(e, names), gmap, obs, pyspec, gbool(cf)))

    # ---- Coq: model + specification + evaluation statements on every case ----
    shard = 60
    shards = [(i, cases[i:i + shard]) for i in range(0, len(cases), shard)]
    pre = ift_preamble()

    def one(arg):
        base, cs = arg
        body = pre + "Definition cs : list case :=\n [ %s ].\n" % "\n ; ".join(cs)
        body += "Eval vm_compute in (failing ok cs).\nEval vm_compute in (sum_counts cs).\n"
        out = ctx.coq_run(body, ["UPV.Base.Cases"] + IMPORTS, name="c13_%d" % base)
        parts = out.split("= ")
        fails = [base + int(x) for x in re.findall(r"(\d+)%N", parts[1].rsplit(":", 1)[0])] if len(parts) > 1 else None
        cnt = [int(x) for x in re.findall(r"\d+", parts[2].rsplit(":", 1)[0])] if len(parts) > 2 else None
        if fails is None or cnt is None or len(cnt) != 3:
            raise CoqError("unexpected coq output: %s" % out[-500:])
        return fails, cnt

    bad, counts = [], [0, 0, 0]
    with ThreadPoolExecutor(max_workers=2) as ex:
        for fails, cnt in ex.map(one, shards):
            bad += fails
            counts = [a + b for a, b in zip(counts, cnt)]

    for i in sorted(bad):
        rec = raw[i]
        model = ctx.coq_show("(model_outcome c, topdown_replace (untyped (c_map c)) (c_e c), capture_free (untyped (c_map c)) (c_e c), nf (c_e c))",
                             imports=IMPORTS, preamble=pre + "Definition c := %s.\n" % cases[i])
        # the structural oracle (result == independent top-down replacement, clean rejection) already passed in Python for
        # every case that reached Coq, so a disagreement here is between the MODEL and the implementation
        pf = bool(rec.get("py_oracle_failed"))
        ctx.fail("corr", "substitute: Coq model/specification and implementation disagree (corr:C13:substitute_call/topdown_replace/eval_checks)",
                 rec["tags"] + ["corr"] + (["result!=topdown"] if pf else []),
                 {"case": rec, "model": model, "theorem_or_corr": "corr:C13:ok"}, pf)
    missed = [r for i, r in enumerate(raw) if r.get("py_oracle_failed") and i not in set(bad)]
    if missed:
        ctx.fail("harness", "Coq accepted %d case(s) on which the Python oracle found result != top-down replacement" % len(missed),
                 ["c13", "coq-missed"], {"cases": missed[:3]}, True)
    if not ok_proofs:
        ctx.proof_broken()
    if not ctx.failures:
        shutil.rmtree(ctx.dir, ignore_errors=True)
    ctx.finish({
        "evaluations": len(cases),
        "distinct_nontrivial": len(distinct),
        "rule": "distinct (expression, map) pairs whose expression has >= 3 operators and whose result differs from the input "
                "(or whose map is rejected); unchanged results and small expressions are evaluated but not counted",
        "samples": raw[:2] + [r for r in raw if r["malformed"]][:1],
        "distribution": dict(sorted(dist.items())),
        "generator": dict(gen.stats),
        "evaluation_statement_instances": {
            "subst_eval hypotheses hold at the sampled interpretation": counts[0],
            "subst_eval hypotheses hold at the interpretation updated by the map (leaf keys)": counts[1],
            "subst_eval_updated hypotheses hold (result in I vs original in updated I)": counts[2],
            "interpretations_per_case": n_interp, "modes": ["strict", "short-circuit"]},
        "capturing_cases_outside_subst_eval_hypothesis": dist.get("capturing (outside subst_eval's hypothesis)", 0),
        "capturing_example": dist_examples.get("capturing_example"),
        "oracle_failures_found_in_python": direct_failures,
        "cases_flagged_by_coq": len(bad),
        "failure_kinds": dict(Counter(f.kind + ("" if f.property_fails else ":no-failing-input") for f in ctx.failures)),
    }, "proof", assumptions=[
        "expressions are built by the ExpressionManager constructors (nf)",
        "types of keys/values are those computed by the implementation's TypeChecker (subject of C15)",
        "subst_eval: capture-freedom and Boolean-or-undefined operand of Not-headed replacements (see Props/C13.v examples)",
        "cases whose specified result cannot be constructed (TypeChecker raises, e.g. x/0) are skipped and counted in the distribution"])
