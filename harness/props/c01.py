"""C01 — Sequential simulator computes exactly the documented successor semantics.

Theorems: coq/theories/Props/C01.v.  Tie: correspondence + direct oracle — generated problems are explored through
the real UPSequentialSimulator; for every (reachable state, ground action instance) Coq recomputes the documented step
`spec_step false` (property oracle) and the model of the code `sim_apply true` on the same pair and compares verdict
and successor; goal verdicts likewise.
"""
import json

from harness import simexplore as sx

META = {
    "level": "proof",
    "technique": "Coq proof (ordered effect loop = declarative per-fluent combination, by a per-fluent automaton and induction over effect lists and plans) + model/implementation correspondence on explored (state, action) pairs by vm_compute",
    "text": "The Gallina model of apply_unsafe/_evaluate_effect is proved equal to the declarative successor semantics for all problems, states, actions and plans; the model and the declarative semantics are both compared with the real simulator on every explored (state, ground action) pair.",
    "note": "Trusted: Coq kernel/vm_compute, harness serialiser. Modelled at the semantic level: grounding = parameter binding (GrounderHelper's syntactic simplification is not modelled; deviations show up as correspondence failures), StateEvaluator = eval with short-circuit quantifiers, simulated effects not modelled (not generated). Bounded types are derived from fluent declarations in Coq.",
}

IMPORTS = ["UPV.Core.Expr", "UPV.Core.Eval", "UPV.Core.Interp", "UPV.Planning.Problem", "UPV.Planning.Sem", "UPV.Corr.Corr_C01"]


def gather(ctx, n_problems, depth, max_states, max_inst, knobs=None):
    exs = []
    for hp in sx.corpus_problems():          # hand-written corner cases run first
        exs.append(sx.explore_problem(len(exs), ctx.rng, depth, max_states, 40, {}, gen=hp))
    for i in range(n_problems):
        exs.append(sx.explore_problem(len(exs), ctx.rng, depth, max_states, max_inst, knobs or {},
                                      walk_len=(45 if i % 5 == 0 else 0)))
    return exs


def preamble(exs):
    return "\n".join("Definition P%d : problem := %s." % (ex.idx, ex.ser.render()) for ex in exs if ex.skipped is None) + "\n"


def dropped_undefined_read(ex, rec):
    """True when GrounderHelper's simplification of the grounded action removes a read of a ground fluent that has no
    value in the state (DESIGN.md finding #34): the only way the implementation can satisfy a condition that the
    documented semantics calls unsatisfied-because-undefined, quantifiers aside."""
    a, args = rec["action"], rec["args"]
    subs = dict(zip(a.parameters, args))
    env = a.environment
    undefined = set()
    for (f, fargs), v in zip(ex.ser.gfluents, rec["state"]):
        if v is None:
            undefined.add(ex.ser.fexp(f, fargs))
    if not undefined:
        return False
    exprs = list(a.preconditions)
    for e in a.effects:
        exprs += [e.condition, e.value] + list(e.fluent.args)
    for x in exprs:
        y = x.substitute(subs) if subs else x
        z = y.simplify()
        before = env.free_vars_extractor.get(y)
        after = env.free_vars_extractor.get(z)
        if (before - after) & undefined:
            return True
    return False


def grounding_rejects_equal_assignments(ex, rec):
    """True when GrounderHelper.ground_action returns None because two effects of the action get the same ground target
    with syntactically different value expressions (DESIGN.md finding #4)."""
    from unified_planning.engines.compilers.grounder import GrounderHelper
    a, args = rec["action"], rec["args"]
    try:
        if GrounderHelper(ex.gen.problem, prune_actions=False).ground_action(a, args) is not None:
            return False
    except Exception:
        return False
    subs = dict(zip(a.parameters, args))
    seen = {}
    for e in a.effects:
        if e.is_forall():
            continue
        t = e.fluent.substitute(subs).simplify() if subs else e.fluent
        v = e.value.substitute(subs).simplify() if subs else e.value
        if t in seen and seen[t] != v:
            return True
        seen.setdefault(t, v)
    return False


def forall_variable_vanishes(ex, rec):
    """True when an increase/decrease forall effect of the action loses a quantified variable once the action is
    grounded and simplified (e.g. `forall v if (v == v) then r += 1`): Effect.__init__ drops forall variables that are
    not free in the effect, so the grounded effect is applied once instead of once per object."""
    a, args = rec["action"], rec["args"]
    subs = dict(zip(a.parameters, args))
    fvo = a.environment.free_vars_oracle
    for e in a.effects:
        if not e.is_forall() or e.is_assignment():
            continue
        free = set()
        for x in (e.fluent, e.value, e.condition):
            y = (x.substitute(subs) if subs else x).simplify()
            free |= set(fvo.get_free_variables(y))
        if any(v not in free for v in e.forall):
            return True
    return False


def classify(ex, rec, code):
    """tags for a failing pair (narrow: call site + shape)"""
    tags = ["c01"]
    if rec["apply"] is not None and code & 1 and code & 2 and dropped_undefined_read(ex, rec):
        tags.append("grounder-simplification-drops-undefined-read")
        tags.append("impl-applicable")
    if code & 1 and code & 2 and not rec["raised"] and forall_variable_vanishes(ex, rec):
        tags.append("forall-variable-vanishes-after-grounding")
        tags.append("increase-or-decrease")
    if rec["apply"] is None and not rec["raised"] and code & 1 and code & 2 and grounding_rejects_equal_assignments(ex, rec):
        tags.append("grounding-rejects-equal-valued-assignments")
        tags.append("impl-inapplicable")
    if rec["raised"]:
        tags.append("raises")
        tags.append(rec["raised"].split(":")[0] + ":" + rec["raised"].split(":")[1])
    if code & 1 and not code & 2:
        tags.append("impl-equals-short-circuit-model")
    if code & 1 and code & 2:
        tags.append("impl-differs-from-model-and-spec")
    if code & 4:
        tags.append("ill-typed-effects")
    return tags


def run(ctx):
    ok_proofs = ctx.check_props(extra=["theories/Corr/Corr_C01.v"])
    if ctx.quick:
        exs = gather(ctx, 45, depth=2, max_states=5, max_inst=14)
    else:
        exs = gather(ctx, 500, depth=4, max_states=14, max_inst=30)
    live = [ex for ex in exs if ex.skipped is None]
    pre = preamble(live)
    cases, owners = [], []
    gcases, gowners = [], []
    stats = {"problems": len(exs), "skipped": {}, "pairs": 0, "applicable": 0, "inapplicable": 0, "raised": 0,
             "states": 0, "goal_states": 0, "effects_kinds": {}}
    for ex in exs:
        if ex.skipped is not None:
            key = ex.skipped.split(":")[0]
            stats["skipped"][key] = stats["skipped"].get(key, 0) + 1
            continue
        for a in ex.gen.actions:
            for e in a.effects:
                kk = ("cond-" if e.is_conditional() else "") + ("forall-" if e.is_forall() else "") + e.kind.name
                stats["effects_kinds"][kk] = stats["effects_kinds"].get(kk, 0) + 1
        for rec in ex.pairs:
            stats["pairs"] += 1
            if rec["raised"]:
                stats["raised"] += 1
            if rec["apply"] is not None:
                stats["applicable"] += 1
            else:
                stats["inapplicable"] += 1
            cases.append("(P%d, %s)" % (ex.idx, sx.ser_pair_case(ex, rec)))
            owners.append((ex, rec))
        for srec in ex.states:
            stats["states"] += 1
            stats["goal_states"] += 1 if srec["isgoal"] else 0
            gcases.append("(P%d, %s)" % (ex.idx, sx.ser_goal_case(ex, srec)))
            gowners.append((ex, srec))
    codes = ctx.coq_codes(cases, "fun pc => code (fst pc) (snd pc)", imports=IMPORTS, preamble=pre, shard=200, label="pairs")
    gcodes = ctx.coq_codes(gcases, "fun pc => gcode (fst pc) (snd pc)", imports=IMPORTS, preamble=pre, shard=300, label="goals")
    nontrivial = set()
    for (ex, rec), code in zip(owners, codes):
        key = json.dumps(sx.pair_json(ex, rec), default=str, sort_keys=True)
        # non-trivial: applicable, or inapplicable although every precondition holds (conflict / invariant / undefined)
        if rec["apply"] is not None or rec["isapp"] is False:
            nontrivial.add(key)
        bad_spec = bool(code & 1) or bool(rec["raised"]) or rec.get("state_changed")
        bad_model = bool(code & 2)
        if bad_spec or bad_model:
            tags = classify(ex, rec, code)
            ctx.fail("oracle" if bad_spec else "corr",
                     "simulator step differs from %s on a (state, action) pair (code %d; %s)" % (
                         "the documented semantics" if bad_spec else "the model only (corr:C01:sim_apply)", code, rec["raised"]),
                     tags,
                     {"pair": sx.pair_json(ex, rec), "problem_text": str(ex.gen.problem), "code_bits": code,
                      "names": ex.ser.names.table(), "theorem_or_corr": "corr:C01:sim_apply / oracle spec_step"},
                     bad_spec)
    for (ex, srec), code in zip(gowners, gcodes):
        if code & 1 or srec["raised"]:
            tags = ["c01", "goal"] + (["impl-equals-short-circuit-model"] if not code & 2 else [])
            ctx.fail("oracle", "is_goal differs from the documented semantics (code %d; %s)" % (code, srec["raised"]), tags,
                     {"state": ex.ser.json_state(srec["vals"]), "is_goal": srec["isgoal"], "problem_text": str(ex.gen.problem)}, True)
        elif code & 2:
            ctx.fail("corr", "is_goal differs from the model (corr:C01:sim_is_goal)", ["c01", "goal"],
                     {"state": ex.ser.json_state(srec["vals"]), "is_goal": srec["isgoal"], "problem_text": str(ex.gen.problem)}, False)
    if not ok_proofs:
        ctx.proof_broken()
    samples = [sx.pair_json(ex, rec) for (ex, rec) in owners[:3]]
    ctx.finish({
        "evaluations": len(cases) + len(gcases),
        "distinct_nontrivial": len(nontrivial),
        "rule": "generated problems (C01 grammar) explored through the real simulator breadth-first to the tier's depth; one case per (reachable state, ground action instance); non-trivial = applicable, or is_applicable answered False; distinct by (problem, state, action, args)",
        "samples": samples,
        "distribution": stats,
        "traces_validated_against_impl": len(cases),
        "states": stats["states"],
        "transitions": stats["applicable"],
    }, "proof", assumptions=["simulated effects are not generated", "fluent parameters are user-typed"])
