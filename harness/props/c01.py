"""C01 — Sequential simulator computes exactly the documented successor semantics.

Theorems: coq/theories/Props/C01.v.  Tie: correspondence + direct oracle — generated problems are explored through
the real UPSequentialSimulator; for every (reachable state, ground action instance) Coq recomputes the documented step
`spec_step false` (property oracle), the semantic-level model of the code `sim_apply true` and the model WITH the
grounding step `sim_apply_grounded true` (Planning/Ground.v: parameter substitution, the C11 simplifier model,
syntactic conflict check, vanishing forall variables) on the same pair and compares verdict and successor; goal
verdicts likewise.
"""
import json
import math
import os

from harness import simexplore as sx

META = {
    "level": "proof",
    "technique": "Coq proof (ordered effect loop = declarative per-fluent combination, by a per-fluent automaton and induction over effect lists and plans; grounding step = identity on total information, via C11's simplifier soundness) + model/implementation correspondence on explored (state, action) pairs by vm_compute",
    "text": "The Gallina model of apply_unsafe/_evaluate_effect is proved equal to the declarative successor semantics for all problems, states, actions and plans; the model of GrounderHelper.ground_action / create_action_with_given_subs (substitution, Simplifier model of C11, syntactic conflict check, vanishing forall variables) is proved to change nothing when every read is defined, no rebuilt effects conflict syntactically and no forall variable vanishes, and the three ways it deviates otherwise are proved as witnesses inside the model; the declarative semantics, the semantic-level model and the grounded model are all compared with the real simulator on every explored (state, ground action) pair.",
    "note": "Trusted: Coq kernel/vm_compute, harness serialiser (incl. the user-type table object -> type, type -> ancestors passed to the grounded model). Grounding is now modelled through the C11 simplifier model (Planning/Ground.v: sim_apply_grounded; env.simplifier without static fluents, as GrounderHelper(prune_actions=False) configures it); FNode.substitute of parameters is the plain homomorphic replacement; StateEvaluator = eval with short-circuit quantifiers; not modelled: simulated effects (not generated), a simplifier call that raises (constant zero divisor; reported separately), Real-typed action parameters and interpreted functions of Real/user return type (node tags). Bounded types are derived from fluent declarations in Coq. No axioms.",
}

IMPORTS = ["UPV.Core.Expr", "UPV.Core.Eval", "UPV.Core.Interp", "UPV.Planning.Problem", "UPV.Planning.Sem", "UPV.Corr.Corr_C01"]
IMPORTS_G = IMPORTS + ["UPV.Planning.Ground", "UPV.Corr.Corr_C01g"]      # the comparison with the grounded model (C01 only)

# bits of Corr_C01g.codeg above those of Corr_C01.code
G_DIFF, G_CONFLICT, G_VARS, G_MATTERS, G_FUEL, G_RAISES, G_OUTSIDE, G_ISAPP, G_UNDEF = 32, 64, 128, 256, 512, 1024, 2048, 4096, 8192


def extra_corpus():
    """C01's own corner problems (not shared with C03/C04): forall effects whose quantified variable vanishes when the
    grounded action is simplified, next to forall effects whose variable stays."""
    from fractions import Fraction
    from unified_planning.shortcuts import Fluent, Object, Problem, InstantaneousAction, Variable
    from unified_planning.environment import Environment
    env = Environment()
    tm, em = env.type_manager, env.expression_manager
    T = tm.UserType("T")
    p = Problem("forall-variable-vanishes", env)
    o1, o2 = Object("o1", T, env), Object("o2", T, env)
    p.add_objects([o1, o2])
    r = Fluent("r", tm.IntType(0, 6), environment=env)
    w = Fluent("w", tm.IntType(0, 6), t=T, environment=env)
    p.add_fluent(r, default_initial_value=1)
    p.add_fluent(w, default_initial_value=2)
    v = Variable("v", T, env)
    a = InstantaneousAction("inc_taut", _env=env)                      # forall v. if v == v then r += 1   (v vanishes)
    a.add_increase_effect(r, 1, em.Equals(v, v), forall=(v,))
    b = InstantaneousAction("dec_param", l=T, _env=env)                # forall v. if v == l then r -= 1   (v stays)
    b.add_decrease_effect(r, 1, em.Equals(v, b.parameter("l")), forall=(v,))
    c = InstantaneousAction("inc_all", _env=env)                       # forall v. w(v) += 1               (v stays)
    c.add_increase_effect(w(v), 1, forall=(v,))
    d = InstantaneousAction("set_taut", _env=env)                      # forall v. if v == v then r := 3   (v vanishes, harmless)
    d.add_effect(r, 3, em.Equals(v, v), forall=(v,))
    for x in (a, b, c, d):
        p.add_action(x)
    p.add_goal(em.Equals(r, 3))
    out = [sx.HandProblem(p, "forall-variable-vanishes")]
    # values that the syntactic conflict check can only identify AFTER simplification (k + 1 vs 2; Int 3 vs Real 3), and a
    # value whose simplification drops the read of an undefined fluent (u * 0)
    env = Environment()
    tm, em = env.type_manager, env.expression_manager
    T = tm.UserType("T")
    p = Problem("values-equal-after-simplification", env)
    o1, o2 = Object("o1", T, env), Object("o2", T, env)
    p.add_objects([o1, o2])
    x = Fluent("x", tm.IntType(0, 5), t=T, environment=env)
    q = Fluent("q", tm.RealType(0, 5), t=T, environment=env)
    y = Fluent("y", tm.IntType(0, 5), environment=env)
    u = Fluent("u", tm.IntType(), environment=env)          # unbounded, so that it may stay without value
    p.add_fluent(x, default_initial_value=0)
    p.add_fluent(q, default_initial_value=0)
    p.add_fluent(y, default_initial_value=1)
    p.add_fluent(u)
    a = InstantaneousAction("two_sums", l1=T, l2=T, k=tm.IntType(1, 2), _env=env)
    a.add_effect(x(a.parameter("l1")), em.Plus(a.parameter("k"), 1))
    a.add_effect(x(a.parameter("l2")), 2)
    b = InstantaneousAction("zero_times_undefined", _env=env)
    b.add_effect(y, em.Times(u, 0))
    c = InstantaneousAction("int_and_real", l1=T, l2=T, _env=env)
    c.add_effect(q(c.parameter("l1")), 3)
    c.add_effect(q(c.parameter("l2")), em.Real(Fraction(3)))
    for z in (a, b, c):
        p.add_action(z)
    p.add_goal(em.Equals(x(o1), 2))
    out.append(sx.HandProblem(p, "values-equal-after-simplification"))
    return out


def tytab(ex):
    """The user-type table the grounder's simplifier reads (Ground.tytab): object -> its type, type -> ancestors."""
    from harness.core import gn, glist, gpair
    n = ex.ser.names
    p = ex.gen.problem
    objs = glist([gpair(gn(n.obj(o)), gn(n.ty(o.type))) for o in p.all_objects])
    anc = glist([gpair(gn(n.ty(t)), glist([gn(n.ty(a)) for a in t.ancestors])) for t in ex.ser.types])
    return "{| tt_obj := %s; tt_anc := %s |}" % (objs, anc)


def preamble_g(exs):
    return preamble(exs) + "\n".join("Definition T%d : tytab := %s." % (ex.idx, tytab(ex)) for ex in exs if ex.skipped is None) + "\n"


def gather(ctx, n_problems, depth, max_states, max_inst, knobs=None, extra=False):
    exs = []
    for hp in sx.corpus_problems() + (extra_corpus() if extra else []):          # hand-written corner cases run first
        exs.append(sx.explore_problem(len(exs), ctx.rng, depth, max_states, 40, {}, gen=hp))
    for i in range(n_problems):
        exs.append(sx.explore_problem(len(exs), ctx.rng, depth, max_states, max_inst, knobs or {},
                                      walk_len=(45 if i % 5 == 0 else 0)))
    return exs


def preamble(exs):
    return "\n".join("Definition P%d : problem := %s." % (ex.idx, ex.ser.render()) for ex in exs if ex.skipped is None) + "\n"


def dropped_undefined_read(ex, rec):
    """True when GrounderHelper's simplification of the grounded action removes a read of a ground fluent that has no
    value in the state (DESIGN.md finding #34): the only way the implementation can satisfy a condition that the
    documented semantics calls unsatisfied-because-undefined, quantifiers aside."""
    a, args = rec["action"], rec["args"]
    subs = dict(zip(a.parameters, args))
    env = a.environment
    undefined = set()
    for (f, fargs), v in zip(ex.ser.gfluents, rec["state"]):
        if v is None:
            undefined.add(ex.ser.fexp(f, fargs))
    if not undefined:
        return False
    exprs = list(a.preconditions)
    for e in a.effects:
        exprs += [e.condition, e.value] + list(e.fluent.args)
    for x in exprs:
        y = x.substitute(subs) if subs else x
        z = y.simplify()
        before = env.free_vars_extractor.get(y)
        after = env.free_vars_extractor.get(z)
        if (before - after) & undefined:
            return True
    return False


def grounding_rejects_equal_assignments(ex, rec):
    """True when GrounderHelper.ground_action returns None because two effects of the action get the same ground target
    with syntactically different value expressions (DESIGN.md finding #4)."""
    from unified_planning.engines.compilers.grounder import GrounderHelper
    a, args = rec["action"], rec["args"]
    try:
        if GrounderHelper(ex.gen.problem, prune_actions=False).ground_action(a, args) is not None:
            return False
    except Exception:
        return False
    subs = dict(zip(a.parameters, args))
    seen = {}
    for e in a.effects:
        if e.is_forall():
            continue
        t = e.fluent.substitute(subs).simplify() if subs else e.fluent
        v = e.value.substitute(subs).simplify() if subs else e.value
        if t in seen and seen[t] != v:
            return True
        seen.setdefault(t, v)
    return False


def forall_variable_vanishes(ex, rec):
    """True when an increase/decrease forall effect of the action loses a quantified variable once the action is
    grounded and simplified (e.g. `forall v if (v == v) then r += 1`): Effect.__init__ drops forall variables that are
    not free in the effect, so the grounded effect is applied once instead of once per object."""
    a, args = rec["action"], rec["args"]
    subs = dict(zip(a.parameters, args))
    fvo = a.environment.free_vars_oracle
    for e in a.effects:
        if not e.is_forall() or e.is_assignment():
            continue
        free = set()
        for x in (e.fluent, e.value, e.condition):
            y = (x.substitute(subs) if subs else x).simplify()
            free |= set(fvo.get_free_variables(y))
        if any(v not in free for v in e.forall):
            return True
    return False


def has_forall_incdec(rec):
    return any(e.is_forall() and not e.is_assignment() for e in rec["action"].effects)


def classify(ex, rec, code, grounded=False):
    """tags for a failing pair (narrow: call site + shape).

    grounded=False: `code` comes from Corr_C01.code (C03's diagnosis); the three grounder-related shapes are recognised
    by the Python heuristics above.  grounded=True: `code` comes from Corr_C01g.codeg; the Coq verdict is used: whether
    the implementation equals the grounded model (bit 32), whether the MODEL's grounding was rejected by the syntactic
    conflict check (bit 64), whether a grounded effect lost a forall variable (bit 128), and whether the grounded
    action evaluated strictly is applicable while the strict documented step is not (bit 8192: with bits 64/128/2048/4
    clear, C01_grounded_strict_refines_semantic shows that a read of a fluent without value was simplified away).
    The Python heuristic for that last shape is kept as a second source (mixed cases: a dropped read next to a
    short-circuited quantifier)."""
    tags = ["c01"]
    dev = bool(code & 1 and code & 2)                      # differs from the documented step and from the semantic-level model
    # a vanished forall variable of an ASSIGNMENT effect is harmless by itself (the same value is assigned once instead
    # of once per object), so with G_UNDEF set the deviation is still the simplified-away undefined read, e.g.
    # `forall v: f := (b(v) implies b(v))` with some b(o) undefined
    vars_harmless = not code & G_VARS or not has_forall_incdec(rec) if grounded else True
    proved_dropped = grounded and bool(code & G_UNDEF) and not code & (G_CONFLICT | G_OUTSIDE | 4) and vars_harmless
    if rec["apply"] is not None and dev and (proved_dropped or dropped_undefined_read(ex, rec)):
        tags.append("grounder-simplification-drops-undefined-read")
        tags.append("impl-applicable")
    if proved_dropped:
        tags.append("grounded-model:undefined-read-simplified-away")
    if grounded:
        vanishes = bool(code & G_VARS) and has_forall_incdec(rec)
        rejects = bool(code & G_CONFLICT)
    else:
        vanishes = dev and not rec["raised"] and forall_variable_vanishes(ex, rec)
        rejects = dev and rec["apply"] is None and not rec["raised"] and grounding_rejects_equal_assignments(ex, rec)
    if dev and not rec["raised"] and vanishes:
        tags.append("forall-variable-vanishes-after-grounding")
        tags.append("increase-or-decrease")
    if rec["apply"] is None and not rec["raised"] and dev and rejects:
        tags.append("grounding-rejects-equal-valued-assignments")
        tags.append("impl-inapplicable")
    if rec["raised"]:
        tags.append("raises")
        tags.append(rec["raised"].split(":")[0] + ":" + rec["raised"].split(":")[1])
    if code & 1 and not code & 2:
        tags.append("impl-equals-short-circuit-model")
    if dev:
        tags.append("impl-differs-from-model-and-spec")    # "model" = the semantic-level model sim_apply (no grounding)
    if grounded:
        tags.append("impl-differs-from-grounded-model" if code & (G_DIFF | G_ISAPP) else "impl-equals-grounded-model")
        if code & G_CONFLICT:
            tags.append("grounded-model:syntactic-conflict")
        if code & G_VARS:
            tags.append("grounded-model:forall-variable-dropped")
        if code & G_FUEL:
            tags.append("grounded-model:simplifier-fuel")
        if code & G_RAISES:
            tags.append("grounded-model:simplifier-raises")
    if code & 4:
        tags.append("ill-typed-effects")
    return tags


def run(ctx):
    ok_proofs = ctx.check_props(extra=["theories/Corr/Corr_C01.v", "theories/Corr/Corr_C01g.v"])
    if ctx.quick:
        exs = gather(ctx, 45, depth=2, max_states=5, max_inst=14, extra=True)
    else:
        exs = gather(ctx, 500, depth=4, max_states=14, max_inst=30, extra=True)
    live = [ex for ex in exs if ex.skipped is None]
    pre = preamble_g(live)
    procs = max(1, int(os.environ.get("VERIF_COQ_PROCS", "3") or 3))     # coqc processes used for the case files
    cases, owners = [], []
    gcases, gowners = [], []
    stats = {"problems": len(exs), "skipped": {}, "pairs": 0, "applicable": 0, "inapplicable": 0, "raised": 0,
             "states": 0, "goal_states": 0, "effects_kinds": {},
             "grounded": {"impl_equals_grounded_model": 0, "grounding_changes_the_semantic_model": 0,
                          "syntactic_conflicts": 0, "forall_variable_dropped": 0,
                          "undefined_read_simplified_away": 0,
                          "inside_static_hypotheses_of_grounded_theorem": 0, "semantic_model_only_differs": 0}}
    for ex in exs:
        if ex.skipped is not None:
            key = ex.skipped.split(":")[0]
            stats["skipped"][key] = stats["skipped"].get(key, 0) + 1
            continue
        for a in ex.gen.actions:
            for e in a.effects:
                kk = ("cond-" if e.is_conditional() else "") + ("forall-" if e.is_forall() else "") + e.kind.name
                stats["effects_kinds"][kk] = stats["effects_kinds"].get(kk, 0) + 1
        for rec in ex.pairs:
            stats["pairs"] += 1
            if rec["raised"]:
                stats["raised"] += 1
            if rec["apply"] is not None:
                stats["applicable"] += 1
            else:
                stats["inapplicable"] += 1
            cases.append("(T%d, P%d, %s)" % (ex.idx, ex.idx, sx.ser_pair_case(ex, rec)))
            owners.append((ex, rec))
        for srec in ex.states:
            stats["states"] += 1
            stats["goal_states"] += 1 if srec["isgoal"] else 0
            gcases.append("(P%d, %s)" % (ex.idx, sx.ser_goal_case(ex, srec)))
            gowners.append((ex, srec))
    codes = ctx.coq_codes(cases, "fun t => codeg (fst (fst t)) (snd (fst t)) (snd t)", imports=IMPORTS_G, preamble=pre,
                          shard=max(200, math.ceil(len(cases) / procs)), label="pairs")
    gcodes = ctx.coq_codes(gcases, "fun pc => gcode (fst pc) (snd pc)", imports=IMPORTS_G, preamble=pre,
                           shard=max(300, math.ceil(len(gcases) / procs)), label="goals")
    nontrivial = set()
    for (ex, rec), code in zip(owners, codes):
        key = json.dumps(sx.pair_json(ex, rec), default=str, sort_keys=True)
        # non-trivial: applicable, or inapplicable although every precondition holds (conflict / invariant / undefined)
        if rec["apply"] is not None or rec["isapp"] is False:
            nontrivial.add(key)
        g = stats["grounded"]
        g["impl_equals_grounded_model"] += not code & (G_DIFF | G_ISAPP)
        g["grounding_changes_the_semantic_model"] += bool(code & G_MATTERS)
        g["syntactic_conflicts"] += bool(code & G_CONFLICT)
        g["forall_variable_dropped"] += bool(code & G_VARS)
        g["undefined_read_simplified_away"] += bool(code & G_UNDEF)
        g["inside_static_hypotheses_of_grounded_theorem"] += not code & G_OUTSIDE
        bad_spec = bool(code & 1) or bool(rec["raised"]) or rec.get("state_changed")
        # the model of the code is the GROUNDED model; the semantic-level model (bit 1 of the code, value 2) is kept
        # as a second opinion: where it alone differs, grounding mattered and the grounded model explains the
        # implementation, which is not a failure
        bad_model = bool(code & (G_DIFF | G_ISAPP | G_FUEL))
        g["semantic_model_only_differs"] += bool(code & 2) and not bad_spec and not bad_model
        if bad_spec or bad_model:
            tags = classify(ex, rec, code, grounded=True)
            if bad_spec and bad_model:
                what = "the documented semantics AND from the grounded model (corr:C01:sim_apply_grounded)"
            elif bad_spec:
                what = "the documented semantics"
            else:
                what = "the grounded model only (corr:C01:sim_apply_grounded)"
            ctx.fail("oracle" if bad_spec else "corr",
                     "simulator step differs from %s on a (state, action) pair (code %d; %s)" % (what, code, rec["raised"]),
                     tags,
                     {"pair": sx.pair_json(ex, rec), "problem_text": str(ex.gen.problem), "code_bits": code,
                      "names": ex.ser.names.table(),
                      "theorem_or_corr": "corr:C01:sim_apply_grounded / corr:C01:sim_apply / oracle spec_step"},
                     bad_spec)
    for (ex, srec), code in zip(gowners, gcodes):
        if code & 1 or srec["raised"]:
            tags = ["c01", "goal"] + (["impl-equals-short-circuit-model"] if not code & 2 else [])
            ctx.fail("oracle", "is_goal differs from the documented semantics (code %d; %s)" % (code, srec["raised"]), tags,
                     {"state": ex.ser.json_state(srec["vals"]), "is_goal": srec["isgoal"], "problem_text": str(ex.gen.problem)}, True)
        elif code & 2:
            ctx.fail("corr", "is_goal differs from the model (corr:C01:sim_is_goal)", ["c01", "goal"],
                     {"state": ex.ser.json_state(srec["vals"]), "is_goal": srec["isgoal"], "problem_text": str(ex.gen.problem)}, False)
    if not ok_proofs:
        ctx.proof_broken()
    samples = [sx.pair_json(ex, rec) for (ex, rec) in owners[:3]]
    ctx.finish({
        "evaluations": len(cases) + len(gcases),
        "distinct_nontrivial": len(nontrivial),
        "rule": "hand-written corner problems + generated problems (C01 grammar) explored through the real simulator breadth-first to the tier's depth (+ long walks); one case per (reachable state, ground action instance), each compared with spec_step false, sim_apply true and sim_apply_grounded true; non-trivial = applicable, or is_applicable answered False; distinct by (problem, state, action, args)",
        "samples": samples,
        "distribution": stats,
        "traces_validated_against_impl": len(cases),
        "states": stats["states"],
        "transitions": stats["applicable"],
    }, "proof", assumptions=["simulated effects are not generated", "fluent parameters are user-typed"])
