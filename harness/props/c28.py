"""C28 — Timed-to-sequential plans convert back to valid temporal plans.

Theorems: coq/theories/Props/C28.v (about coq/theories/Model/T2S.v): the chosen duration lies in every non-empty
interval (closed / left-open / right-open / open, constant or fluent-dependent bounds evaluated in the state where the
action starts) and consecutive actions are spaced by epsilon (> 0).
Validated (not proved): whole-plan validity.  For generated durative problems inside TimedToSequential's supported
kind, ALL plans of the compiled sequential problem up to length 2 (3 in thorough) that the real
SequentialPlanValidator accepts are converted back by the real plan_back_conversion and judged by
  (a) the model, inside Coq: same (start, duration) list as Model/T2S.back_conv; every duration inside its interval,
      evaluated with exact rationals in the state where the action starts; spacing;
  (b) the real TimeTriggeredPlanValidator on the original problem (a rejection is a property failure).
"""
import itertools
import json
import time
from collections import Counter
from fractions import Fraction as F

from harness.core import gn, gnat, gbool, glist, gopt, gpair, gq

META = {
    "level": "proof",
    "technique": "Coq proof of the duration-choice and spacing lemmas about a Gallina model of "
                 "plan_back_conversion_callable + correspondence by vm_compute; whole-plan validity VALIDATED by "
                 "exhaustive enumeration of short compiled plans judged by the real TimeTriggeredPlanValidator",
    "text": "Proved for all inputs: chosen_duration_in_interval (every non-empty interval, all four openness "
            "combinations, bounds evaluated in the start state), no_overlap_between_consecutive (epsilon > 0). "
            "Validated on enumerated plans: the converted plan is accepted by time-triggered validation.",
    "note": "Level is 'proof' for the duration/spacing lemmas and 'validated' for whole-plan validity (no theorem about "
            "the compiler or the validators). Trusted: Coq kernel/vm_compute, harness serialiser, the harness's exact "
            "interpreter of the generated problems (cross-checked against UPSequentialSimulator on every step), the "
            "real SequentialPlanValidator as the definition of 'valid compiled plan'. Two repairs in /repo: midpoint "
            "for left-open intervals (e7ed967), zero epsilon rejected (ebc45b3).",
}

IMPORTS = ["UPV.Model.T2S", "UPV.Corr.Corr_C28"]
NUM = {"n0": 0, "n1": 1, "lvl": 2, "n2": 3}       # numeric fluent codes; n0 and lvl may occur in durations


# ----------------------------------------------------------------------------- specs (plain data)
def rand_bound(rng, has_param):
    """lower bound expression: ('c', q) | ('f', name, arg) | ('+', e, e) | ('*', e, e); arg: None | ('p',) | ('o', i)"""
    r = rng.random()
    if r < 0.3:
        return ("c", rng.choice([F(1), F(2), F(5), F(3, 2), F(7, 2)]))
    fl = rng.choice(["n0", "lvl"])
    leaf = ("f", "n0", None) if fl == "n0" else ("f", "lvl", ("p",) if has_param and rng.random() < 0.7 else ("o", rng.randrange(2)))
    r = rng.random()
    if r < 0.4:
        return leaf
    if r < 0.75:
        return ("+", leaf, ("c", rng.choice([F(1), F(1, 2), F(3)])))
    return ("*", ("c", rng.choice([F(2), F(1, 2), F(3, 2)])), leaf)


def rand_cond(rng, has_param, init=None):
    """a literal; with an initial state given, biased (70%) towards literals that hold in it, so that short valid
    plans exist"""
    def ival(fl, arg):
        v = init[fl]
        return v if arg is None else v[0 if arg == ("p",) else arg[1]]
    bias = init is not None and rng.random() < 0.7
    if rng.random() < 0.6:
        fl = rng.choice(["b0", "b1", "p"])
        arg = None if fl != "p" else (("p",) if has_param and rng.random() < 0.7 else ("o", rng.randrange(2)))
        return ("b", fl, arg, ival(fl, arg) if bias else rng.random() < 0.6)
    fl = rng.choice(["n0", "n1", "n1", "n2", "lvl"])
    arg = None if fl != "lvl" else (("p",) if has_param and rng.random() < 0.7 else ("o", rng.randrange(2)))
    k = rng.choice(["ge", "le"])
    c = F(rng.randint(0, 6))
    if bias:
        c = ival(fl, arg) - rng.randint(0, 2) if k == "ge" else ival(fl, arg) + rng.randint(0, 2)
    return (k, fl, arg, c)


def rand_eff(rng, has_param):
    if rng.random() < 0.55:
        fl = rng.choice(["b0", "b1", "p"])
        arg = None if fl != "p" else (("p",) if has_param and rng.random() < 0.7 else ("o", rng.randrange(2)))
        return ("setb", fl, arg, rng.random() < 0.6)
    fl = rng.choice(["n0", "n1", "n1", "n2", "lvl"])
    arg = None if fl != "lvl" else (("p",) if has_param and rng.random() < 0.7 else ("o", rng.randrange(2)))
    if fl == "n2":                                    # an effect whose VALUE reads another fluent: n2 := n1 + c
        return ("copy", "n2", None, ("n1", rng.choice([F(0), F(1), F(-1), F(1, 2)])))
    if fl == "n1":
        k = rng.choice(["setn", "inc", "dec", "dec"])
    else:
        k = rng.choice(["setn", "inc", "inc"])        # fluents used in durations stay positive
    return (k, fl, arg, rng.choice([F(1), F(2), F(1, 2), F(3)]))


def rand_spec(rng, idx):
    init = {"b0": rng.random() < 0.5, "b1": rng.random() < 0.5,
            "p": [rng.random() < 0.5, rng.random() < 0.5],
            "n0": rng.choice([F(1), F(2), F(3), F(5, 2)]), "n1": F(rng.randint(0, 4)), "n2": F(rng.randint(0, 3)),
            "lvl": [rng.choice([F(1), F(2), F(7, 2)]), rng.choice([F(1), F(3), F(1, 2)])]}
    acts = []
    for a in range(rng.randint(2, 3)):
        has_param = rng.random() < 0.5
        kind = "dur" if (a == 0 or rng.random() < 0.8) else "inst"
        act = {"name": "act%d" % a, "kind": kind, "param": has_param, "conds": [], "effs": []}
        if kind == "dur":
            lo = rand_bound(rng, has_param)
            r = rng.random()
            if r < 0.2:
                act["lo"], act["hi"], act["lopen"], act["ropen"] = lo, lo, False, False
            else:
                act["lo"], act["hi"] = lo, ("+", lo, ("c", rng.choice([F(1), F(2), F(5, 2), F(5)])))
                act["lopen"], act["ropen"] = rng.choice([(False, False), (True, False), (True, False), (False, True), (True, True)])
            wheres = ["start", "start", "end", "cc", "oc", "co", "oo"]
            for _ in range(rng.randint(0, 2)):
                act["conds"].append((rng.choice(wheres), rand_cond(rng, has_param, init)))
            seen = set()
            for _ in range(rng.randint(1, 3)):
                w, e = rng.choice(["start", "end", "end"]), rand_eff(rng, has_param)
                if (w, e[1]) in seen:          # one effect per fluent symbol and timing (x may be bound to o0/o1)
                    continue
                seen.add((w, e[1]))
                act["effs"].append((w, e))
        else:
            for _ in range(rng.randint(0, 2)):
                act["conds"].append(("start", rand_cond(rng, has_param, init)))
            seen = set()
            for _ in range(rng.randint(1, 2)):
                e = rand_eff(rng, has_param)
                if e[1] in seen:
                    continue
                seen.add(e[1])
                act["effs"].append(("start", e))
        acts.append(act)
    goal = None
    if rng.random() < 0.5:
        goal = rand_cond(rng, False)
    return {"idx": idx, "acts": acts, "init": init, "goal": goal,
            "epsilon": rng.choice([None, None, F(1, 10), F(1, 1000), F(2)]),
            "prune": rng.random() < 0.8}


# ----------------------------------------------------------------------------- exact interpreter of a spec
def init_state(spec):
    i = spec["init"]
    return {("b0", None): i["b0"], ("b1", None): i["b1"], ("p", 0): i["p"][0], ("p", 1): i["p"][1],
            ("n0", None): i["n0"], ("n1", None): i["n1"], ("n2", None): i["n2"], ("lvl", 0): i["lvl"][0], ("lvl", 1): i["lvl"][1]}


def garg(arg, param):
    if arg is None:
        return None
    return param if arg == ("p",) else arg[1]


def const_bound(e):
    return e[0] == "c" or (e[0] in "+*" and const_bound(e[1]) and const_bound(e[2]))


def eval_bound(e, st, param):
    k = e[0]
    if k == "c":
        return e[1]
    if k == "f":
        return st[(e[1], garg(e[2], param))]
    a, b = eval_bound(e[1], st, param), eval_bound(e[2], st, param)
    return a + b if k == "+" else a * b


def apply_effs(st, effs, param):
    new = dict(st)
    for (k, fl, arg, v) in effs:
        key = (fl, garg(arg, param))
        if k == "setb" or k == "setn":
            new[key] = v
        elif k == "copy":
            new[key] = st[(v[0], None)] + v[1]
        elif k == "inc":
            new[key] = st[key] + v
        else:
            new[key] = st[key] - v
    return new


def alias_start_end(spec, ai, param):
    """This instance has a start effect and an end effect / end or over-all condition on the SAME ground fluent written
    with DIFFERENT lifted arguments (p(o1) at start, p(x) with x=o1 at end): the lifted substitution of
    TimedToSequential._compile does not see that they coincide (open finding F28-lifted-alias)."""
    if param is None:
        return False
    act = spec["acts"][ai]
    starts = [(e[1], e[2]) for (w, e) in act["effs"] if w == "start"]
    later = [(e[1], e[2]) for (w, e) in act["effs"] if w == "end"]
    later += [(c[1], c[2]) for (w, c) in act["conds"] if w != "start"]
    return any(f1 == f2 and a1 != a2 and garg(a1, param) == garg(a2, param)
               for (f1, a1) in starts for (f2, a2) in later)


def directed_alias_spec(idx):
    """minimal instance of the open finding, run in every tier so that the finding stays visible"""
    return {"idx": idx, "acts": [
        {"name": "act0", "kind": "dur", "param": True, "conds": [],
         "effs": [("start", ("setb", "p", ("o", 1), True)), ("end", ("setb", "p", ("p",), False))],
         "lo": ("c", F(2)), "hi": ("c", F(2)), "lopen": False, "ropen": False},
        {"name": "act1", "kind": "dur", "param": False, "conds": [("start", ("b", "p", ("o", 1), True))],
         "effs": [("end", ("setb", "b0", None, True))],
         "lo": ("c", F(1)), "hi": ("c", F(3)), "lopen": True, "ropen": False}],
        "init": {"b0": False, "b1": False, "p": [True, True], "n0": F(1), "n1": F(0), "n2": F(0), "lvl": [F(1), F(1)]},
        "goal": None, "epsilon": None, "prune": True}


def directed_startdelta_spec(rng, idx):
    """A durative action with a START increase/decrease of n1 that is READ later in the same action: by an end / over-all
    condition, by an end increase/decrease of n1 and by an end effect whose value is n1 + c.  Thresholds sit strictly
    between f - v and v - f (and between the two candidate final values), so a wrong start-effect substitution
    (operands of Minus/Plus, missing substitution) changes the verdict of the compiled problem."""
    f0 = F(rng.randint(0, 5))
    v = rng.choice([F(1), F(2), F(3), F(1, 2), F(5, 2), F(4)])
    if f0 == v:
        v += 1
    k = rng.choice(["dec", "dec", "dec", "inc"])
    d = abs(f0 - v)
    thr = rng.choice([F(0), d / 2, -d / 2]) if k == "dec" else f0 + v / 2
    has_param = rng.random() < 0.3
    act0 = {"name": "act0", "kind": "dur", "param": has_param,
            "conds": [(rng.choice(["end", "end", "oc", "oo", "cc", "co"]), (rng.choice(["ge", "le"]), "n1", None, thr))],
            "effs": [("start", (k, "n1", None, v))]}
    c2 = rng.choice([F(0), F(1), F(2), F(1, 2)])
    r = rng.random()
    if r < 0.4:
        act0["effs"].append(("end", (rng.choice(["inc", "dec"]), "n1", None, c2)))
        sign = 1 if act0["effs"][-1][1][0] == "inc" else -1
        read_fl, mid = "n1", sign * c2          # final n1 is (f0 -/+ v) + sign*c2: midpoint of right and swapped value
    elif r < 0.8:
        act0["effs"].append(("end", ("copy", "n2", None, ("n1", c2))))
        read_fl, mid = "n2", c2
    else:
        act0["effs"].append(("end", ("setb", "b0", None, True)))
        read_fl, mid = "n1", F(0)
    if k == "inc":
        mid = f0 + mid + v / 2
    if rng.random() < 0.5:
        act0["conds"].append(("start", ("b", "b1", None, False)))
    lo = rand_bound(rng, has_param)
    act0["lo"], act0["hi"] = lo, ("+", lo, ("c", rng.choice([F(1), F(2)])))
    act0["lopen"], act0["ropen"] = rng.choice([(False, False), (True, False), (False, True), (True, True)])
    act1 = {"name": "act1", "kind": rng.choice(["dur", "inst"]), "param": False,
            "conds": [("start", (rng.choice(["ge", "le"]), read_fl, None, mid))],
            "effs": [("end", ("setb", "b1", None, True))]}
    if act1["kind"] == "dur":
        act1["lo"], act1["hi"], act1["lopen"], act1["ropen"] = ("c", F(2)), ("c", F(3)), rng.random() < 0.5, False
    else:
        act1["effs"] = [("start", ("setb", "b1", None, True))]
    init = {"b0": False, "b1": False, "p": [True, False], "n0": rng.choice([F(1), F(2), F(5, 2)]), "n1": f0,
            "n2": F(rng.randint(0, 2)), "lvl": [F(1), F(3, 2)]}
    goal = rng.choice([None, None, ("b", "b1", None, True), ("b", "b0", None, True)])
    return {"idx": idx, "acts": [act0, act1], "init": init, "goal": goal,
            "epsilon": rng.choice([None, F(1, 10)]), "prune": rng.random() < 0.7, "family": "start-delta-read-at-end"}


def directed_bounds_spec(rng, idx, j):
    """All constant/fluent combinations of (lower, upper) x all four openness combinations (j in 0..15), with other
    actions that RAISE (`up`) and LOWER (`down`) the bound fluent n0, so that in the plans `up; act` and `down; act` the
    bounds differ between the initial state and the state where `act` starts: a choice computed from stale values
    (initial state, or only one of the two bounds refreshed) falls outside the interval (a stale lower bound after
    `up`, a stale upper bound after `down`).  Every reachable interval is non-empty."""
    lo_fl, hi_fl = bool(j & 1), bool(j & 2)
    lopen, ropen = bool(j & 4), bool(j & 8)
    v0 = rng.choice([F(4), F(5)])
    up = rng.choice([F(3), F(4)])
    vd = rng.choice([F(2), F(5, 2)])
    n0 = ("f", "n0", None)
    lo = n0 if lo_fl else ("c", rng.choice([F(1), F(3, 2)]))
    if hi_fl and lo_fl:
        hi = rng.choice([("+", n0, ("c", F(3))), ("*", ("c", F(2)), n0)])
    elif hi_fl:
        hi = n0
    else:
        hi = ("c", rng.choice([F(10), F(12)]))
    act = {"name": "act0", "kind": "dur", "param": False, "conds": [], "effs": [("end", ("setb", "b0", None, True))],
           "lo": lo, "hi": hi, "lopen": lopen, "ropen": ropen}
    a_up = {"name": "act1", "kind": "inst", "param": False, "conds": [], "effs": [("start", ("inc", "n0", None, up))]}
    if rng.random() < 0.5:
        a_down = {"name": "act2", "kind": "inst", "param": False, "conds": [], "effs": [("start", ("setn", "n0", None, vd))]}
    else:
        a_down = {"name": "act2", "kind": "dur", "param": False, "conds": [],
                  "effs": [(rng.choice(["start", "end"]), ("setn", "n0", None, vd))],
                  "lo": ("c", F(1)), "hi": ("c", F(1)), "lopen": False, "ropen": False}
    init = {"b0": False, "b1": False, "p": [True, False], "n0": v0, "n1": F(0), "n2": F(0), "lvl": [F(1), F(1)]}
    return {"idx": idx, "acts": [act, a_up, a_down], "init": init, "goal": rng.choice([None, ("b", "b0", None, True)]),
            "epsilon": rng.choice([None, F(1, 10)]), "prune": rng.random() < 0.7,
            "family": "bounds-%s%s" % ("F" if lo_fl else "C", "F" if hi_fl else "C")}


def directed_repeat_spec(rng, idx, j):
    """The SAME ground durative action twice in one plan, its fluent-dependent duration bounds changed in between by
    another action (`act1`, the writer).  j selects how the writer names the fluent it changes, relative to how the
    duration names it: 0/2 the writer's parameter has another name (`lvl(y)` vs `lvl(x)`), 1/3 the writer changes the
    ground fluent `lvl(o0)`, 4 the duration reads the ground `lvl(o0)` and the writer changes `lvl(y)`, 5 both write
    `lvl(x)`.  The writer raises the fluent by at least the interval's width or lowers it by more, so that the duration
    chosen for the first occurrence lies outside the interval of the second one (in `act0(o0); act1..; act0(o0)`).
    The plans of these problems are enumerated up to length 3 (`maxlen`): the writer needs n1 >= 1 and consumes it,
    act0 produces it (and, mostly, needs p(x), true for o0 only), which keeps the number of valid plans small."""
    j = j % 6
    a0_param = j != 4
    leaf = ("f", "lvl", ("p",) if a0_param else ("o", 0))
    lo = rng.choice([leaf, leaf, ("+", leaf, ("c", rng.choice([F(1), F(1, 2)]))), ("*", ("c", rng.choice([F(2), F(3, 2)])), leaf)])
    act0 = {"name": "act0", "kind": "dur", "param": a0_param, "conds": [], "lo": lo,
            "effs": [("end", ("inc", "n1", None, F(1)))]}
    if rng.random() < 0.4:
        act0["hi"], act0["lopen"], act0["ropen"] = lo, False, False
    else:
        act0["hi"] = ("+", lo, ("c", rng.choice([F(1), F(2)])))
        act0["lopen"], act0["ropen"] = rng.choice([(False, False), (True, False), (False, True), (True, True)])
    if a0_param and rng.random() < 0.7:
        act0["conds"].append((rng.choice(["start", "cc", "co"]), ("b", "p", ("p",), True)))
    if rng.random() < 0.4:
        act0["effs"].append((rng.choice(["start", "end"]), ("setb", "b0", None, True)))
    w_param = j in (0, 2, 4, 5)
    w_arg = ("p",) if w_param else ("o", 0)
    w_eff = ("inc", "lvl", w_arg, rng.choice([F(2), F(3)])) if rng.random() < 0.6 else ("setn", "lvl", w_arg, rng.choice([F(1), F(3, 2)]))
    act1 = {"name": "act1", "kind": "dur" if j in (0, 3, 4) or (j == 5 and rng.random() < 0.5) else "inst", "param": w_param,
            "pname": "x" if j == 5 else "y", "conds": [("start", ("ge", "n1", None, F(1)))]}
    if act1["kind"] == "dur":
        act1["effs"] = [("start", ("dec", "n1", None, F(1))), (rng.choice(["start", "end", "end"]), w_eff)]
        act1["lo"], act1["hi"] = ("c", F(1)), ("c", rng.choice([F(1), F(2)]))
        act1["lopen"], act1["ropen"] = False, False
    else:
        act1["effs"] = [("start", ("dec", "n1", None, F(1))), ("start", w_eff)]
    init = {"b0": False, "b1": False, "p": [True, False], "n0": F(1), "n1": F(0), "n2": F(0),
            "lvl": [rng.choice([F(4), F(5)]), F(2)]}
    goal = rng.choice([None, None, ("ge", "n1", None, F(1)), ("b", "b0", None, True)]) if len(act0["effs"]) > 1 else \
        rng.choice([None, ("ge", "n1", None, F(1))])
    return {"idx": idx, "acts": [act0, act1], "init": init, "goal": goal, "epsilon": rng.choice([None, F(1, 10)]),
            "prune": rng.random() < 0.7, "maxlen": 3,
            "family": "repeat-after-write-%s" % ["other-param-name", "ground-fluent", "other-param-name", "ground-fluent",
                                                 "ground-duration", "same-param-name"][j]}


def step_state(spec, st, ai, param):
    act = spec["acts"][ai]
    st = apply_effs(st, [e for (w, e) in act["effs"] if w == "start"], param)
    return apply_effs(st, [e for (w, e) in act["effs"] if w == "end"], param)


# ----------------------------------------------------------------------------- the real problem
def build(spec):
    from unified_planning.shortcuts import (UserType, Object, Problem, Fluent, BoolType, RealType, DurativeAction,
                                            InstantaneousAction, StartTiming, EndTiming, Plus, Times, Not, GE, LE,
                                            ClosedTimeInterval, OpenTimeInterval, LeftOpenTimeInterval,
                                            RightOpenTimeInterval)
    from unified_planning.model.timing import DurationInterval
    from unified_planning.engines.compilers.timed_to_sequential import TimedToSequential
    T = UserType("T")
    objs = [Object("o0", T), Object("o1", T)]
    p = Problem("c28_%d" % spec["idx"])
    p.add_objects(objs)
    fl = {"b0": Fluent("b0", BoolType()), "b1": Fluent("b1", BoolType()), "p": Fluent("p", BoolType(), x=T),
          "n0": Fluent("n0", RealType()), "n1": Fluent("n1", RealType()), "n2": Fluent("n2", RealType()), "lvl": Fluent("lvl", RealType(), x=T)}
    for f in fl.values():
        p.add_fluent(f)
    i = spec["init"]
    p.set_initial_value(fl["b0"](), i["b0"])
    p.set_initial_value(fl["b1"](), i["b1"])
    p.set_initial_value(fl["n0"](), i["n0"])
    p.set_initial_value(fl["n1"](), i["n1"])
    p.set_initial_value(fl["n2"](), i["n2"])
    for k in range(2):
        p.set_initial_value(fl["p"](objs[k]), i["p"][k])
        p.set_initial_value(fl["lvl"](objs[k]), i["lvl"][k])
    if spec["epsilon"] is not None:
        p.epsilon = spec["epsilon"]
    em = p.environment.expression_manager

    def fexp(name, arg, a):
        if arg is None:
            return fl[name]()
        return fl[name](a.parameters[0] if arg == ("p",) else objs[arg[1]])

    def bexp(e, a):
        k = e[0]
        if k == "c":
            return em.Real(e[1]) if e[1].denominator != 1 else em.Int(int(e[1]))
        if k == "f":
            return fexp(e[1], e[2], a)
        x, y = bexp(e[1], a), bexp(e[2], a)
        return Plus(x, y) if k == "+" else Times(x, y)

    def cexp(c, a):
        k, name, arg, v = c
        if k == "b":
            return fexp(name, arg, a) if v else Not(fexp(name, arg, a))
        return GE(fexp(name, arg, a), v) if k == "ge" else LE(fexp(name, arg, a), v)

    def add_eff(a, timing, e):
        k, name, arg, v = e
        target = fexp(name, arg, a)
        args = (timing,) if timing is not None else ()
        if k in ("setb", "setn"):
            a.add_effect(*args, target, v)
        elif k == "copy":
            a.add_effect(*args, target, Plus(fl[v[0]](), v[1]))
        elif k == "inc":
            a.add_increase_effect(*args, target, v)
        else:
            a.add_decrease_effect(*args, target, v)

    up_acts = []
    for act in spec["acts"]:
        pd = {act.get("pname", "x"): T} if act["param"] else {}
        if act["kind"] == "inst":
            a = InstantaneousAction(act["name"], **pd)
            for (_, c) in act["conds"]:
                a.add_precondition(cexp(c, a))
            for (_, e) in act["effs"]:
                add_eff(a, None, e)
        else:
            a = DurativeAction(act["name"], **pd)
            a.set_duration_constraint(DurationInterval(bexp(act["lo"], a), bexp(act["hi"], a), act["lopen"], act["ropen"]))
            for (w, c) in act["conds"]:
                iv = {"start": StartTiming(), "end": EndTiming(),
                      "cc": ClosedTimeInterval(StartTiming(), EndTiming()),
                      "oc": LeftOpenTimeInterval(StartTiming(), EndTiming()),
                      "co": RightOpenTimeInterval(StartTiming(), EndTiming()),
                      "oo": OpenTimeInterval(StartTiming(), EndTiming())}[w]
                a.add_condition(iv, cexp(c, a))
            for (w, e) in act["effs"]:
                add_eff(a, StartTiming() if w == "start" else EndTiming(), e)
        p.add_action(a)
        up_acts.append(a)
    if spec["goal"] is not None:
        p.add_goal(cexp(spec["goal"], None))
    comp = TimedToSequential(remove_unused_fluents=spec["prune"])
    if not comp.supports(p.kind):
        return None
    res = comp.compile(p)
    return p, objs, fl, up_acts, res


# ----------------------------------------------------------------------------- serialisation
def g_bexp(e):
    k = e[0]
    if k == "c":
        return "(BConst %s)" % gq(e[1])
    if k == "f":
        arg = e[2]
        args = [] if arg is None else ["AParam 0%nat" if arg == ("p",) else "AObj %s" % gn(arg[1])]
        return "(BFluent %s %s)" % (gn(NUM[e[1]]), glist(args))
    return "(%s %s %s)" % ("BPlus" if k == "+" else "BTimes", g_bexp(e[1]), g_bexp(e[2]))


def g_kind(act):
    if act["kind"] == "inst":
        return "SInst"
    return "SDur %s %s %s %s" % (g_bexp(act["lo"]), g_bexp(act["hi"]), gbool(act["lopen"]), gbool(act["ropen"]))


def g_state(st):
    items = []
    for (name, arg), v in sorted(st.items(), key=lambda kv: (kv[0][0], -1 if kv[0][1] is None else kv[0][1])):
        if name in NUM:
            items.append(gpair(gpair(gn(NUM[name]), glist([] if arg is None else [gn(arg)])), gq(v)))
    return glist(items)


def g_case(spec, eps, steps, obs):
    gs = ["{| s_kind := K%d_%d; s_params := %s; s_state := %s |}" % (
        spec["idx"], ai, glist([] if param is None else [gn(param)]), g_state(st)) for (ai, param, st) in steps]
    gobs = None if obs is None else glist([gpair(gq(t), gopt(None if d is None else gq(d))) for (t, d) in obs])
    return "{| c_eps := %s; c_steps := %s; c_obs := %s |}" % (gq(eps), glist(gs), gopt(gobs))


# ----------------------------------------------------------------------------- the property's duration/spacing part, in Python
def py_judge(spec, eps, steps, obs):
    """independent of Coq: used to decide property_fails when the model disagrees"""
    if obs is None or len(obs) != len(steps) or not eps > 0:
        return False
    for (ai, param, st), (t, d) in zip(steps, obs):
        act = spec["acts"][ai]
        if act["kind"] == "inst":
            if d is not None:
                return False
            continue
        lo, hi = eval_bound(act["lo"], st, param), eval_bound(act["hi"], st, param)
        if d is None or not ((lo < d if act["lopen"] else lo <= d) and (d < hi if act["ropen"] else d <= hi)):
            return False
    for (t1, d1), (t2, _) in zip(obs, obs[1:]):
        if not (t1 + (d1 or 0) < t2 and t1 < t2):
            return False
    return not obs or obs[0][0] == 0


def dump(x):
    if isinstance(x, F):
        return str(x)
    if isinstance(x, dict):
        return {str(k): dump(v) for k, v in x.items()}
    if isinstance(x, (list, tuple)):
        return [dump(v) for v in x]
    return x


def epsilon_zero_probe(ctx):
    """The spacing theorem needs epsilon > 0; the (repaired) setter guarantees it.  Try to set 0: if that is accepted,
    convert a two-step plan and report it with the validator's verdict."""
    from unified_planning.shortcuts import (Problem, Fluent, BoolType, DurativeAction, StartTiming, EndTiming, Not)
    from unified_planning.exceptions import UPProblemDefinitionError
    from unified_planning.engines.compilers.timed_to_sequential import TimedToSequential
    from unified_planning.engines.plan_validator import TimeTriggeredPlanValidator
    from unified_planning.plans import SequentialPlan
    p = Problem("c28_eps0")
    done = Fluent("done", BoolType())
    p.add_fluent(done, default_initial_value=False)
    a = DurativeAction("a")
    a.set_fixed_duration(5)
    a.add_condition(StartTiming(), Not(done))
    a.add_effect(EndTiming(), done, True)
    b = DurativeAction("b")
    b.set_fixed_duration(4)
    b.add_condition(StartTiming(), done)
    b.add_effect(EndTiming(), done, False)
    p.add_action(a)
    p.add_action(b)
    try:
        p.epsilon = 0
    except UPProblemDefinitionError:
        return "rejected"
    res = TimedToSequential().compile(p)
    sp = SequentialPlan([res.problem.action("a")(), res.problem.action("b")()])
    tt = res.plan_back_conversion(sp)
    verdict = TimeTriggeredPlanValidator().validate(p, tt).status.name
    obs = [(F(t), None if d is None else F(d)) for t, _, d in tt.timed_actions]
    strict = all(t1 + (d1 or 0) < t2 for (t1, d1), (t2, _) in zip(obs, obs[1:]))
    ctx.fail("oracle", "problem.epsilon = 0 is accepted; the converted plan starts an action exactly when the previous "
             "one ends (validator: %s)" % verdict, ["t2s", "epsilon-zero"],
             {"problem": "a:[5,5] start(not done) end(done:=T); b:[4,4] start(done) end(done:=F); epsilon=0",
              "compiled_plan": ["a", "b"], "converted": dump(obs), "tt_validator": verdict,
              "theorem_or_corr": "thm:C28_no_overlap_between_consecutive (hypothesis 0 < eps)"},
             verdict != "VALID" or not strict)
    return "accepted"


def run(ctx):
    import unified_planning.shortcuts as ups
    from unified_planning.engines.plan_validator import SequentialPlanValidator, TimeTriggeredPlanValidator
    from unified_planning.engines.sequential_simulator import UPSequentialSimulator
    from unified_planning.plans import SequentialPlan
    ups.get_environment().credits_stream = None

    ok_proofs = ctx.check_props(extra=["theories/Corr/Corr_C28.v"])
    rng = ctx.rng
    n_problems = 48 if ctx.quick else 200
    maxlen = 2 if ctx.quick else 3
    n_directed = 12 if ctx.quick else 50      # problems of the family start-delta-read-at-end (see directed_startdelta_spec)
    n_bounds = 16 if ctx.quick else 48        # (lower, upper) in {const, fluent}^2 x 4 openness combinations (directed_bounds_spec)
    n_repeat = 6 if ctx.quick else 18         # same ground action twice, bounds changed in between (directed_repeat_spec)
    n_problems += n_repeat
    stats = Counter()
    secs = Counter()
    stats["epsilon_zero_setter"] = epsilon_zero_probe(ctx)
    cases, raw, preamble = [], [], []
    nontrivial = set()
    spv, ttv = SequentialPlanValidator(), TimeTriggeredPlanValidator()
    pi = 0
    attempts = 0
    while stats["problems"] < n_problems and attempts < 6 * n_problems:
        attempts += 1
        if pi == 0:
            spec = directed_alias_spec(pi)
        elif pi <= n_directed:
            spec = directed_startdelta_spec(rng, pi)
        elif pi <= n_directed + n_bounds:
            spec = directed_bounds_spec(rng, pi, (pi - n_directed - 1) % 16)
        elif pi <= n_directed + n_bounds + n_repeat:
            spec = directed_repeat_spec(rng, pi, pi - n_directed - n_bounds - 1)
        else:
            spec = rand_spec(rng, pi)
        t_spec = time.time()
        try:
            built = build(spec)
        except Exception as e:       # a generated problem the API or the compiler refuses: not an input of the property
            stats["build_refused_" + type(e).__name__] += 1
            continue
        if built is None:
            stats["unsupported_kind_skipped"] += 1
            continue
        p, objs, fl, up_acts, res = built
        cp = res.problem
        eps = spec["epsilon"] if spec["epsilon"] is not None else F(1, 100)
        ground = []
        for ai, act in enumerate(spec["acts"]):
            for param in ([0, 1] if act["param"] else [None]):
                ground.append((ai, param))
        sim = UPSequentialSimulator(cp)
        found = 0
        this_cases = []
        for n in range(0, max(maxlen, spec.get("maxlen", 0)) + 1):
            for seq in itertools.product(ground, repeat=n):
                stats["compiled_plans_enumerated"] += 1
                sp = SequentialPlan([cp.action(spec["acts"][ai]["name"])(*([] if param is None else [objs[param]]))
                                     for (ai, param) in seq], cp.environment)
                if spv.validate(cp, sp).status.name != "VALID":
                    continue
                found += 1
                # states: exact interpreter, cross-checked against the implementation's simulator
                st = init_state(spec)
                steps = []
                rst = sim.get_initial_state()
                state_mismatch = None
                for (ai, param), inst in zip(seq, sp.actions):
                    for (name, arg), v in st.items():
                        fe = fl[name]() if arg is None else fl[name](objs[arg])
                        if fe.fluent() in cp.fluents:
                            rv = rst.get_value(fe)
                            rv = F(rv.constant_value()) if name in NUM else rv.bool_constant_value()
                            if rv != v:
                                state_mismatch = (name, arg, str(v), str(rv))
                    steps.append((ai, param, st))
                    st = step_state(spec, st, ai, param)
                    rst = sim.apply(rst, inst)
                exc = None
                obs = None
                try:
                    tt = res.plan_back_conversion(sp)
                    obs = [(F(t), None if d is None else F(d)) for t, _, d in tt.timed_actions]
                    same_instances = [(a_.action.name, tuple(a_.actual_parameters)) for _, a_, _ in tt.timed_actions] == \
                                     [(a_.action.name, tuple(a_.actual_parameters)) for a_ in sp.actions]
                except Exception as e:
                    exc = "%s: %s" % (type(e).__name__, e)
                    same_instances = False
                    tt = None
                verdict = None
                if tt is not None:
                    vr = ttv.validate(p, tt)
                    verdict = vr.status.name
                m = {"spec": dump(spec), "compiled_plan": [(spec["acts"][ai]["name"], param) for ai, param in seq],
                     "epsilon": str(eps), "converted": dump(obs), "exception": exc, "tt_validator": verdict,
                     "states": [dump({"%s(%s)" % k: v for k, v in s.items() if k[0] in NUM}) for (_, _, s) in steps]}
                kinds = [spec["acts"][ai] for ai, _ in seq]
                tags = ["t2s"]
                aliased = any(alias_start_end(spec, ai, param) for ai, param in seq)
                if aliased:
                    tags.append("alias-start-end")
                    stats["plans_with_lifted_alias"] += 1
                m["state_mismatch"] = state_mismatch
                for a_ in kinds:
                    if a_["kind"] == "dur":
                        tags.append("interval-%s%s" % ("o" if a_["lopen"] else "c", "o" if a_["ropen"] else "c"))
                        tags.append("bound-const" if a_["lo"][0] == "c" else "bound-fluent")
                        stats["steps_interval_%s%s" % ("o" if a_["lopen"] else "c", "o" if a_["ropen"] else "c")] += 1
                        stats["steps_bound_%s" % ("const" if a_["lo"][0] == "c" else "fluent")] += 1
                        stats["steps_lo%s_hi%s_%s%s" % ("C" if const_bound(a_["lo"]) else "F", "C" if const_bound(a_["hi"]) else "F",
                                                        "o" if a_["lopen"] else "c", "o" if a_["ropen"] else "c")] += 1
                    else:
                        stats["steps_instantaneous"] += 1
                stats["valid_compiled_plans_len_%d" % n] += 1
                st0 = init_state(spec)
                earlier = {}
                for (ai_, param_, st_) in steps:
                    a_ = spec["acts"][ai_]
                    if a_["kind"] == "dur":
                        b_ = (eval_bound(a_["lo"], st_, param_), eval_bound(a_["hi"], st_, param_))
                        if (ai_, param_) in earlier:
                            stats["steps_repeating_a_ground_action"] += 1
                            stats["steps_repeating_a_ground_action_with_other_bounds"] += earlier[(ai_, param_)] != b_
                        earlier[(ai_, param_)] = b_
                for (ai_, param_, st_) in steps:
                    a_ = spec["acts"][ai_]
                    if a_["kind"] == "dur" and (eval_bound(a_["lo"], st_, param_), eval_bound(a_["hi"], st_, param_)) != \
                            (eval_bound(a_["lo"], st0, param_), eval_bound(a_["hi"], st0, param_)):
                        stats["steps_bounds_differ_from_initial_state"] += 1
                if state_mismatch and aliased:
                    stats["state_mismatch_under_known_alias"] += 1      # the finding itself; reported below if it matters
                elif state_mismatch:
                    ctx.fail("oracle", "C28 harness: the exact interpreter and UPSequentialSimulator disagree on a state %r"
                             % (state_mismatch,), tags + ["state-mismatch"], m, False)
                if verdict != "VALID":
                    stats["tt_validator_rejects"] += 1
                    # recorded finding C28-F28w-empty-duration: the compiled action has no precondition saying that the
                    # (fluent-dependent) duration interval is non-empty in the state in which the step is applied
                    empty = False
                    for (ai_, param_, st_) in steps:
                        a_ = spec["acts"][ai_]
                        if a_["kind"] == "dur":
                            lo_, hi_ = eval_bound(a_["lo"], st_, param_), eval_bound(a_["hi"], st_, param_)
                            if lo_ is not None and hi_ is not None and (lo_ > hi_ or (lo_ == hi_ and (a_["lopen"] or a_["ropen"]))):
                                empty = True
                    stats["tt_validator_rejects_empty_duration_interval"] += empty
                    ctx.fail("validator", "C28: the converted plan of a valid compiled plan is not accepted by "
                             "TimeTriggeredPlanValidator (%s)" % (verdict or exc),
                             tags + ["tt-validator-rejects"] + (["empty-duration-interval", "seq-valid-tt-invalid"] if empty else []), m, True)
                elif not same_instances:
                    ctx.fail("oracle", "C28: the converted plan lists other action instances than the compiled plan",
                             tags + ["instances"], m, True)
                if any(a_["kind"] == "dur" and (a_["lopen"] or a_["ropen"] or a_["lo"][0] != "c") for a_ in kinds):
                    nontrivial.add(json.dumps([spec["idx"], seq]))
                this_cases.append((g_case(spec, eps, steps, obs), m, spec, eps, steps, obs, tags))
        stats["problems"] += 1
        stats["problems_family_" + spec.get("family", "alias" if pi == 0 else "random")] += 1
        secs["repeat-after-write" if spec.get("family", "").startswith("repeat") else "other families"] += time.time() - t_spec
        for act in spec["acts"]:
            sfl = set((e[1], e[2]) for (w, e) in act["effs"] if w == "start" and e[0] in ("inc", "dec"))
            rd = set((c[1], c[2]) for (w, c) in act["conds"] if w != "start")
            rd |= set((e[1], e[2]) for (w, e) in act["effs"] if w == "end" and e[0] in ("inc", "dec"))
            rd |= set((e[3][0], None) for (w, e) in act["effs"] if w == "end" and e[0] == "copy")
            stats["actions_start_delta_read_later"] += bool(sfl & rd)
        stats["problems_with_goal"] += spec["goal"] is not None
        stats["problems_epsilon_%s" % spec["epsilon"]] += 1
        stats["problems_with_only_empty_plan"] += found <= 1
        for ai, act in enumerate(spec["acts"]):
            preamble.append("Definition K%d_%d : skind := %s.\n" % (spec["idx"], ai, g_kind(act)))
        for c in this_cases:
            cases.append(c[0])
            raw.append(c[1:])
        pi += 1

    pre = "".join(preamble)
    bad_ok = ctx.coq_failing(cases, "ok", imports=IMPORTS, preamble=pre, shard=150, ty="case")
    bad_judge = ctx.coq_failing(cases, "judge", imports=IMPORTS, preamble=pre, shard=150, ty="case")
    shown = 0
    for i in sorted(set(bad_ok) | set(bad_judge)):
        m, spec, eps, steps, obs, tags = raw[i]
        pj = py_judge(spec, eps, steps, obs)
        model = "(only the first 3 failing cases are re-evaluated)"
        if shown < 3:
            shown += 1
            model = ctx.coq_show("(model_out c, judge c)", imports=IMPORTS, preamble=pre + "Definition c := %s.\n" % cases[i])
        if i in bad_judge:
            # an EMPTY duration interval (lower > upper in the state of the step) admits no duration at all: that is the
            # recorded finding C28-F28w-empty-duration, not a wrong choice of the back conversion
            empty = False
            for (ai_, param_, st_) in steps:
                a_ = spec["acts"][ai_]
                if a_["kind"] == "dur":
                    lo_, hi_ = eval_bound(a_["lo"], st_, param_), eval_bound(a_["hi"], st_, param_)
                    if lo_ is not None and hi_ is not None and (lo_ > hi_ or (lo_ == hi_ and (a_["lopen"] or a_["ropen"]))):
                        empty = True
            ctx.fail("oracle", "C28: a chosen duration is outside its interval (evaluated in the start state) or the spacing "
                     "is not strict", tags + ["duration-or-spacing"] + (["tt-validator-rejects", "empty-duration-interval", "seq-valid-tt-invalid"] if empty else []),
                     dict(m, model=model, python_judge=pj, theorem_or_corr="thm:C28_plan_durations_in_intervals / C28_no_overlap_between_consecutive"),
                     not pj)
        if i in bad_ok:
            ctx.fail("corr", "T2S back conversion: implementation and model disagree (corr:C28:back_conv)", tags + ["corr"],
                     dict(m, model=model, python_judge=pj, theorem_or_corr="corr:C28:plan_back_conversion_callable"),
                     (not pj) or m["tt_validator"] != "VALID")
    if not ok_proofs:
        ctx.proof_broken()
    ctx.finish({
        "evaluations": len(cases),
        "distinct_nontrivial": len(nontrivial),
        "exhaustive": False,
        "rule": "per generated problem (2-3 actions over 2 objects: start/end/over-all [..] ]..] [..[ ]..[ conditions, "
                "start/end assign/increase/decrease effects, duration bounds constant or fluent-dependent with all four "
                "openness combinations, optional goal, epsilon in {default, 1/10, 1/1000, 2}) ALL sequences of ground compiled "
                "actions up to length %d are enumerated and every one accepted by SequentialPlanValidator is a case; "
                "distinct_nontrivial = distinct (problem, plan) whose plan contains a durative action with an open end or a "
                "fluent-dependent bound" % maxlen,
        "samples": [raw[i][0] for i in range(min(2, len(raw)))],
        "distribution": dict(stats, **{"python_seconds_" + k: round(v, 1) for k, v in secs.items()}),
        "plans_judged_by_tt_validator": len(cases),
        "level_detail": "proof: duration/spacing lemmas; validated: whole-plan acceptance by TimeTriggeredPlanValidator",
    }, "proof", assumptions=[
        "0 < epsilon (guaranteed by the repaired setter; probed on every run)",
        "the interval evaluated in the start state is non-empty (otherwise no duration is valid)",
        "whole-plan validity is validated on enumerated plans only",
    ])
