"""C06 — Plans of compiled problems map back to valid plans (compiler soundness).

Theorems: coq/theories/Props/C06.v (validator of coq/theories/Compilers/SimCheck.v).  Tie: translation validation —
for every compiler named in the property (and pipelines of two/three of them) problems inside its supported kind are
generated, the REAL compiler is run, and original problem, compiled problem and the table of the real
map_back_action_instance on every compiled ground instance are handed to the Coq-verified `sound_search`, which
explores every compiled plan up to the tier's depth under the documented semantics on both sides.  A counterexample
plan is re-validated with the real SequentialPlanValidator on both problems before it is reported.
"""
import json

from harness import compcheck as cc
from harness import layera

META = {
    "level": "translation_validation",
    "technique": "Coq-verified validator (product exploration of compiled plans against the mapped-back run; proved sound and exact for all plans up to the depth, for any pair of problems and any map-back table) applied by vm_compute to the output of the real compilers on generated problems",
    "text": "LAYER A (proved for ALL problems of the modelled fragment, Props/C06.v and part files Props/C06_*.v, theorems C06_LA_*): QuantifiersRemover (expand_quantifiers_eval for both quantifier modes, quant_sound), StateInvariantsRemover and BoundedTypesRemover (sir/btr_valid_plan: the verdicts differ exactly by 'the moved constraints hold initially'; sir/btr_sound need no hypothesis on the initial state), ConditionalEffectsRemover (cer_sound), DisjunctiveConditionsRemover without (dcr_sound) and with the auxiliary goal action (dcrgoal_sound), Grounder (ground_sound), NegativeConditionsRemover (ncr_sound: same verdict for every plan from related states), UsertypeFluentsRemover (utfr_sound, flat fragment), UndefinedInitialNumericRemover (uinr_valid_plan), TrajectoryConstraintsRemover (regression exact, monitor decides PDDL3, plan level for a single constraint of each operator), pipelines of certified stages of any length (pipe_pipeline_sound), each tied to the code by a structural correspondence on the real compilers' output (harness/layera.py, harness/layera_<compiler>.py, evidence keys layerA_*). LAYER B (every compiler and pipeline, validated): sound_check_correct: a true answer implies that every valid compiled plan up to the depth maps back to a valid original plan (trajectory constraints by a monitor proved equal to the PDDL3 semantics); sound_search_witness: a false answer is a concrete valid compiled plan whose image is invalid. The quantifier over plans/states is proved, the quantifier over problems is sampled (generated problems per compiler + corner corpus).",
    "note": "level stays translation_validation because not every compiler named in the property is proved for all problems without external hypotheses: PROVED at plan level (Layer A, Props/C06.v + part files Props/C06_*.v) = QuantifiersRemover, StateInvariantsRemover, BoundedTypesRemover, ConditionalEffectsRemover, DisjunctiveConditionsRemover (with and without the auxiliary goal action: C06_dcrgoal in C06_pipe.v), Grounder, NegativeConditionsRemover (C06_ncr.v; under ncr_safe / one_value, the excluded shape is the recorded finding C06-ncr-add-after-delete, refuted inside the model), UsertypeFluentsRemover (C06_utfr.v; fragment: no forall effects, flat object reads; under one_value, the excluded shape is C06-utfr-masked-object-conflict), UndefinedInitialNumericRemover (C06_uinr.v; under the decidable uinr_ok; the excluded shapes are the recorded findings C07-uinr-guard-on-conditional-read and C08-uinr-quantified-read), pipelines of certified stages of any length (C06_pipe.v: composition theorem, closed instances quantifiers+conditional-effects and grounder+conditional-effects); TrajectoryConstraintsRemover (C06_tcr.v: regression exact, gamma, the monitor decides PDDL3 traj_holds, and the plan-level equation for a single constraint of each of the five operators; several constraints at once are the unproved Definition C06_LA_tcr_plan_goal); VALIDATED ONLY = durative actions of every compiler, TCR with several constraints, the other pipelines. Every Layer A model is tied to the real compiler by a structural correspondence on the cases of this run (harness/layera.py and harness/layera_<compiler>.py; evidence keys layerA_*). Layer A hypotheses (stated in the theorems): the Simplifier keeps value/definedness of the conditions it rewrites (smp_exact / smp_holds / simp_pre_ok; the real one only refines, C11 - the gap is the recorded deviation C01-simplified-undefined-read), expressions buildable by the manager with Boolean arguments under Not/quantifiers and consistently typed variables (wfe), Boolean fluents hold Booleans, effect targets defined, unique action names, fresh variant names (C08), DNF walker equivalences (C12), the C37 hypotheses on a step-closed set of states. Layer B: validated, not proved for all problems: problems are sampled. Strict documented semantics (spec_step false) on BOTH problems, so the recorded simulator deviations (C01-*) do not enter; witnesses are double-checked with the real SequentialPlanValidator. Trusted: Coq kernel/vm_compute, harness serialiser (problems, initial values, ground instances, map-back table), CPython running the compilers. No axioms.",
}


def check_back_conversion(c, rng):
    """`is mapped by the compilation result`: plan_back_conversion exists and agrees with the map-back table"""
    res = c.result
    if res.plan_back_conversion is None:
        return "plan_back_conversion is None"
    if not c.comp.insts:
        return None
    idxs = [rng.randrange(len(c.comp.insts)) for _ in range(3)]
    if any(j in dict(c.back_errors) for j in idxs):
        return None
    try:
        back = res.plan_back_conversion(c.comp.plan_obj(idxs))
    except Exception as e:  # noqa
        return "plan_back_conversion raised %s: %s" % (type(e).__name__, str(e)[:100])
    want = [c.back[j] for j in idxs if c.back[j] is not None]
    got = [c.orig.index.get((ai.action.name, tuple(ai.actual_parameters))) for ai in back.actions]
    if got != want:
        return "plan_back_conversion gives %s, the instance-wise map gives %s" % (got, want)
    return None


def run(ctx):
    ok_proofs = ctx.check_props(extra=["theories/Corr/Corr_C06.v", "theories/Corr/Corr_LayerA.v"])
    per, depth, max_insts = (20, 3, 12) if ctx.quick else (45, 4, 14)
    cases, gstats = cc.build_cases(ctx, per, max_insts)
    live = [c for c in cases if c.live]
    def depth_of(c):          # thorough: one level deeper on small compiled problems
        return depth + 1 if (not ctx.quick and len(c.comp.insts) <= 6) else depth

    reports = cc.coq_reports(ctx, live, lambda c: cc.sound_term(c, depth_of(c)), label="sound", shard=8 if ctx.quick else 12,
                             timeout=1500)
    nontrivial = set()
    nfail = 0
    valid_plans_total = with_valid_plans = 0
    for c in live:
        nvalid, r = reports[c.idx][0], reports[c.idx][1:]
        valid_plans_total += nvalid
        with_valid_plans += nvalid > 0
        tags_base = sorted(set(["c06", c.spec["id"]] + c.spec["members"]))
        if nvalid > 0 and any(b is not None for b in c.back):
            nontrivial.add(c.idx)
        for j, msg in c.back_errors[:1]:
            ctx.fail("oracle", "map_back_action_instance fails on a compiled ground instance: %s" % msg,
                     tags_base + ["map-back-raises"],
                     dict(cc.case_json(c), compiled_instance=c.comp.plan_json([j])), True)
        msg = check_back_conversion(c, ctx.rng)
        if msg:
            ctx.fail("oracle", msg, tags_base + ["plan-back-conversion"], cc.case_json(c), True)
        if r[0] == 0:
            continue
        nfail += 1
        w = r[1:]
        image = [c.back[j] for j in w if c.back[j] is not None]
        rv_c, why_c = cc.real_validate(c.comp.problem, c.comp.plan_obj(w))
        rv_o, why_o = cc.real_validate(c.problem, c.orig.plan_obj(image))
        confirmed = rv_c is True and rv_o is not True
        tags = tags_base + cc.shape_tags(c.problem) + cc.mirrored_tags(c)
        tags.append("confirmed-by-real-validator" if confirmed else "strict-semantics-only")
        ctx.fail("oracle",
                 "%s: the compiled plan %s is valid for the compiled problem but maps back to %s, which is not valid for the original problem"
                 % (c.spec["id"], c.comp.plan_json(w), c.orig.plan_json(image)),
                 tags,
                 dict(cc.case_json(c), compiled_plan=c.comp.plan_json(w), mapped_back_plan=c.orig.plan_json(image),
                      real_validator_on_compiled=[rv_c, why_c], real_validator_on_original=[rv_o, why_o],
                      coq_oracle="UPV.Compilers.SimCheck.sound_search (depth %d)" % depth_of(c), shape_tags=cc.shape_tags(c.problem)),
                 True)
    # ------------------------------------------------------------------ Layer A: structural correspondence -------
    # (separate from the validation above: the Gallina models of the individually PROVED compilers are compared with
    # the real compilers' output on the same cases; a mismatch is model drift, the validators above decide the property)
    failed_idx = set(c.idx for c in live if reports[c.idx][1] != 0)
    import time as _time0
    _t0la = _time0.time()
    la_cov = layera.run(ctx, cases, validator_failed=failed_idx)
    la_cov.setdefault("layerA_seconds", {})["layera"] = round(_time0.time() - _t0la, 1)
    # further per-compiler Layer A correspondences, one module per compiler (harness/layera_<x>.py: run(ctx, cases,
    # validator_failed) -> dict of evidence keys prefixed layerA_<x>_); a module that is absent is skipped
    import importlib
    for _m in layera.EXTRA_MODULES:
        try:
            _mod = importlib.import_module("harness." + _m)
        except ModuleNotFoundError:
            continue
        import time as _time
        _t = _time.time()
        la_cov.update(_mod.run(ctx, cases, validator_failed=failed_idx))
        la_cov.setdefault("layerA_seconds", {})[_m] = round(_time.time() - _t, 1)
    # ------------------------------------------------------------------ end of Layer A block ----------------------
    if not ok_proofs:
        ctx.proof_broken()
    dist = cc.distribution(cases)
    dist.update(gstats)
    dist["counterexamples"] = nfail
    dist["valid_compiled_plans_covered"] = valid_plans_total
    dist["problems_with_a_valid_compiled_plan"] = with_valid_plans
    samples = [dict(compiler=c.spec["id"], original_instances=len(c.orig.insts), compiled_instances=len(c.comp.insts),
                    auxiliary=sum(1 for b in c.back if b is None), report=reports[c.idx]) for c in live[:4]]
    ctx.finish({
        "evaluations": len(live),
        "distinct_nontrivial": len(nontrivial),
        "rule": "one evaluation = one (original, compiled, map-back table) triple searched exhaustively over compiled plans up to depth %d; non-trivial = the compiled problem has at least one VALID plan within the depth (counted in Coq) and some compiled instance maps back to an original instance; distinct by generated problem" % depth,
        "samples": samples,
        "distribution": dist,
        "depth": depth, "depth_small_problems": depth if ctx.quick else depth + 1,
        "exhaustive": False,
        **la_cov,
    }, "translation_validation",
        assumptions=["problems are sampled (generated inside each compiler's supported kind, all fluents initially defined except for UndefinedInitialNumericRemover); plans are covered exhaustively up to the depth",
                     "compiled plans range over the ground instances of the compiled actions (objects of the parameter types, Booleans, bounded integers)"])
