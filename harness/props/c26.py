"""C26 — Time-triggered and STN plan conversions are faithful.

Theorems: coq/theories/Props/C26.v (model coq/theories/Planning/StnPlan.v, proofs Proofs/StnPlan_proofs.v on top of
C25's DeltaSTN theorems).
PROVED (forward direction): for every time-triggered plan with non-negative times, every forward edge list coming out
of the deordering and an epsilon that is at most the gap between consecutive different event times, the model of
_convert_to_stn + STNPlan.__init__ yields a DeltaSTN that is reported consistent, and the ORIGINAL start times and
durations satisfy every constraint generated, inserted and reported (get_constraints); the times read by the back
conversion are the least non-negative solution of those constraints.
VALIDATED (back direction): that the plan converted back is still valid is not proved; it is judged case by case by
the real TimeTriggeredPlanValidator and, inside Coq, by the reference temporal semantics tt_valid_b of C05.
Tie: correspondence + direct oracle on valid plans of generated temporal problems, instantaneous problems and
targeted families (harness/gen/c26_gen.py), all converted with the real convert_to in both directions.
"""
import json
import re
from collections import Counter
from fractions import Fraction as F

from harness.core import gn, gnat, gbool, gopt, gpair, gq, CoqError

META = {
    "level": "proof",
    "technique": "Coq proof of the forward conversion (events sorted by time + forward partial-order edges => original times satisfy "
                 "every generated constraint; a solvable constraint set is reported consistent, by C25's DeltaSTN theorem; reported "
                 "constraints are implied by inserted ones; back conversion reads the least non-negative solution) about a Gallina "
                 "model of _convert_to_stn / STNPlan, tied to the code by vm_compute correspondence; validity of the plan converted "
                 "back is VALIDATED case by case (real TimeTriggeredPlanValidator + Coq reference semantics tt_valid_b of C05)",
    "text": "Proved for all plans, all forward edge lists and every epsilon not larger than the smallest gap between different event "
            "times: the STN plan obtained by conversion is consistent and the original start times and durations satisfy all of its "
            "constraints (C26_forward_conversion); composed statement C26_roundtrip_partial (the validity of the re-timed plan is "
            "the unproved conjunct of C26_roundtrip_goal). Validated on generated valid plans: the implementation's constraint set "
            "equals the model's, the original times satisfy the IMPLEMENTATION's constraints, is_consistent() is True, and the "
            "plan converted back by the real code is accepted by time-triggered validation.",
    "note": "Level is 'proof' for the forward direction and 'validated' for the back conversion. The partial-order plan produced by "
            "the deordering (C27) is an observed input of the model (captured by wrapping SequentialPlan.convert_to during the "
            "call); the theorems hold for every forward edge list; an independent oracle rebuilds what every event reads/writes and "
            "checks that interfering events of different actions are ordered in that observed plan. epsilon <= minimal gap is a decidable hypothesis evaluated on "
            "every case (it can only fail with an explicit problem.epsilon). Plans outside C05's supported_plan side condition "
            "(an effect scheduled before its action's start, empty condition interval) and plans that do not respect an explicit "
            "problem.epsilon (extract_epsilon < problem.epsilon) are outside the quantifier and only counted. No axioms. "
            "Trusted: Coq kernel/vm_compute, harness serialiser, the real validator as the definition of 'valid plan' for the "
            "inputs. Repaired in /repo: f1c0c6f (auxiliary actions in the problem's environment), dc706f7 (non-constant "
            "duration bounds read by the start event). Open findings: C26-span-condition-several-fluents, "
            "C26-explicit-epsilon-open-interval.",
}



def glist(xs):
    """nested cons: Coq elaborates the [a; b; ...] notation several times more slowly"""
    out = "nil"
    for x in reversed(xs):
        out = "(cons %s %s)" % (x, out)
    return out


IMPORTS = ["UPV.Model.Stn", "UPV.Planning.StnPlan", "UPV.Corr.Corr_C26"]
IMPORTS_TT = ["UPV.Core.Expr", "UPV.Core.Eval", "UPV.Core.Interp", "UPV.Planning.Problem", "UPV.Planning.Sem",
              "UPV.Planning.Temporal", "UPV.Planning.TTValidate", "UPV.Corr.Corr_C01", "UPV.Corr.Corr_C05"]
FUEL = 3000


# ----------------------------------------------------------------------------- observation of the real conversion
class CaptureDeordering:
    """Wraps SequentialPlan.convert_to while the real _convert_to_stn runs, to observe the sequentialised events it
    hands to the deordering and the partial-order plan it gets back (nothing in /repo is modified)."""

    def __enter__(self):
        from unified_planning.plans.sequential_plan import SequentialPlan
        self.cls = SequentialPlan
        self.orig = SequentialPlan.convert_to
        self.calls = []
        cap = self

        def wrapped(self_, plan_kind, problem):
            res = cap.orig(self_, plan_kind, problem)
            cap.calls.append((list(self_.actions), res))
            return res
        SequentialPlan.convert_to = wrapped
        return self

    def __exit__(self, *a):
        self.cls.convert_to = self.orig
        return False


def supported(steps):
    """C05's side condition: no effect before its action's start, no empty condition interval, nothing before time 0"""
    for t, ai, d in steps:
        if t < 0:
            return False
        if d is None:
            continue
        if d < 0:
            return False
        a = ai.action

        def ab(tm):
            return t + F(tm.delay) + (0 if tm.is_from_start() else d)
        for tm in a.effects:
            if ab(tm) < t:
                return False
        for iv in a.conditions:
            lo, hi = ab(iv.lower), ab(iv.upper)
            if lo < 0 or lo > hi or (lo == hi and (iv.is_left_open() or iv.is_right_open())):
                return False
    return True


def ser_timing(tm):
    # constructor applications: record syntax {| .. |} takes Coq ~1 s per case to elaborate
    return "(Build_timing %s %s)" % ("FromStart" if tm.is_from_start() else "FromEnd", gq(F(tm.delay)))


def ser_interval(iv):
    return "(Build_interval %s %s %s %s)" % (
        ser_timing(iv.lower), ser_timing(iv.upper), gbool(iv.is_left_open()), gbool(iv.is_right_open()))


def ser_step(t, ai, d):
    a = ai.action
    if d is None:
        return "(Build_step %s None [] [] false)" % gq(t)
    dyn = not (a.duration.lower.is_constant() and a.duration.upper.is_constant())
    return "(Build_step %s (Some %s) %s %s %s)" % (
        gq(t), gq(d), glist([ser_timing(tm) for tm in list(a.effects) + list(a.simulated_effects)]),
        glist([ser_interval(iv) for iv in a.conditions]), gbool(dyn))


def gopt_q(x):
    return gopt(None if x is None else gq(x))


def _ground_fluents(env, exprs, subs):
    """ground fluent expressions read by the expressions; None when a quantifier or a nested fluent makes it inexact"""
    fve = env.free_vars_extractor
    out = set()
    for e in exprs:
        txt = str(e).lower()
        if "forall" in txt or "exists" in txt:
            return None
        for fl in fve.get(e):
            for a in fl.args:
                if fve.get(a):
                    return None
            out.add(str(fl.substitute(subs).simplify()))
    return out


def expected_events(problem, steps, eps):
    """Independent reconstruction (from the property text, not from the code under test) of the events of a plan: for
    each (time, generator) the ground fluents it READS (conditions whose interval contains the instant, with the
    interval's own open/closed bounds; preconditions; non-constant duration bounds at the start; conditions and values
    of the effects of that instant) and WRITES (targets of the effects of that instant).  Sorted by time, stable in
    plan order, the mockup action (timed effects / goals, start 0) first.  None when the plan is outside the fragment
    where this is exact (quantifiers, forall effects, nested fluents, simulated effects)."""
    env = problem.environment

    def eff_rw(effs, subs):
        r, w = set(), set()
        for e in effs:
            if e.is_forall():
                return None
            g = _ground_fluents(env, [e.condition, e.value] + list(e.fluent.args), subs)
            t = _ground_fluents(env, [e.fluent], subs)
            if g is None or t is None:
                return None
            r |= g
            w |= t
        return r, w

    def inside(t, lo, hi, lopen, ropen):
        return (lo < t if lopen else lo <= t) and (t < hi if ropen else t <= hi)

    chain = [(F(0), None, F(-1))] + list(steps)
    events = []
    for g, (start, ai, dur) in enumerate(chain):
        if ai is None:
            subs = {}
            effects = {tm: list(el) for tm, el in problem.timed_effects.items()}
            conds = {iv: list(cl) for iv, cl in problem.timed_goals.items()}
            sim, dyn = {}, []
        else:
            a = ai.action
            subs = dict(zip(a.parameters, ai.actual_parameters))
            if dur is None:
                rw = eff_rw(a.effects, subs)
                pre = _ground_fluents(env, list(a.preconditions), subs)
                if rw is None or pre is None or a.simulated_effect is not None:
                    return None
                events.append((start, g, rw[0] | pre, rw[1]))
                continue
            effects = {tm: list(el) for tm, el in a.effects.items()}
            conds = {iv: list(cl) for iv, cl in a.conditions.items()}
            sim = a.simulated_effects
            dyn = [b for b in (a.duration.lower, a.duration.upper) if not b.is_constant()]
        if sim:
            return None

        def ab(tm):
            return start + F(tm.delay) + (0 if tm.is_from_start() else dur)
        timings = {ab(tm) for tm in effects}
        if dyn:
            timings.add(start)
        for iv in conds:
            timings.add(ab(iv.lower) + (eps if iv.is_left_open() else 0))
            timings.add(ab(iv.upper) - (eps if iv.is_right_open() else 0))
        for t in sorted(timings):
            if t < 0:
                continue
            r, w = set(), set()
            for iv, cl in conds.items():
                if inside(t, ab(iv.lower), ab(iv.upper), iv.is_left_open(), iv.is_right_open()):
                    gr = _ground_fluents(env, cl, subs)
                    if gr is None:
                        return None
                    r |= gr
            if dyn and t == start:
                gr = _ground_fluents(env, dyn, subs)
                if gr is None:
                    return None
                r |= gr
            for tm, el in effects.items():
                if ab(tm) == t:
                    rw = eff_rw(el, subs)
                    if rw is None:
                        return None
                    r |= rw[0]
                    w |= rw[1]
            events.append((t, g, r, w))
    order = sorted(range(len(events)), key=lambda i: events[i][0])     # stable
    return [events[i] for i in order]


def missing_orderings(events, edges):
    """pairs (i, j), i < j, of events of DIFFERENT generators that interfere (one writes a ground fluent the other reads
    or writes) and are NOT connected by a path of the partial-order plan: the STN plan then leaves them unordered"""
    n = len(events)
    reach = [set() for _ in range(n)]
    succ = [[] for _ in range(n)]
    for i, j in edges:
        if i < n and j < n:
            succ[i].append(j)
    for i in range(n - 1, -1, -1):
        for j in succ[i]:
            reach[i].add(j)
            reach[i] |= reach[j]
    out = []
    for i in range(n):
        _ti, gi, ri, wi = events[i]
        for j in range(i + 1, n):
            _tj, gj, rj, wj = events[j]
            if gi != gj and ((wi & (rj | wj)) or (ri & wj)) and j not in reach[i]:
                out.append((i, j, sorted((wi & (rj | wj)) | (ri & wj))))
    return out


class Observation:
    """Everything observed from one real round trip of one plan."""

    def __init__(self, problem, steps):
        from unified_planning.plans import TimeTriggeredPlan, PlanKind
        from unified_planning.model import TimepointKind
        self.problem = problem
        self.steps = steps
        self.error = None
        self.back_error = None
        self.back = None
        plan = TimeTriggeredPlan(list(steps), problem.environment)
        self.plan = plan
        self.plan_eps = plan.extract_epsilon(problem)
        idx = {id(ai): k for k, (_t, ai, _d) in enumerate(steps)}
        names = {"mockup_action": 0}
        for a in problem.actions:
            names[a.name] = len(names)
        self.names = names
        try:
            with CaptureDeordering() as cap:
                stn = plan.convert_to(PlanKind.STN_PLAN, problem)
        except Exception as e:  # noqa
            self.error = "%s: %s" % (type(e).__name__, str(e)[:200])
            return
        self.stn = stn
        if len(cap.calls) != 1:
            self.error = "deordering called %d times" % len(cap.calls)
            return
        seq, po = cap.calls[0]
        pos = {id(ai): i for i, ai in enumerate(seq)}
        self.ev_names = []
        for ai in seq:
            if id(ai) in idx:
                self.ev_names.append(names[ai.action.name])
            else:
                self.ev_names.append(names.get(re.sub(r"_\d+$", "", ai.action.name), 998))
        self.edges = []
        for cur, nxt in po.get_adjacency_list.items():
            for n in nxt:
                self.edges.append((pos[id(cur)], pos[id(n)]))

        # independent check of the observed partial order: interfering events of different actions must be ordered
        self.missing = None
        try:
            eps = problem.epsilon
            if eps is None:
                eps = F(1, 1000) if self.plan_eps is None else min(self.plan_eps / 10, F(1, 1000))
            exp = expected_events(problem, steps, eps)
            if exp is not None and len(exp) == len(seq):
                self.missing = [(i, j, fl, str(exp[i][0]), str(exp[j][0])) for i, j, fl in missing_orderings(exp, self.edges)]
        except Exception as e:  # noqa: the oracle is best effort outside its fragment
            self.missing = None
            self.oracle_error = "%s: %s" % (type(e).__name__, str(e)[:120])

        def node(n):
            if n.kind == TimepointKind.GLOBAL_START:
                return 0
            if n.kind == TimepointKind.GLOBAL_END:
                return 1
            k = idx[id(n.action_instance)]
            return 2 + 2 * k + (0 if n.kind == TimepointKind.START else 1)
        self.constraints = []
        for k, l in stn.get_constraints().items():
            for lo, hi, v in l:
                self.constraints.append((node(k), lo, hi, node(v)))
        self.consistent = stn.is_consistent()
        if self.consistent:
            try:
                back = stn.convert_to(PlanKind.TIME_TRIGGERED_PLAN, problem)
                self.back = [(t, ai, d) for t, ai, d in back.timed_actions]
                self.back_idx = [(t, idx[id(ai)], d) for t, ai, d in back.timed_actions]
            except Exception as e:  # noqa
                self.back_error = "%s: %s" % (type(e).__name__, str(e)[:200])

    # independent oracle for the forward part, straight from the property text
    def py_forward(self):
        if not self.consistent:
            return ["STN plan reported inconsistent"]
        mk = F(0)
        tm = {0: F(0)}
        for k, (t, _ai, d) in enumerate(self.steps):
            tm[2 + 2 * k] = t
            tm[3 + 2 * k] = t + (d or 0)
            mk = max(mk, t, t + (d or 0))
        tm[1] = mk
        out = []
        for a, lo, hi, b in self.constraints:
            dl = tm[b] - tm[a]
            if (lo is not None and dl < lo) or (hi is not None and dl > hi):
                out.append("node %d -> node %d: %s <= %s <= %s violated by the original times" % (a, b, lo, dl, hi))
        return out

    def case(self):
        p = self.problem
        return ("(Build_case %s %s %s %s %s %s %s %s %s %s %s %s)" % (
                    gopt_q(p.epsilon), gopt_q(self.plan_eps),
                    glist([ser_timing(t) for t in p.timed_effects]), glist([ser_interval(iv) for iv in p.timed_goals]),
                    glist([ser_step(t, ai, d) for t, ai, d in self.steps]),
                    glist([gn(0)] + [gn(self.names[ai.action.name]) for _t, ai, _d in self.steps]),
                    glist([gn(x) for x in self.ev_names]),
                    glist([gpair(gnat(i), gnat(j)) for i, j in self.edges]),
                    glist(["(%s, %s, %s, %s)" % (gn(a), gopt_q(lo), gopt_q(hi), gn(b)) for a, lo, hi, b in self.constraints]),
                    gbool(self.consistent),
                    glist(["(%s, %s, %s)" % (gq(t), gn(k), gopt_q(d)) for t, k, d in (self.back_idx if self.back else [])]),
                    gnat(FUEL)))

    def to_json(self):
        return {"problem_epsilon": str(self.problem.epsilon), "plan_epsilon": str(self.plan_eps),
                "plan": [[str(t), str(ai), None if d is None else str(d)] for t, ai, d in self.steps],
                "events": getattr(self, "ev_names", None), "edges": getattr(self, "edges", None),
                "constraints": [[a, str(lo), str(hi), b] for a, lo, hi, b in getattr(self, "constraints", [])],
                "consistent": getattr(self, "consistent", None),
                "back": None if not self.back else [[str(t), str(ai), None if d is None else str(d)] for t, ai, d in self.back],
                "error": self.error, "back_error": self.back_error, "names": self.names}


# ----------------------------------------------------------------------------- shape tags / diagnosis of a rejected back plan
def plan_shape_tags(problem, steps):
    tags = []
    if problem.epsilon is not None:
        tags.append("explicit-epsilon")
    opens = any(iv.is_left_open() or iv.is_right_open() for iv in problem.timed_goals)
    for _t, ai, d in steps:
        if d is not None:
            opens = opens or any(iv.is_left_open() or iv.is_right_open() for iv in ai.action.conditions)
    if opens:
        tags.append("open-interval")
    return tags


def several_fluents(problem, cond):
    fve = problem.environment.free_vars_extractor
    ops = str(cond)
    return len(fve.get(cond)) >= 2 or "forall" in ops.lower() or "exists" in ops.lower()


def is_span(iv):
    return not (iv.lower == iv.upper)


def relaxed_problem(problem):
    """A copy of the problem without the conditions that (a) must hold over a whole interval -- state invariants,
    durative conditions and timed goals over more than one instant -- and (b) mention two or more fluents.
    Returns (copy, number of conditions dropped)."""
    p2 = problem.clone()
    dropped = 0
    invs = list(p2.trajectory_constraints)
    p2.clear_trajectory_constraints()
    for c in invs:
        if c.is_always() and several_fluents(problem, c.arg(0)):
            dropped += 1
        else:
            p2.add_trajectory_constraint(c)
    goals = [(iv, list(cl)) for iv, cl in p2.timed_goals.items()]
    p2.clear_timed_goals()
    for iv, cl in goals:
        for c in cl:
            if is_span(iv) and several_fluents(problem, c):
                dropped += 1
            else:
                p2.add_timed_goal(iv, c)
    for a in p2.actions:
        if hasattr(a, "duration"):
            conds = [(iv, list(cl)) for iv, cl in a.conditions.items()]
            a.clear_conditions()
            for iv, cl in conds:
                for c in cl:
                    if is_span(iv) and several_fluents(problem, c):
                        dropped += 1
                    else:
                        a.add_condition(iv, c)
    return p2, dropped


def diagnose_back_invalid(problem, back, tt_validate):
    """tags describing why the plan converted back is rejected"""
    from unified_planning.plans import ActionInstance
    tags = []
    try:
        p2, dropped = relaxed_problem(problem)
        if dropped:
            steps2 = [(t, ActionInstance(p2.action(ai.action.name), ai.actual_parameters), d) for t, ai, d in back]
            valid2, raised2, _ = tt_validate(p2, steps2)
            if valid2:
                tags.append("valid-without-span-conditions-over-several-fluents")
    except Exception as e:  # noqa
        tags.append("diagnosis-failed:" + type(e).__name__)
    return tags


# ----------------------------------------------------------------------------- inputs
def generated_inputs(ctx, rng, stats):
    """yields (source label, problem, steps, gen-or-None) for VALID, supported plans"""
    from harness.gen.temporal import GenTemporal
    from harness.gen.c26_gen import GenInstantaneous, pick_shape
    from harness.props.c05 import tt_validate, fresh, build_plans, choose_goals
    want = 42 if ctx.quick else 420
    quota = {"temporal": int(want * 0.45), "instantaneous": int(want * 0.15)}
    quota["shape"] = want - quota["temporal"] - quota["instantaneous"]
    per_problem = 3
    for src, cls in (("temporal", GenTemporal), ("instantaneous", GenInstantaneous)):
        got = 0
        tries = 0
        while got < quota[src] and tries < quota[src] * 6:
            tries += 1
            gen = cls(rng)
            p = gen.problem
            if rng.random() < 0.15:
                p.epsilon = rng.choice([F(1, 100), F(1, 20), F(1, 6)])
            _v0, r0, _ = tt_validate(p, [])
            if r0 is not None:
                stats["skipped"]["unsupported-kind"] += 1
                continue
            _plans, execs = build_plans(gen, rng, 8)
            choose_goals(gen, rng, execs)
            cands = []
            for steps, _final in execs:
                steps = fresh(steps)
                if not steps:
                    continue
                valid, raised, _ = tt_validate(p, steps)
                if not valid:
                    continue
                cands.append(steps)
            # prefer longer plans, distinct ones
            cands.sort(key=lambda s: -len(s))
            seen = set()
            n = 0
            for steps in cands:
                key = json.dumps([[str(t), str(ai), str(d)] for t, ai, d in steps])
                if key in seen:
                    continue
                seen.add(key)
                if not supported(steps):
                    stats["skipped"]["outside-supported-plan"] += 1
                    continue
                yield src, p, steps, gen
                n += 1
                got += 1
                if n >= per_problem or got >= quota[src]:
                    break
    # fluent-dependent durations: EVERY constant / non-constant combination of the bounds x changed bound x before/after
    # in every run (quick: one openness per combination, rotating; thorough: all four)
    from harness.gen.c26_gen import shape_dyn_duration, DYN_COMBOS, DYN_OPEN
    for ci, combo in enumerate(DYN_COMBOS):
        for oi, op in enumerate(DYN_OPEN):
            if ctx.quick and oi != (ci + ctx.seed) % len(DYN_OPEN):
                continue
            sh = shape_dyn_duration(rng, combo, op)
            steps = fresh(sh.steps)
            valid, raised, _ = tt_validate(sh.problem, steps)
            if not valid:
                stats["skipped"]["shape-not-valid:dyn-%s-%s-%s" % combo] += 1
                continue
            yield "dyn:%s-%s-%s" % combo, sh.problem, steps, None
    # durative conditions over all four open/closed combinations, with and without delays, another action's effect landing
    # exactly on each bound (quick: one kind of `drop` per combination, rotating; thorough: all three)
    from harness.gen.c26_gen import shape_half_open, HALF_COMBOS, HALF_DROPPERS
    for ci, combo in enumerate(HALF_COMBOS):
        for di, dr in enumerate(HALF_DROPPERS):
            if ctx.quick and di != (ci + ctx.seed) % len(HALF_DROPPERS):
                continue
            for toggle in ((False,) if combo[0] else (False, True)):
                sh = shape_half_open(rng, combo, dr, toggle)
                steps = fresh(sh.steps)
                valid, raised, _ = tt_validate(sh.problem, steps)
                label = "half:%s%s%s-%s%s" % ("(" if combo[0] else "[", "delta" if combo[2] else "", ")" if combo[1] else "]", dr,
                                              "-toggle" if toggle else "")
                if not valid:
                    stats["skipped"]["shape-not-valid:" + label] += 1
                    continue
                yield label, sh.problem, steps, None
    got = 0
    tries = 0
    while got < quota["shape"] and tries < quota["shape"] * 5:
        tries += 1
        sh = pick_shape(rng, tries - 1)
        steps = fresh(sh.steps)
        valid, raised, _ = tt_validate(sh.problem, steps)
        if not valid:
            stats["skipped"]["shape-not-valid:" + sh.label] += 1
            continue
        if not supported(steps):
            stats["skipped"]["outside-supported-plan"] += 1
            continue
        yield "shape:" + sh.label, sh.problem, steps, None
        got += 1


def corpus_inputs(stats):
    """the time-triggered valid plans shipped with the library's example problems (global environment)"""
    try:
        from unified_planning.test.examples import get_example_problems
        from unified_planning.plans import PlanKind
        from harness.props.c05 import tt_validate, fresh
        probs = get_example_problems()
    except Exception as e:  # noqa
        stats["skipped"]["examples-unavailable:" + type(e).__name__] += 1
        return
    for name in sorted(probs):
        tc = probs[name]
        for vp in tc.valid_plans:
            if vp.kind != PlanKind.TIME_TRIGGERED_PLAN or len(vp.timed_actions) > 12:
                continue
            steps = fresh(list(vp.timed_actions))
            try:
                valid, raised, _ = tt_validate(tc.problem, steps)
            except Exception:  # noqa
                valid = None
            if not valid:
                stats["skipped"]["example-not-validated"] += 1
                continue
            if not supported(steps):
                stats["skipped"]["outside-supported-plan"] += 1
                continue
            yield "example:" + name, tc.problem, steps, None


def chunks2(ctx, cases, fn, imports, preamble, shard, label):
    """ctx.coq_codes with at most two coqc processes at a time (the machine is shared)"""
    out = []
    for base in range(0, len(cases), 2 * shard):
        out += ctx.coq_codes(cases[base:base + 2 * shard], fn, imports=imports, preamble=preamble, shard=shard, label=label)
    return out


# ----------------------------------------------------------------------------- run
def run(ctx):
    import unified_planning as up
    from harness.gen.temporal import SerTemporal, nontrivial, happenings
    from harness.props.c05 import tt_validate, fresh
    ok_proofs = ctx.check_props(extra=["theories/Corr/Corr_C26.v", "theories/Corr/Corr_C05.v"])
    rng = ctx.rng
    stats = {"sources": Counter(), "skipped": Counter(), "plans": 0, "steps": Counter(), "durative_steps": 0,
             "instantaneous_steps": 0, "events": Counter(), "po_edges": 0, "simultaneous_event_pairs_with_edge": 0,
             "plans_with_coinciding_happenings": 0, "timed_effects": 0, "timed_goals": 0, "open_intervals": 0,
             "explicit_epsilon": 0, "invariants": 0, "dyn_durations": 0, "outside_hypotheses": 0,
             "not_epsilon_conformant": 0, "back_valid": 0, "back_invalid": 0, "coq_judged_back_plans": 0,
             "constraints": 0, "equality_constraints": 0,
             "ordering_oracle_checked": 0, "ordering_oracle_not_applicable": 0}
    obs, cases = [], []
    nontriv = set()
    import time
    t0 = time.time()
    inputs = list(corpus_inputs(stats))
    if ctx.quick:
        inputs = inputs[:6]
    stats["t_corpus"] = round(time.time() - t0, 1)
    t0 = time.time()
    allin = list(generated_inputs(ctx, rng, stats)) + inputs
    stats["t_generate"] = round(time.time() - t0, 1)
    t0 = time.time()
    for item in allin:
        src, p, steps, gen = item
        from unified_planning.plans import TimeTriggeredPlan
        if p.epsilon is not None:
            pe = TimeTriggeredPlan(list(steps), p.environment).extract_epsilon(p)
            if pe is not None and pe < p.epsilon:
                # the library itself does not accept such a plan as a solution (correct_plan_generation_result)
                stats["not_epsilon_conformant"] += 1
                continue
        o = Observation(p, steps)
        o.src = src
        o.gen = gen
        stats["sources"][src.split(":")[0] if src.startswith("example") else src] += 1
        stats["plans"] += 1
        stats["steps"][len(steps)] += 1
        for t, ai, d in steps:
            stats["durative_steps" if d is not None else "instantaneous_steps"] += 1
            if d is not None:
                stats["open_intervals"] += sum(iv.is_left_open() or iv.is_right_open() for iv in ai.action.conditions)
                stats["dyn_durations"] += not (ai.action.duration.lower.is_constant() and ai.action.duration.upper.is_constant())
        _times, _ivs = happenings(steps, p)
        _nev = sum(1 if d is None else len(ai.action.effects) for _t, ai, d in steps) + len(p.timed_effects)
        stats["plans_with_coinciding_happenings"] += _nev > len(_times)
        stats["timed_effects"] += len(p.timed_effects)
        stats["timed_goals"] += len(p.timed_goals)
        stats["explicit_epsilon"] += p.epsilon is not None
        stats["invariants"] += len(p.state_invariants)
        shape = plan_shape_tags(p, steps)
        payload = {"source": src, "observed": o.to_json(), "problem_text": str(p)[:6000]}
        if o.error is not None:
            ctx.fail("oracle", "convert_to(STN_PLAN) failed on a valid time-triggered plan: %s" % o.error,
                     ["c26", "forward", "convert-raises", o.error.split(":")[0]] + shape, payload, True)
            continue
        stats["events"][len(o.ev_names)] += 1
        stats["po_edges"] += len(o.edges)
        stats["constraints"] += len(o.constraints)
        stats["equality_constraints"] += sum(1 for _a, lo, hi, _b in o.constraints if lo is not None and lo == hi)
        stats["simultaneous_event_pairs_with_edge"] += sum(
            1 for a, lo, hi, b in o.constraints if lo is not None and lo == hi and a % 2 == 0 and b % 2 == 0)
        obs.append(o)
        cases.append(o.case())
        if nontrivial(steps, p):
            nontriv.add(json.dumps(payload["observed"]["plan"]) + str(p)[:2000])
    # ------------------------------------------------------------------ Coq: model vs implementation + property on the implementation
    stats["t_observe"] = round(time.time() - t0, 1)
    t0 = time.time()
    codes = chunks2(ctx, cases, "code", IMPORTS, "", 60, "stnplans") if cases else []
    stats["t_coq_forward"] = round(time.time() - t0, 1)
    t0 = time.time()
    judged = []
    shown = 0
    for o, code in zip(obs, codes):
        p, steps = o.problem, o.steps
        shape = plan_shape_tags(p, steps)
        payload = {"source": o.src, "observed": o.to_json(), "problem_text": str(p)[:6000], "code_bits": code}
        viol = o.py_forward()
        if code & 4:
            stats["outside_hypotheses"] += 1
        if code & 8:
            ctx.fail("corr", "the model ran out of fuel", ["c26", "model-fuel"], payload, False)
            continue
        if (code & 1) or viol:
            payload["violations"] = viol
            if bool(code & 1) != bool(viol):
                ctx.fail("corr", "Coq and the Python oracle disagree about the forward property on the implementation's output",
                         ["c26", "oracle-disagreement"], payload, False)
            else:
                tags = ["c26", "forward", "inconsistent" if not o.consistent else "orig-violates-constraint"] + shape
                if code & 4:
                    tags.append("eps-gt-gap")
                if code & 2:
                    tags.append("impl-differs-from-model")
                ctx.fail("oracle", "forward conversion: %s" % "; ".join(viol[:3]), tags, payload, True)
        elif code & 2:
            shown += 1
            if shown <= 3:         # one coqc run each: only for the first few
                payload["model"] = ctx.coq_show("show c", imports=IMPORTS, preamble="Definition c := %s.\n" % o.case())
            ctx.fail("corr", "implementation differs from the model of _convert_to_stn / STNPlan (corr:C26:convert_to_stn/"
                             "plan_constraints/to_tt/extract_epsilon)", ["c26", "model-drift"] + shape, payload, False)
        if o.missing is None:
            stats["ordering_oracle_not_applicable"] += 1
        else:
            stats["ordering_oracle_checked"] += 1
            if o.missing:
                payload["missing_orderings"] = o.missing[:10]
                ctx.fail("corr", "the partial-order plan used by _convert_to_stn leaves interfering events of different actions "
                                 "unordered (events %d at %s and %d at %s, fluents %s): the events handed to the deordering do not "
                                 "read/write what the plan's conditions and effects say (corr:C26:_extract_instantenous_actions/"
                                 "_is_time_in_interv)" % (o.missing[0][0], o.missing[0][3], o.missing[0][1], o.missing[0][4], o.missing[0][2]),
                         ["c26", "forward", "ordering-missing"] + shape, payload, False)
        if code & 16:
            ctx.fail("corr", "hypotheses hold but the model violates the proved statement (theorem instance fails?)",
                     ["c26", "model-vs-theorem"], payload, False)
        # ------------------------------------------------------------------ back conversion: real validator
        if not o.consistent:
            continue
        if o.back_error is not None:
            ctx.fail("oracle", "convert_to(TIME_TRIGGERED_PLAN) failed on the STN plan of a valid plan: %s" % o.back_error,
                     ["c26", "back", "convert-raises", o.back_error.split(":")[0]] + shape, payload, True)
            continue
        if len(o.back) != len(steps):
            ctx.fail("oracle", "the plan converted back has %d steps, the original %d" % (len(o.back), len(steps)),
                     ["c26", "back", "steps-lost"] + shape, payload, True)
            continue
        valid, raised, res = tt_validate(p, list(o.back))
        o.back_valid = valid
        if raised is not None:
            ctx.fail("oracle", "validation of the plan converted back raised %s" % raised,
                     ["c26", "back", "validator-raises", raised.split(":")[0]] + shape, payload, True)
            continue
        if valid:
            stats["back_valid"] += 1
        else:
            stats["back_invalid"] += 1
            tags = ["c26", "back", "back-invalid"] + shape + diagnose_back_invalid(p, o.back, tt_validate)
            payload["validator"] = {"reason": str(res.reason), "inapplicable_action": str(res.inapplicable_action)}
            ctx.fail("oracle", "the plan converted back from the STN plan is rejected by the time-triggered validator "
                               "(original plan valid)", tags, payload, True)
        judged.append(o)
    # ------------------------------------------------------------------ back conversion: Coq's reference semantics (C05)
    stats["t_back_validate"] = round(time.time() - t0, 1)
    t0 = time.time()
    pre, cases2, owners = [], [], []
    sers = {}
    for o in judged:
        p = o.problem
        if o.src.startswith("example"):
            # the example problems use features outside the fragment modelled by C05 (interpreted functions, ...)
            continue
        if id(p) not in sers:
            try:
                ser = SerTemporal(p)
                text = ser.render()
                s0 = ser.read_state(up.model.UPState(p.explicit_initial_values, p))
                sers[id(p)] = (ser, len(sers), s0)
                pre.append("Definition TP%d : tproblem := %s." % (len(sers) - 1, text))
            except Exception as e:  # noqa: outside the fragment C05's serialiser renders
                sers[id(p)] = None
                stats["skipped"]["back-plan-not-serialisable-for-coq:" + type(e).__name__] += 1
        if sers[id(p)] is None:
            continue
        ser, k, s0 = sers[id(p)]
        try:
            cases2.append("(TP%d, {| c_init := %s; c_plan := %s; c_valid := %s |})" % (
                k, ser.ser_state(s0), ser.plan(o.back), "true" if o.back_valid else "false"))
            owners.append(o)
        except Exception as e:  # noqa
            stats["skipped"]["back-plan-not-serialisable-for-coq:" + type(e).__name__] += 1
    if cases2:
        # two coqc processes at a time, each given only the problems its cases refer to
        from concurrent.futures import ThreadPoolExecutor
        nprob = len(pre)
        groups = [[], []]
        for i, c in enumerate(cases2):
            k = int(re.match(r"\(TP(\d+),", c).group(1))
            groups[0 if k < (nprob + 1) // 2 else 1].append(i)
        codes2 = [None] * len(cases2)

        def one(gi):
            ids = groups[gi]
            if not ids:
                return
            used = sorted({int(re.match(r"\(TP(\d+),", cases2[i]).group(1)) for i in ids})
            res = ctx.coq_codes([cases2[i] for i in ids], "fun pc => Corr_C05.code (fst pc) (snd pc)", imports=IMPORTS_TT,
                                preamble="\n".join(pre[k] for k in used) + "\n", shard=max(1, len(ids)), label="backplans%d" % gi)
            for i, c in zip(ids, res):
                codes2[i] = c
        try:
            with ThreadPoolExecutor(max_workers=2) as ex:
                list(ex.map(one, [0, 1]))
        except CoqError as e:
            codes2 = []
            ctx.fail("corr", "Coq could not evaluate the reference semantics on the back-converted plans: %s" % str(e)[-400:],
                     ["c26", "back", "coq-reference-failed"], {}, False)
        for o, c2 in zip(owners, codes2):
            stats["coq_judged_back_plans"] += 1
            if c2 & 4:
                stats["skipped"]["back-plan-outside-supported-plan"] += 1
                continue
            if c2 & 1:
                payload = {"source": o.src, "observed": o.to_json(), "problem_text": str(o.problem)[:6000], "c05_code_bits": c2}
                ctx.fail("oracle", "plan converted back: the real validator says %s, the reference temporal semantics (Coq, C05) "
                                   "says the opposite" % ("VALID" if o.back_valid else "INVALID"),
                         ["c26", "back", "validator-vs-reference"] + plan_shape_tags(o.problem, o.steps), payload,
                         bool(o.back_valid))
    stats["t_coq_back"] = round(time.time() - t0, 1)
    if not ok_proofs:
        ctx.proof_broken()
    for k in ("sources", "skipped", "steps", "events"):
        stats[k] = dict(stats[k])
    ctx.finish({
        "evaluations": len(cases),
        "distinct_nontrivial": len(nontriv),
        "rule": "valid (real TimeTriggeredPlanValidator), supported time-triggered plans of generated temporal problems, "
                "instantaneous problems, targeted families and the library's example problems; non-trivial = >= 2 happenings "
                "and a durative condition whose interval contains a happening (DESIGN 6.0); distinct by (problem, plan)",
        "samples": [o.to_json() for o in obs[:3]],
        "distribution": stats,
        "traces_validated_against_impl": len(cases),
    }, META["level"], assumptions=[
        "the partial-order plan used by _convert_to_stn is observed, not recomputed (its correctness is C27); the theorems hold for every forward edge list",
        "plans outside C05's supported_plan (effect before its action's start, empty condition interval) are outside the quantifier",
        "with an explicit problem.epsilon only plans with extract_epsilon >= problem.epsilon are considered valid solutions",
        "every plan step is a distinct ActionInstance object",
        "the back conversion is validated (real validator, Coq reference semantics), not proved",
    ])
