"""C24 — Effect conflict detection is order-independent and exception-safe.

Theorems: coq/theories/Props/C24.v (about coq/theories/Model/Conflicts.v).
Tie: correspondence.  Every order of small collections of effects / simulated effects is inserted into a fresh
InstantaneousAction, at one timing of a fresh DurativeAction and as timed effects of a fresh Problem (after a fixed
prefix history); after EVERY insertion the harness records whether UPConflictingEffectsException was raised and the
bookkeeping attributes (_effects, _fluents_assigned, _fluents_inc_dec, _simulated_effect[s]) and Coq compares the
whole trace with the model's.  Independently of the model the property itself is evaluated on the observations
(same verdict for every order; a rejected insertion changes nothing).
"""
import itertools
import json
from fractions import Fraction

from harness.core import gn, gnat, gbool, glist, gopt, gpair

META = {
    "level": "proof",
    "technique": "Coq proof (insertion raises iff the new member conflicts with a held member; generic permutation argument; "
                 "state invariant over all histories) + model/implementation correspondence by vm_compute over all insertion orders",
    "text": "Order independence (Permutation) and rejected-insertion-is-a-no-op theorems for every reachable container and every "
            "collection with at most one simulated effect per time point, about a Gallina model of check_conflicting_effects / "
            "check_conflicting_simulated_effects / _add_effect_instance / set_simulated_effect; the model is tied to the three "
            "container classes by exhaustive differential evaluation of all insertion orders of small collections inside Coq.",
    "note": "Print Assumptions: closed under the global context (no axioms). Reading (DESIGN 6.00): at most one simulated effect per "
            "time point in a collection, set_simulated_effect replaces (C24_two_simulated_effects_order_matters proves the hypothesis is "
            "needed). Timed containers: a Timing key bound to an empty dict/set (setdefault) is identified with an absent key. "
            "Observations travel as a stream of base-64 digits (raised flag + change of each attribute per insertion) packed into 63-bit integers (Corr_C24.enc_case). "
            "The model describes the code after fix commit 2309d85 (rejected increase no longer recorded).",
}

IMPORTS = ["UPV.Model.Conflicts", "UPV.Corr.Corr_C24"]
BASE = 64


# ------------------------------------------------------------------------------------------------ universe
class World:
    """The fluents, values and members used by every case (one per run; FNodes are hash-consed in the global env)."""

    def __init__(self):
        import unified_planning as up
        from unified_planning.shortcuts import (Fluent, RealType, BoolType, UserType, Object, Plus, FluentExp, ObjectExp,
                                                get_environment)
        from unified_planning.model.effect import SimulatedEffect
        self.env = get_environment()
        em = self.env.expression_manager
        self.em = em
        Loc = UserType("C24Loc")
        self.fl = [Fluent("c24_x0", RealType()), Fluent("c24_x1", RealType()), Fluent("c24_b", BoolType()),
                   Fluent("c24_u", Loc)]
        self.fexp = [FluentExp(f) for f in self.fl]
        self.fid = {fe: i for i, fe in enumerate(self.fexp)}
        self.is_bool = [False, False, True, False]
        g = FluentExp(Fluent("c24_g", RealType()))
        cnd = FluentExp(Fluent("c24_c", BoolType()))
        o1, o2 = Object("c24_o1", Loc), Object("c24_o2", Loc)
        self.values = {  # key -> (FNode, Gallina value)
            "i1": (em.Int(1), "VNum (1#1)"), "r1": (em.Real(Fraction(1)), "VNum (1#1)"),
            "i2": (em.Int(2), "VNum (2#1)"), "h": (em.Real(Fraction(1, 2)), "VNum (1#2)"),
            "e": (Plus(g, 1), "VExpr 0"), "e2": (Plus(g, 2), "VExpr 1"),
            "o1": (ObjectExp(o1), "VObj 0"), "o2": (ObjectExp(o2), "VObj 1"),
            "T": (em.TRUE(), "VExpr 7"), "F": (em.FALSE(), "VExpr 8"),
        }
        assert self.values["i1"][0] is not self.values["r1"][0]
        # value table sent to Coq: distinct Gallina values, in this order
        self.vtable = ["VNum (1#1)", "VNum (2#1)", "VNum (1#2)", "VExpr 0", "VExpr 1", "VObj 0", "VObj 1", "VExpr 7", "VExpr 8"]
        self.vcode = {node: self.vtable.index(g_) for node, g_ in self.values.values()}
        self.TRUE, self.cnd = em.TRUE(), cnd
        self.members = []   # (kind, ...) descriptors; index = tag
        self.gmembers = []
        self.effkey = {}

        def eff(f, kind, vkey, cond):
            node = self.values[vkey][0]
            self.effkey[(self.fexp[f], kind, node, cnd if cond else self.TRUE)] = len(self.members)
            self.members.append(("eff", f, kind, vkey, cond))
            k = {"assign": "KAssign", "inc": "KIncrease", "dec": "KDecrease"}[kind]
            self.gmembers.append("IEff {| e_fluent := %s; e_bool := %s; e_kind := %s; e_value := %s; e_cond := %s; e_tag := %s |}" % (
                gn(f), gbool(self.is_bool[f]), k, self.values[vkey][1], gbool(cond), gn(len(self.members) - 1)))
            return len(self.members) - 1

        def simm(fs):
            se = SimulatedEffect([self.fexp[f] for f in fs], lambda *a: [])
            self.members.append(("sim", fs, se))
            self.gmembers.append("ISim %s" % glist([gn(f) for f in fs]))
            return len(self.members) - 1

        n = {}
        for f in (0, 1):
            n[f, "A1"] = eff(f, "assign", "i1", False)
            n[f, "A1r"] = eff(f, "assign", "r1", False)     # same constant value, different node
            n[f, "A2"] = eff(f, "assign", "i2", False)
            n[f, "Ae"] = eff(f, "assign", "e", False)       # non-constant value
            n[f, "I"] = eff(f, "inc", "i1", False)
            n[f, "D"] = eff(f, "dec", "i1", False)
            n[f, "cA"] = eff(f, "assign", "i2", True)       # conditional: never checked
            n[f, "cI"] = eff(f, "inc", "i1", True)
        n["Bt"] = eff(2, "assign", "T", False)              # Boolean fluent: never checked
        n["Bf"] = eff(2, "assign", "F", False)
        n["U1"] = eff(3, "assign", "o1", False)
        n["U2"] = eff(3, "assign", "o2", False)
        n[0, "Ae2"] = eff(0, "assign", "e2", False)
        n[0, "Ih"] = eff(0, "inc", "h", False)
        n["S0"], n["S1"], n["S01"] = simm([0]), simm([1]), simm([0, 1])
        n["Sb"], n["Su"] = simm([2]), simm([3])
        self.n = n
        assert len(self.members) < BASE - 1
        self.sim_fluents = {id(m[2]): m[1] for m in self.members if m[0] == "sim"}

    def is_sim(self, i):
        return self.members[i][0] == "sim"


# ------------------------------------------------------------------------------------------------ running the implementation
class Runner:
    def __init__(self, w, kind):
        import unified_planning as up
        from unified_planning.shortcuts import (InstantaneousAction, DurativeAction, Problem, StartTiming, EndTiming,
                                                GlobalStartTiming)
        from unified_planning.exceptions import UPConflictingEffectsException
        self.w, self.kind = w, kind
        self.Conflict = UPConflictingEffectsException
        if kind == "CInst":
            self.new = lambda: InstantaneousAction("c24_a")
            self.timings = {0: None}
        elif kind == "CDur":
            self.new = lambda: DurativeAction("c24_d")
            self.timings = {0: StartTiming(), 1: EndTiming(), 2: StartTiming(3)}
        else:
            self.new = lambda: Problem("c24_p")
            self.timings = {0: GlobalStartTiming(5), 1: GlobalStartTiming(7), 2: GlobalStartTiming()}

    def insert(self, c, t, i):
        """Insert member i at time point t; True iff UPConflictingEffectsException was raised."""
        w = self.w
        m = w.members[i]
        tm = self.timings[t]
        try:
            if m[0] == "sim":
                if self.kind == "CInst":
                    c.set_simulated_effect(m[2])
                elif self.kind == "CDur":
                    c.set_simulated_effect(tm, m[2])
                else:
                    raise AssertionError("a Problem has no simulated effects")
            else:
                _, f, kind, vkey, cond = m
                fe, v = w.fexp[f], w.values[vkey][0]
                cd = w.cnd if cond else True
                if self.kind == "CInst":
                    fn = {"assign": c.add_effect, "inc": c.add_increase_effect, "dec": c.add_decrease_effect}[kind]
                    fn(fe, v, cd)
                elif self.kind == "CDur":
                    fn = {"assign": c.add_effect, "inc": c.add_increase_effect, "dec": c.add_decrease_effect}[kind]
                    fn(tm, fe, v, cd)
                else:
                    fn = {"assign": c.add_timed_effect, "inc": c.add_increase_effect, "dec": c.add_decrease_effect}[kind]
                    fn(tm, fe, v, cd)
            return False
        except self.Conflict:
            return True

    def snap(self, c, t):
        """(effects tags, assigned [(fluent, vcode)], sorted incdec, sim fluents or None) of time point t."""
        w = self.w
        if self.kind == "CInst":
            effs, fa, fid, se = c._effects, c._fluents_assigned, c._fluents_inc_dec, c._simulated_effect
        elif self.kind == "CDur":
            tm = self.timings[t]
            effs, fa, fid = c._effects.get(tm, []), c._fluents_assigned.get(tm, {}), c._fluents_inc_dec.get(tm, set())
            se = c._simulated_effects.get(tm, None)
        else:
            tm = self.timings[t]
            effs, fa, fid = c._timed_effects.get(tm, []), c._fluents_assigned.get(tm, {}), c._fluents_inc_dec.get(tm, set())
            se = None
        kname = {"ASSIGN": "assign", "INCREASE": "inc", "DECREASE": "dec"}
        tags = tuple(w.effkey[(e.fluent, kname[e.kind.name], e.value, e.condition)] for e in effs)
        assigned = tuple((w.fid[k], w.vcode[v]) for k, v in fa.items())
        incdec = tuple(sorted(w.fid[k] for k in fid))
        sim = None if se is None else tuple(w.sim_fluents[id(se)])
        return (tags, assigned, incdec, sim)


ANOMALY = 63   # a change of the bookkeeping that is not "one thing appended/added": reported directly as a failure


def _appended(prev, cur):
    return len(cur) == len(prev) + 1 and tuple(cur[:-1]) == tuple(prev)


def d_snap(prev, cur, anomalies):
    """Corr_C24.d_snap on observed snapshots (tags, assigned, incdec, sim)."""
    if prev == cur:
        return [0]
    ds = [1]
    (pe, pa, pi, ps), (ce, ca, ci, cs) = prev, cur
    if pe == ce:
        ds.append(0)
    elif _appended(pe, ce):
        ds.append(1 + ce[-1])
    else:
        ds.append(ANOMALY); anomalies.append("effects")
    if pa == ca:
        ds.append(0)
    elif _appended(pa, ca):
        ds += [1 + ca[-1][0], ca[-1][1]]
    else:
        ds.append(ANOMALY); anomalies.append("fluents_assigned")
    if set(pi) == set(ci):
        ds.append(0)
    else:
        new = [f for f in ci if f not in pi]
        if len(new) == 1 and set(pi) <= set(ci):
            ds.append(1 + new[0])
        else:
            ds.append(ANOMALY); anomalies.append("fluents_inc_dec")
    if ps == cs:
        ds.append(0)
    elif cs is not None:
        ds += [1 + len(cs)] + list(cs)
    else:
        ds.append(ANOMALY); anomalies.append("simulated_effect")
    return ds


def steps_digits(steps, anomalies):
    ds = []
    for raised, cur, prev in steps:
        ds.append(1 if raised else 0)
        for p, c in zip(prev, cur):
            ds += d_snap(p, c, anomalies)
    return ds


def groups(ds):
    """Corr_C24.groups: 10 digits per 63-bit integer, behind a leading 1."""
    assert all(0 <= d < BASE for d in ds), ds
    out = []
    for i in range(0, len(ds), 10):
        n = 1
        for d in ds[i:i + 10]:
            n = (n << 6) | d
        out.append(n)
    return out


def distinct_orders(items):
    """All distinct permutations of a multiset."""
    return sorted(set(itertools.permutations(items)))


EMPTY_SNAP = ((), (), (), None)


def run_sequence(rn, watch, seq):
    """Insert the (time point, member) pairs of seq into a FRESH container.  A step is (raised, snapshots after, before)."""
    c = rn.new()
    prev = tuple(rn.snap(c, wt) for wt in watch)
    assert all(p == EMPTY_SNAP for p in prev)
    steps = []
    for (t, i) in seq:
        r = rn.insert(c, t, i)
        cur = tuple(rn.snap(c, wt) for wt in watch)
        steps.append((r, cur, prev))
        prev = cur
    return steps


def run_case(rn, pre, t, prefix, children, watch):
    """Returns (history steps, prefix steps, one step per child).  Every child is run on a fresh container after the
    whole history and prefix; the history/prefix part must behave identically every time."""
    base = list(pre) + [(t, i) for i in prefix]
    ref = None
    child_steps = []
    for ch in (children or [None]):
        steps = run_sequence(rn, watch, base + ([(t, ch)] if ch is not None else []))
        if ref is None:
            ref = steps[:len(base)]
        elif steps[:len(base)] != ref:
            raise AssertionError("the same insertion sequence behaved differently on two fresh containers")
        if ch is not None:
            child_steps.append(steps[-1])
    return ref[:len(pre)], ref[len(pre):], child_steps


def noop_violations(steps):
    return any(r and cur != prev for r, cur, prev in steps)


# ------------------------------------------------------------------------------------------------ generation
def gen_cases(w, rng, quick):
    """Yields (kind, pre, t, prefix, children, watch, block, group) -- group identifies the family of sequences over
    which the order-independence oracle is evaluated (same container, same history)."""
    n = w.n
    core = [n[0, "A1"], n[0, "A1r"], n[0, "A2"], n[0, "I"], n[0, "D"], n[0, "cA"], n[0, "cI"], n[1, "A1"], n[1, "I"], n["Bt"]]
    sims = [n["S0"], n["S1"], n["S01"]]
    wide = core + [n[0, "Ae"], n[0, "Ae2"], n[0, "Ih"], n[1, "A2"], n[1, "D"], n[1, "cA"], n["U1"], n["U2"], n["Bf"]]
    wsims = sims + [n["Sb"], n["Su"]]
    kinds = ("CInst", "CDur", "CProb")

    def watch_of(kind):
        return [0] if kind == "CInst" else [0, 1]

    for kind in kinds:
        M = core + (sims if kind != "CProb" else [])
        pre0 = [] if kind == "CInst" else [(1, n[0, "A2"])]       # another time point already assigns x0
        # block A (exhaustive): every sequence of <= 4 members of the core universe = every insertion order of every
        # multiset of <= 4 members
        for prefix in itertools.product(M, repeat=3):
            yield (kind, pre0, 0, list(prefix), M, watch_of(kind), "A", (kind, "A"))
        # block B (exhaustive): every sequence of <= 3 members after a history at the SAME time point that already
        # contains an accepted and a rejected insertion (reachable, non-empty containers)
        hists = [[(0, n[1, "A2"]), (0, n[1, "I"])]]               # x1 := 2 accepted, x1 += 1 rejected
        if kind != "CProb":
            hists.append([(0, n["S0"]), (0, n[0, "I"]), (0, n[1, "I"])])   # simulated effect held, x0 += 1 rejected (defect 27)
        for hi, hist in enumerate(hists):
            Mb = core if hi == 1 else M
            for prefix in itertools.product(Mb, repeat=2):
                yield (kind, hist, 0, list(prefix), Mb, watch_of(kind), "B", (kind, "B%d" % hi))
    if quick:
        n_rand, maxlen, n_orders = 60, 6, 10
    else:
        n_rand, maxlen, n_orders = 1500, 7, 30
        # block C (exhaustive, thorough only): every sequence of <= 5 members of the core universe on the two action
        # classes, and every sequence of <= 3 members of the wide universe on all three containers
        for kind in ("CInst", "CDur"):
            M = core + sims
            for prefix in itertools.product(M, repeat=4):
                if sum(1 for i in prefix if w.is_sim(i)) <= 1:
                    yield (kind, [], 0, list(prefix), M, watch_of(kind), "C", (kind, "C5"))
        for kind in kinds:
            M = wide + (wsims if kind != "CProb" else [])
            for prefix in itertools.product(M, repeat=2):
                yield (kind, [], 0, list(prefix), M, watch_of(kind), "C", (kind, "Cw"))
    # block R (random): collections of 5..maxlen members of the wide universe, random history, sampled orders
    for ri in range(n_rand):
        kind = rng.choice(kinds)
        k = rng.randint(5, maxlen)
        items = [rng.choice(wide) for _ in range(k)]
        if kind != "CProb" and rng.random() < 0.6:
            items[rng.randrange(k)] = rng.choice(wsims)
        pre = []
        for _ in range(rng.randint(0, 3)):
            pt = 0 if kind == "CInst" else rng.choice([0, 1])
            pre.append((pt, rng.choice(wide)))
        orders = [rng.sample(items, k) for _ in range(n_orders)] + [list(items), list(reversed(items))]
        for o in orders:
            yield (kind, pre, 0, o, [], watch_of(kind), "R", (kind, "R%d" % ri))


def coq_failing_capped(ctx, cases, preamble, shard):
    """ctx.coq_failing runs all shards of one call in parallel; call it on batches so that at most C24_PAR coqc run at once."""
    import os
    par = max(1, int(os.environ.get("C24_PAR", "4")))
    bad, step = [], par * shard
    for base in range(0, len(cases), step):
        bad += [base + i for i in ctx.coq_failing(cases[base:base + step], "ok", imports=IMPORTS, preamble=preamble, shard=shard, ty="case")]
    return bad


def ser_case(kind, pre, t, prefix, children, watch, obs):
    return "Case %s U %s %s %s %s %s VT %s" % (
        kind,
        glist([gpair(gn(pt), gnat(pi)) for pt, pi in pre]),
        gn(t),
        glist([gnat(i) for i in prefix]),
        "CH%d" % children if isinstance(children, int) else glist([gnat(i) for i in children]),
        glist([gn(x) for x in watch]),
        glist([str(g) for g in obs]))


def run(ctx):
    import warnings
    warnings.simplefilter("ignore")
    ok_proofs = ctx.check_props(extra=["theories/Corr/Corr_C24.v"])
    w = World()
    runners = {k: Runner(w, k) for k in ("CInst", "CDur", "CProb")}
    child_lists = {}     # the few distinct children lists are defined once in the preamble

    import time
    t_start = time.time()
    cases, raw = [], []
    stats = {"by_container": {}, "by_block": {}, "sequences_run_on_fresh_containers": 0, "insertions": 0,
             "insertion_steps_compared": 0, "rejected_steps_compared": 0}
    flags = {}           # group -> {sequence of members -> tuple of raised flags}
    prop_fail = {}       # case index -> list of reasons (the property itself fails on the observations)
    for (kind, pre, t, prefix, children, watch, block, group) in gen_cases(w, ctx.rng, ctx.quick):
        rn = runners[kind]
        pre_steps, prefix_steps, child_steps = run_case(rn, pre, t, prefix, children, watch)
        anomalies = []
        digits = steps_digits(pre_steps, anomalies) + steps_digits(prefix_steps, anomalies)
        for st in child_steps:
            digits += steps_digits([st], anomalies)
        idx = len(cases)
        ck = tuple(children)
        if ck and ck not in child_lists:
            child_lists[ck] = len(child_lists)
        cases.append(ser_case(kind, pre, t, prefix, child_lists[ck] if ck else [], watch, groups(digits)))
        raw.append({"container": kind, "history": pre, "time_point": t, "prefix": prefix, "children": list(children),
                    "members": {i: (repr(w.members[i][:2]) if w.is_sim(i) else repr(w.members[i])) for i in set(prefix) | set(children) | set(p[1] for p in pre)},
                    "watch": watch, "block": block, "group": group})
        reasons = []
        if noop_violations(pre_steps + prefix_steps + child_steps):
            reasons.append("rejected-insertion-changed-bookkeeping")
        reasons += ["bookkeeping-changed-otherwise-than-by-one-addition:" + a for a in sorted(set(anomalies))]
        if reasons:
            prop_fail[idx] = reasons
        # raised flags of every full sequence, for the order-independence oracle
        g = flags.setdefault(group, {"pre": pre, "t": t, "seqs": {}, "case_of": {}})
        pf = tuple(r for r, _, _ in prefix_steps)
        for j in range(1, len(prefix) + 1):
            g["seqs"].setdefault(tuple(prefix[:j]), pf[:j])
        g["case_of"].setdefault(tuple(prefix), idx)
        for ch, st in zip(children, child_steps):
            g["seqs"][tuple(prefix) + (ch,)] = pf + (st[0],)
            g["case_of"][tuple(prefix) + (ch,)] = idx
        nfresh = max(1, len(children))
        stats["by_container"][kind] = stats["by_container"].get(kind, 0) + 1
        stats["by_block"][block] = stats["by_block"].get(block, 0) + 1
        stats["sequences_run_on_fresh_containers"] += nfresh
        stats["insertions"] += nfresh * (len(pre) + len(prefix)) + len(children)
        stats["insertion_steps_compared"] += len(pre) + len(prefix) + len(children)
        stats["rejected_steps_compared"] += sum(1 for r, _, _ in pre_steps + prefix_steps + child_steps if r)

    # order-independence oracle, straight from the property text: for every multiset whose orders were all run (or
    # sampled), with at most one simulated effect at the time point, "some insertion raised" must not depend on the order
    order_dep = []
    ms_checked = ms_nontrivial = ms_raising = 0
    for group, g in flags.items():
        pre_sims = sum(1 for pt, pi in g["pre"] if pt == g["t"] and w.is_sim(pi))
        by_ms = {}
        for seq, fl in g["seqs"].items():
            by_ms.setdefault(tuple(sorted(seq)), {})[seq] = any(fl)
        for ms, res in by_ms.items():
            if pre_sims + sum(1 for i in ms if w.is_sim(i)) > 1:
                continue
            exhaustive_ms = group[1][0] != "R"
            if exhaustive_ms and len(res) != len(distinct_orders(ms)):
                continue                                    # not all orders present (longer than the exhaustive depth)
            ms_checked += 1
            if len(res) > 1:
                ms_nontrivial += 1
            if any(res.values()):
                ms_raising += 1
            if len(set(res.values())) > 1:
                order_dep.append((group, ms, res))
                for seq in res:
                    ci = g["case_of"].get(seq)
                    if ci is not None:
                        prop_fail.setdefault(ci, [])
                        if "order-dependent" not in prop_fail[ci]:
                            prop_fail[ci].append("order-dependent")
    stats["multisets_checked_for_order_independence"] = ms_checked
    stats["multisets_with_2_or_more_distinct_orders"] = ms_nontrivial
    stats["multisets_on_which_some_insertion_raises"] = ms_raising

    preamble = ("From Coq Require Import Uint63.\nDefinition U : list item :=\n [ %s ].\nDefinition VT : list value := %s.\n" % (
        "\n ; ".join(w.gmembers), glist(w.vtable)))
    for ck, k in child_lists.items():
        preamble += "Definition CH%d : list nat := %s.\n" % (k, glist([gnat(i) for i in ck]))
    preamble += "Local Open Scope uint63_scope.\n"

    t_impl = time.time()
    bad = coq_failing_capped(ctx, cases, preamble, shard=400 if ctx.quick else 600)
    stats["seconds_running_implementation"] = round(t_impl - t_start, 1)
    stats["seconds_comparing_in_coq"] = round(time.time() - t_impl, 1)
    stats["seconds_rechecking_theorems"] = round(t_start - ctx.t0, 1)
    # failing cases are grouped by tag set (container, block, what the property oracle says) and the two smallest of
    # every group are reported with full traces (model trace from Coq, observed trace): one coqc call each
    groups_ = {}
    for i in bad:
        c = raw[i]
        key = tuple(["c24", c["container"], "block-" + c["block"]] + sorted(prop_fail.get(i, [])))
        groups_.setdefault(key, []).append(i)
    for key, idxs in sorted(groups_.items()):
        idxs.sort(key=lambda i: (len(raw[i]["prefix"]) + len(raw[i]["history"]) + len(raw[i]["children"]), i))
        for i in idxs[:2]:
            c = dict(raw[i])
            reasons = prop_fail.get(i, [])
            model = ctx.coq_show("model_obs c", imports=IMPORTS, preamble=preamble + "Definition c := %s.\n" % cases[i])
            ps_, fs_, cs_ = run_case(runners[c["container"]], c["history"], c["time_point"], c["prefix"], c["children"], c["watch"])
            c["observed (raised, snapshots after; a snapshot = (effect tags, fluents_assigned, fluents_inc_dec, simulated effect))"] = {
                "history": [(r, cur) for r, cur, _ in ps_], "prefix": [(r, cur) for r, cur, _ in fs_],
                "children": [(ch, r, cur) for ch, (r, cur, _) in zip(c["children"], cs_)]}
            ctx.fail("corr", "insertion sequences: implementation and model disagree on raised flags or bookkeeping "
                     "(corr:C24:add_item/tadd_item)%s" % ("; property fails: " + ",".join(reasons) if reasons else ""),
                     list(key), {"case": c, "gallina_case": cases[i][:3000], "model (history, prefix, children)": model,
                                 "failing_cases_with_these_tags": len(idxs), "failing_cases_total": len(bad),
                                 "theorem_or_corr": "corr:C24:check_conflicting_effects/_add_effect_instance/set_simulated_effect"},
                     bool(reasons))
    bad_set = set(bad)
    only_oracle = [(i, v) for i, v in sorted(prop_fail.items()) if i not in bad_set]
    for i, reasons in only_oracle[:5]:
        ctx.fail("oracle", "property fails on the implementation (%s); the trace of this particular case agrees with the model, "
                 "see order_dependent_multisets" % ",".join(reasons),
                 ["c24", raw[i]["container"], "block-" + raw[i]["block"]] + sorted(reasons),
                 {"case": raw[i], "gallina_case": cases[i][:3000], "order_dependent_multisets": [
                     {"group": g_, "multiset": ms, "some_insertion_raised_by_order": {str(k): v for k, v in res.items()}}
                     for g_, ms, res in order_dep[:3]]}, True)
    if not ok_proofs:
        ctx.proof_broken()
    ctx.finish({
        "evaluations": len(cases),
        "distinct_nontrivial": ms_nontrivial,
        "rule": "a case = (container, history, prefix sequence, children each tried after the prefix); evaluations = cases compared inside Coq; "
                "distinct_nontrivial = distinct (container, history, multiset) with >= 2 distinct insertion orders, all of which "
                "(blocks A, B, C) or a sample of which (block R) were run, each on a fresh container, and compared with the model",
        "exhaustive": True,
        "exhaustive_scope": "block A: every insertion sequence of <= 4 members of the core universe (10 effects over x0, x1 and a Boolean fluent "
                            "+ 3 simulated effects; Problem: effects only) on the three containers; block B: every sequence of <= 3 members after "
                            "two histories containing a rejected insertion; thorough adds block C (<= 5 members; <= 3 members of the wide universe); "
                            "block R is random (5..7 members, sampled orders)",
        "samples": raw[40:41] + raw[len(raw) // 2: len(raw) // 2 + 1] + raw[-1:],
        "distribution": stats,
        "traces_validated_against_impl": stats["sequences_run_on_fresh_containers"],
    }, "proof", assumptions=[
        "effects are abstracted to (fluent, is-Boolean-fluent, kind, value, is-conditional); values to numeric constant / object / expression identity",
        "at most one simulated effect per time point in a collection (set_simulated_effect replaces)",
        "timed containers: a Timing key bound to an empty dict/set is the same as an absent key",
    ])
