"""C24 — Effect conflict detection is order-independent and exception-safe.

Theorems: coq/theories/Props/C24.v (about coq/theories/Model/Conflicts.v).
Tie: correspondence.  Every order of small collections of effects / simulated effects is inserted into a fresh
InstantaneousAction, at one timing of a fresh DurativeAction and as timed effects of a fresh Problem (after a fixed
prefix history); after EVERY insertion the harness records whether UPConflictingEffectsException was raised and the
bookkeeping attributes (_effects, _fluents_assigned, _fluents_inc_dec, _simulated_effect[s]) and Coq compares the
whole trace with the model's.  Independently of the model the property itself is evaluated on the observations
(same verdict for every order; a rejected insertion changes nothing).
"""
import itertools
import json
from fractions import Fraction

from harness.core import gn, gnat, gbool, glist, gopt, gpair

META = {
    "level": "proof",
    "technique": "Coq proof (insertion raises iff the new member conflicts with a held member; generic permutation argument; "
                 "state invariant over all histories) + model/implementation correspondence by vm_compute over all insertion orders",
    "text": "Order independence (Permutation) and rejected-insertion-is-a-no-op theorems for every reachable container and every "
            "collection with at most one simulated effect per time point, about a Gallina model of check_conflicting_effects / "
            "check_conflicting_simulated_effects / _add_effect_instance / set_simulated_effect; the model is tied to the three "
            "container classes by exhaustive differential evaluation of all insertion orders of small collections inside Coq.",
    "note": "Print Assumptions: closed under the global context (no axioms). Reading (DESIGN 6.00): at most one simulated effect per "
            "time point in a collection, set_simulated_effect replaces (C24_two_simulated_effects_order_matters proves the hypothesis is "
            "needed). Timed containers: a Timing key bound to an empty dict/set (setdefault) is identified with an absent key. "
            "Observations travel as a stream of base-64 digits (raised flag + change of each attribute per insertion) packed into 63-bit integers (Corr_C24.enc_case). "
            "The model describes the code after fix commit 2309d85 (rejected increase no longer recorded).",
}

IMPORTS = ["UPV.Model.Conflicts", "UPV.Corr.Corr_C24"]
BASE = 64


# ------------------------------------------------------------------------------------------------ universe
class World:
    """The fluents, values and members used by every case (one per run; FNodes are hash-consed in the global env)."""

    def __init__(self):
        import unified_planning as up
        from unified_planning.shortcuts import (Fluent, RealType, BoolType, UserType, Object, Plus, FluentExp, ObjectExp,
                                                get_environment)
        from unified_planning.model.effect import SimulatedEffect
        self.env = get_environment()
        em = self.env.expression_manager
        self.em = em
        Loc = UserType("C24Loc")
        self.fl = [Fluent("c24_x0", RealType()), Fluent("c24_x1", RealType()), Fluent("c24_b", BoolType()),
                   Fluent("c24_u", Loc)]
        self.fexp = [FluentExp(f) for f in self.fl]
        self.fid = {fe: i for i, fe in enumerate(self.fexp)}
        self.is_bool = [False, False, True, False]
        g = FluentExp(Fluent("c24_g", RealType()))
        cnd = FluentExp(Fluent("c24_c", BoolType()))
        o1, o2 = Object("c24_o1", Loc), Object("c24_o2", Loc)
        self.values = {  # key -> (FNode, Gallina value)
            "i1": (em.Int(1), "VNum (1#1)"), "r1": (em.Real(Fraction(1)), "VNum (1#1)"),
            "i2": (em.Int(2), "VNum (2#1)"), "h": (em.Real(Fraction(1, 2)), "VNum (1#2)"),
            "e": (Plus(g, 1), "VExpr 0"), "e2": (Plus(g, 2), "VExpr 1"),
            "o1": (ObjectExp(o1), "VObj 0"), "o2": (ObjectExp(o2), "VObj 1"),
            "T": (em.TRUE(), "VExpr 7"), "F": (em.FALSE(), "VExpr 8"),
        }
        assert self.values["i1"][0] is not self.values["r1"][0]
        # value table sent to Coq: distinct Gallina values, in this order
        self.vtable = ["VNum (1#1)", "VNum (2#1)", "VNum (1#2)", "VExpr 0", "VExpr 1", "VObj 0", "VObj 1", "VExpr 7", "VExpr 8"]
        self.vcode = {node: self.vtable.index(g_) for node, g_ in self.values.values()}
        self.TRUE, self.cnd = em.TRUE(), cnd
        self.members = []   # (kind, ...) descriptors; index = tag
        self.gmembers = []
        self.effkey = {}

        def eff(f, kind, vkey, cond):
            node = self.values[vkey][0]
            self.effkey[(self.fexp[f], kind, node, cnd if cond else self.TRUE)] = len(self.members)
            self.members.append(("eff", f, kind, vkey, cond))
            k = {"assign": "KAssign", "inc": "KIncrease", "dec": "KDecrease"}[kind]
            self.gmembers.append("IEff {| e_fluent := %s; e_bool := %s; e_kind := %s; e_value := %s; e_cond := %s; e_tag := %s |}" % (
                gn(f), gbool(self.is_bool[f]), k, self.values[vkey][1], gbool(cond), gn(len(self.members) - 1)))
            return len(self.members) - 1

        def simm(fs):
            se = SimulatedEffect([self.fexp[f] for f in fs], lambda *a: [])
            self.members.append(("sim", fs, se))
            self.gmembers.append("ISim %s" % glist([gn(f) for f in fs]))
            return len(self.members) - 1

        n = {}
        for f in (0, 1):
            n[f, "A1"] = eff(f, "assign", "i1", False)
            n[f, "A1r"] = eff(f, "assign", "r1", False)     # same constant value, different node
            n[f, "A2"] = eff(f, "assign", "i2", False)
            n[f, "Ae"] = eff(f, "assign", "e", False)       # non-constant value
            n[f, "I"] = eff(f, "inc", "i1", False)
            n[f, "D"] = eff(f, "dec", "i1", False)
            n[f, "cA"] = eff(f, "assign", "i2", True)       # conditional: never checked
            n[f, "cI"] = eff(f, "inc", "i1", True)
        n["Bt"] = eff(2, "assign", "T", False)              # Boolean fluent: never checked
        n["Bf"] = eff(2, "assign", "F", False)
        n["U1"] = eff(3, "assign", "o1", False)
        n["U2"] = eff(3, "assign", "o2", False)
        n[0, "Ae2"] = eff(0, "assign", "e2", False)
        n[0, "Ih"] = eff(0, "inc", "h", False)
        n["S0"], n["S1"], n["S01"] = simm([0]), simm([1]), simm([0, 1])
        n["Sb"], n["Su"] = simm([2]), simm([3])
        self.n = n
        assert len(self.members) < BASE - 1
        self.sim_fluents = {id(m[2]): m[1] for m in self.members if m[0] == "sim"}

    def is_sim(self, i):
        return self.members[i][0] == "sim"


# ------------------------------------------------------------------------------------------------ running the implementation
class Runner:
    def __init__(self, w, kind):
        import unified_planning as up
        from unified_planning.shortcuts import (InstantaneousAction, DurativeAction, Problem, StartTiming, EndTiming,
                                                GlobalStartTiming)
        from unified_planning.exceptions import UPConflictingEffectsException
        self.w, self.kind = w, kind
        self.Conflict = UPConflictingEffectsException
        if kind == "CInst":
            self.new = lambda: InstantaneousAction("c24_a")
            self.timings = {0: None}
        elif kind == "CDur":
            self.new = lambda: DurativeAction("c24_d")
            self.timings = {0: StartTiming(), 1: EndTiming(), 2: StartTiming(3)}
        else:
            self.new = lambda: Problem("c24_p")
            self.timings = {0: GlobalStartTiming(5), 1: GlobalStartTiming(7), 2: GlobalStartTiming()}

    def insert(self, c, t, i):
        """Insert member i at time point t; True iff UPConflictingEffectsException was raised."""
        w = self.w
        m = w.members[i]
        tm = self.timings[t]
        try:
            if m[0] == "sim":
                if self.kind == "CInst":
                    c.set_simulated_effect(m[2])
                elif self.kind == "CDur":
                    c.set_simulated_effect(tm, m[2])
                else:
                    raise AssertionError("a Problem has no simulated effects")
            else:
                _, f, kind, vkey, cond = m
                fe, v = w.fexp[f], w.values[vkey][0]
                cd = w.cnd if cond else True
                if self.kind == "CInst":
                    fn = {"assign": c.add_effect, "inc": c.add_increase_effect, "dec": c.add_decrease_effect}[kind]
                    fn(fe, v, cd)
                elif self.kind == "CDur":
                    fn = {"assign": c.add_effect, "inc": c.add_increase_effect, "dec": c.add_decrease_effect}[kind]
                    fn(tm, fe, v, cd)
                else:
                    fn = {"assign": c.add_timed_effect, "inc": c.add_increase_effect, "dec": c.add_decrease_effect}[kind]
                    fn(tm, fe, v, cd)
            return False
        except self.Conflict:
            return True

    def snap(self, c, t):
        """(effects tags, assigned [(fluent, vcode)], sorted incdec, sim fluents or None) of time point t."""
        w = self.w
        if self.kind == "CInst":
            effs, fa, fid, se = c._effects, c._fluents_assigned, c._fluents_inc_dec, c._simulated_effect
        elif self.kind == "CDur":
            tm = self.timings[t]
            effs, fa, fid = c._effects.get(tm, []), c._fluents_assigned.get(tm, {}), c._fluents_inc_dec.get(tm, set())
            se = c._simulated_effects.get(tm, None)
        else:
            tm = self.timings[t]
            effs, fa, fid = c._timed_effects.get(tm, []), c._fluents_assigned.get(tm, {}), c._fluents_inc_dec.get(tm, set())
            se = None
        kname = {"ASSIGN": "assign", "INCREASE": "inc", "DECREASE": "dec"}
        tags = tuple(w.effkey[(e.fluent, kname[e.kind.name], e.value, e.condition)] for e in effs)
        assigned = tuple((w.fid[k], w.vcode[v]) for k, v in fa.items())
        incdec = tuple(sorted(w.fid[k] for k in fid))
        sim = None if se is None else tuple(w.sim_fluents[id(se)])
        return (tags, assigned, incdec, sim)


ANOMALY = 63   # a change of the bookkeeping that is not "one thing appended/added": reported directly as a failure


def _appended(prev, cur):
    return len(cur) == len(prev) + 1 and tuple(cur[:-1]) == tuple(prev)


def d_snap(prev, cur, anomalies):
    """Corr_C24.d_snap on observed snapshots (tags, assigned, incdec, sim)."""
    if prev == cur:
        return [0]
    ds = [1]
    (pe, pa, pi, ps), (ce, ca, ci, cs) = prev, cur
    if pe == ce:
        ds.append(0)
    elif _appended(pe, ce):
        ds.append(1 + ce[-1])
    else:
        ds.append(ANOMALY); anomalies.append("effects")
    if pa == ca:
        ds.append(0)
    elif _appended(pa, ca):
        ds += [1 + ca[-1][0], ca[-1][1]]
    else:
        ds.append(ANOMALY); anomalies.append("fluents_assigned")
    if set(pi) == set(ci):
        ds.append(0)
    else:
        new = [f for f in ci if f not in pi]
        if len(new) == 1 and set(pi) <= set(ci):
            ds.append(1 + new[0])
        else:
            ds.append(ANOMALY); anomalies.append("fluents_inc_dec")
    if ps == cs:
        ds.append(0)
    elif cs is not None:
        ds += [1 + len(cs)] + list(cs)
    else:
        ds.append(ANOMALY); anomalies.append("simulated_effect")
    return ds


def steps_digits(steps, anomalies):
    ds = []
    for raised, cur, prev in steps:
        ds.append(1 if raised else 0)
        for p, c in zip(prev, cur):
            ds += d_snap(p, c, anomalies)
    return ds


def groups(ds):
    """Corr_C24.groups: 10 digits per 63-bit integer, behind a leading 1."""
    assert all(0 <= d < BASE for d in ds), ds
    out = []
    for i in range(0, len(ds), 10):
        n = 1
        for d in ds[i:i + 10]:
            n = (n << 6) | d
        out.append(n)
    return out


def distinct_orders(items):
    """All distinct permutations, in the order of first occurrence in itertools.permutations (Corr_C24.dedup_first)."""
    seen, out = set(), []
    for p in itertools.permutations(items):
        if p not in seen:
            seen.add(p)
            out.append(list(p))
    return out


EMPTY_SNAP = ((), (), (), None)


def run_case(rn, pre, t, items, orders, watch):
    """Runs every order on a fresh container.  Returns (prefix steps, per order steps); a step is
    (raised, snapshots after, snapshots before)."""
    out, pre_steps = [], None
    for o in orders:
        c = rn.new()
        prev = tuple(rn.snap(c, wt) for wt in watch)
        assert all(p == EMPTY_SNAP for p in prev)
        ps = []
        for (pt, pi) in pre:
            r = rn.insert(c, pt, pi)
            cur = tuple(rn.snap(c, wt) for wt in watch)
            ps.append((r, cur, prev))
            prev = cur
        if pre_steps is None:
            pre_steps = ps
        elif ps != pre_steps:
            raise AssertionError("the same prefix history behaved differently on two fresh containers")
        steps = []
        for i in o:
            r = rn.insert(c, t, i)
            cur = tuple(rn.snap(c, wt) for wt in watch)
            steps.append((r, cur, prev))
            prev = cur
        out.append(steps)
    return (pre_steps or []), out


def property_verdict(obs, pre_steps, n_sims_ok):
    """The property, evaluated on the observations only: (1) every order gives the same 'some insertion raised';
    (2) a raising insertion leaves every watched attribute as it was."""
    problems = []
    verdicts = set(any(r for r, _, _ in steps) for steps in obs)
    if n_sims_ok and len(verdicts) > 1:
        problems.append("order-dependent")
    for steps in [pre_steps] + obs:
        for r, cur, prev in steps:
            if r and cur != prev:
                problems.append("rejected-insertion-changed-bookkeeping")
                break
    return sorted(set(problems))


# ------------------------------------------------------------------------------------------------ generation
def multisets(pool, k):
    return itertools.combinations_with_replacement(pool, k)


def gen_cases(w, rng, quick):
    """Yields (kind, pre, t, items, orders(None = all), watch, exhaustive_block_name)."""
    n = w.n
    core = [n[0, "A1"], n[0, "A1r"], n[0, "A2"], n[0, "I"], n[0, "D"], n[0, "cA"], n[0, "cI"], n[1, "A1"], n[1, "I"], n["Bt"]]
    sims = [n["S0"], n["S1"], n["S01"]]
    wide = core + [n[0, "Ae"], n[0, "Ae2"], n[0, "Ih"], n[1, "A2"], n[1, "D"], n[1, "cA"], n["U1"], n["U2"], n["Bf"]]
    wsims = sims + [n["Sb"], n["Su"]]
    for kind in ("CInst", "CDur", "CProb"):
        watch = [0] if kind == "CInst" else [0, 1]
        pre0 = [] if kind == "CInst" else [(1, n[0, "A2"])]       # another time point already assigns x0
        # block A (exhaustive): every multiset of <= 4 members (<= 1 simulated effect) of the core universe, all orders
        for k in range(0, 5):
            for ms in multisets(core, k):
                yield (kind, pre0, 0, list(ms), None, watch, "A")
            if kind != "CProb" and k >= 1:
                for s in sims:
                    for ms in multisets(core, k - 1):
                        yield (kind, pre0, 0, [s] + list(ms), None, watch, "A")
        # block B (exhaustive): collections of <= 3 members inserted after a history at the SAME time point that already
        # contains an accepted and a rejected insertion (reachable, non-empty states)
        hist = [(0, n[1, "A2"]), (0, n[1, "I"])]                  # x1 := 2 accepted, x1 += 1 rejected
        for k in range(1, 4):
            for ms in multisets(core, k):
                yield (kind, hist, 0, list(ms), None, watch, "B")
        if kind != "CProb":
            hist2 = [(0, n["S0"]), (0, n[0, "I"]), (0, n[1, "I"])]  # simulated effect held, x0 += 1 rejected (defect 27 shape)
            for k in range(1, 4):
                for ms in multisets(core, k):
                    yield (kind, hist2, 0, list(ms), None, watch, "B")
    if quick:
        n_rand, maxlen, n_orders = 150, 6, 12
    else:
        n_rand, maxlen, n_orders = 2500, 7, 40
        # block C (exhaustive, thorough only): 4 effects + 1 simulated effect (120 orders) on the core universe,
        # and every multiset of <= 3 members of the wide universe
        for kind in ("CInst", "CDur"):
            watch = [0] if kind == "CInst" else [0, 1]
            for s in sims:
                for ms in multisets(core, 4):
                    yield (kind, [], 0, [s] + list(ms), None, watch, "C")
        for kind in ("CInst", "CDur", "CProb"):
            watch = [0] if kind == "CInst" else [0, 1]
            for k in range(2, 4):
                for ms in multisets(wide, k):
                    yield (kind, [], 0, list(ms), None, watch, "C")
                if kind != "CProb":
                    for s in wsims:
                        for ms in multisets(wide, k - 1):
                            yield (kind, [], 0, [s] + list(ms), None, watch, "C")
    # block R (random): collections of 5..maxlen members of the wide universe, random prefix history, sampled orders
    for _ in range(n_rand):
        kind = rng.choice(["CInst", "CDur", "CProb"])
        watch = [0] if kind == "CInst" else [0, 1]
        k = rng.randint(5, maxlen)
        items = [rng.choice(wide) for _ in range(k)]
        if kind != "CProb" and rng.random() < 0.6:
            items[rng.randrange(k)] = rng.choice(wsims)
        pre = []
        for _ in range(rng.randint(0, 3)):
            pt = 0 if kind == "CInst" else rng.choice([0, 1])
            pre.append((pt, rng.choice(wide)))
        orders = [list(items_idx) for items_idx in [rng.sample(items, k) for _ in range(n_orders)]]
        orders.append(list(items))
        orders.append(list(reversed(items)))
        yield (kind, pre, 0, items, orders, watch, "R")


def ser_case(w, kind, pre, t, items, orders, watch, obs):
    return "Case %s U %s %s %s %s %s VT %s" % (
        kind,
        glist([gpair(gn(pt), gnat(pi)) for pt, pi in pre]),
        gn(t),
        glist([gnat(i) for i in items]),
        glist([glist([gnat(i) for i in o]) for o in orders]) if orders is not None else "[]",
        glist([gn(x) for x in watch]),
        glist([str(g) for g in obs]))


def run(ctx):
    import warnings
    warnings.simplefilter("ignore")
    ok_proofs = ctx.check_props(extra=["theories/Corr/Corr_C24.v"])
    w = World()
    runners = {k: Runner(w, k) for k in ("CInst", "CDur", "CProb")}
    preamble = ("From Coq Require Import Uint63.\nDefinition U : list item :=\n [ %s ].\nDefinition VT : list value := %s.\n" % (
        "\n ; ".join(w.gmembers), glist(w.vtable)) + "Local Open Scope uint63_scope.\n")

    cases, raw = [], []
    stats = {"by_container": {}, "by_block": {}, "by_size": {}, "orders_run": 0, "insertions": 0, "rejected_insertions": 0,
             "collections_that_raise": 0, "collections_with_simulated_effect": 0, "distinct_collections": 0}
    distinct = set()
    oracle_fail = []
    for (kind, pre, t, items, orders, watch, block) in gen_cases(w, ctx.rng, ctx.quick):
        rn = runners[kind]
        all_orders = distinct_orders(items) if orders is None else orders
        pre_steps, obs = run_case(rn, pre, t, items, all_orders, watch)
        anomalies = []
        digits = steps_digits(pre_steps, anomalies)
        for steps in obs:
            digits += steps_digits(steps, anomalies)
        nsim = sum(1 for i in items if w.is_sim(i)) + sum(1 for pt, pi in pre if pt == t and w.is_sim(pi))
        verdict = property_verdict(obs, pre_steps, nsim <= 1)
        idx = len(cases)
        cases.append(ser_case(w, kind, pre, t, items, orders, watch, groups(digits)))
        if anomalies:
            verdict = sorted(set(verdict + ["bookkeeping-changed-otherwise-than-by-one-addition:" + a for a in anomalies]))
        raw.append({"container": kind, "pre": pre, "time_point": t, "collection": items,
                    "members": [repr(w.members[i][:2]) if w.is_sim(i) else repr(w.members[i]) for i in items],
                    "orders": "all distinct permutations" if orders is None else orders, "watch": watch, "block": block,
                    "some_insertion_raised_per_order": [any(r for r, _, _ in steps) for steps in obs],
                    "_args": (kind, pre, t, items, all_orders, watch)})
        if verdict:
            oracle_fail.append((idx, verdict))
        stats["by_container"][kind] = stats["by_container"].get(kind, 0) + 1
        stats["by_block"][block] = stats["by_block"].get(block, 0) + 1
        stats["by_size"][len(items)] = stats["by_size"].get(len(items), 0) + 1
        stats["orders_run"] += len(all_orders)
        stats["insertions"] += len(all_orders) * len(items)
        stats["rejected_insertions"] += sum(1 for steps in obs for r, _, _ in steps if r)
        stats["collections_that_raise"] += 1 if any(r for steps in obs for r, _, _ in steps) else 0
        stats["collections_with_simulated_effect"] += 1 if nsim else 0
        if len(items) >= 2:
            distinct.add((kind, tuple(pre), tuple(sorted(items))))
    stats["distinct_collections"] = len(distinct)

    bad = ctx.coq_failing(cases, "ok", imports=IMPORTS, preamble=preamble, shard=120 if ctx.quick else 200, ty="case")
    oracle_idx = dict(oracle_fail)
    for i in bad:
        c = raw[i]
        verdict = oracle_idx.get(i, [])
        model = ctx.coq_show("(model_pre c, model_obs c)", imports=IMPORTS, preamble=preamble + "Definition c := %s.\n" % cases[i])
        kind_, pre_, t_, items_, orders_, watch_ = c.pop("_args")
        ps_, obs_ = run_case(runners[kind_], pre_, t_, items_, orders_, watch_)
        c["observed_trace (raised, snapshots after = per watched point (effect tags, fluents_assigned, fluents_inc_dec, simulated effect))"] = {
            "prefix": [(r, cur) for r, cur, _ in ps_], "orders": [[(r, cur) for r, cur, _ in st] for st in obs_][:30]}
        tags = ["c24", c["container"], "block-" + c["block"]] + verdict
        ctx.fail("corr", "insertion orders of a collection: implementation and model disagree on raised flags or bookkeeping "
                 "(corr:C24:add_item/tadd_item)%s" % ("; property fails: " + ",".join(verdict) if verdict else ""),
                 tags, {"case": c, "gallina_case": cases[i][:3000], "model_trace": model,
                        "theorem_or_corr": "corr:C24:check_conflicting_effects/_add_effect_instance/set_simulated_effect"},
                 bool(verdict))
    for i, verdict in oracle_fail:
        if i in bad:
            continue
        c = raw[i]
        c.pop("_args", None)
        ctx.fail("oracle", "property fails on the implementation although model and implementation agree: %s" % ",".join(verdict),
                 ["c24", c["container"], "block-" + c["block"]] + verdict, {"case": c, "gallina_case": cases[i][:3000]}, True)
    if not ok_proofs:
        ctx.proof_broken()
    ctx.finish({
        "evaluations": len(cases),
        "distinct_nontrivial": len(distinct),
        "rule": "a case = (container, prefix history, collection); distinct = distinct (container, prefix, multiset) with >= 2 members; "
                "every case runs all permutations (blocks A, B, C) or the sampled orders (block R), each on a fresh container",
        "exhaustive": True,
        "exhaustive_scope": "blocks A/B(/C): every multiset of the stated size over the stated universe, every insertion order; block R is random",
        "samples": [{k: v for k, v in r.items() if k != "_args"} for r in (raw[40:41] + raw[len(raw) // 2: len(raw) // 2 + 1] + raw[-1:])],
        "distribution": stats,
        "traces_validated_against_impl": stats["orders_run"],
    }, "proof", assumptions=[
        "effects are abstracted to (fluent, is-Boolean-fluent, kind, value, is-conditional); values to numeric constant / object / expression identity",
        "at most one simulated effect per time point in a collection (set_simulated_effect replaces)",
        "timed containers: a Timing key bound to an empty dict/set is the same as an absent key",
    ])
